import QclibModel.Proofs.SparseTrack
import QclibModel.Proofs.SparseReal
import QclibModel.Proofs.SparseCvoAmp
import QclibModel.Proofs.SparseOrder
import QclibModel.Proofs.SparseSelect
import QclibModel.Proofs.SparseSearch
import QclibModel.Proofs.SparsePivotProof
import QclibModel.Proofs.SparseCvoTotalMain
import QclibModel.Proofs.SparseCvoTotalRealAmp
import QclibModel.Proofs.SparseCvoTotalRccxDecomp
import QclibModel.Proofs.SparseMergeTotal
import QclibModel.Proofs.SparsePivotTotalK
/-
  C06 — sparse state preparation (merge.py, pivot.py, cvoqram.py).
  Property theorems only; models in Model/Sparse*.lean, proofs in Proofs/Sparse*.lean.
-/
namespace Qclib
open Qclib.Sparse

/-- **C06 (tracking).**  For every key `s` (any length), every state `ψ` and every gate the merge
generator emits while it relabels its dictionary: the amplitude that `ψ` has on the basis label of
`s` is, after the gate, on the label of the tracked string — `_compute_op_x(s, q)` for `x q`,
`_compute_op_cx(s, [c, t])` for `cx c t` — and the tracked string keeps its length.  So the tracked
dictionary *is* the relabelled support of the state. -/
theorem C06_track {Θ R : Type} [CommRing R] [RotSem Θ R] (s : Str) (ψ : State R) :
    (∀ q, q < s.length →
        denote (G.x q : G Θ) ψ (lab (computeOpX s q)) = ψ (lab s)
        ∧ (computeOpX s q).length = s.length) ∧
    (∀ c t, t < s.length → c ≠ t →
        denote (G.cx c t : G Θ) ψ (lab (computeOpCx s c t)) = ψ (lab s)
        ∧ (computeOpCx s c t).length = s.length) := by
  constructor
  · intro q hq
    refine ⟨?_, computeOpX_length s q hq⟩
    rw [denote_x, lab_computeOpX s q hq, flipBit_flipBit]
  · intro c t ht hct
    refine ⟨?_, computeOpCx_length s c t ht⟩
    rw [denote_cx, lab_computeOpCx s c t ht]
    by_cases h : lab s c = true
    · have hc : flipBit (lab s) t c = true := by rw [flipBit_ne _ hct]; exact h
      simp only [h, if_true, hc, flipBit_flipBit]
    · rw [if_neg h, if_neg h]

example : computeOpCx [true, false, true] 0 2 = [true, false, false]
    ∧ computeOpX [true, false, true] 1 = [true, true, true] := by decide

/-- **C06 (the merge search terminates).**  In `_bit_string_search` the list kept for the next
round (`t_0` or `t_1` of `_maximizing_difference_bit_search`) is strictly shorter than the current
one whenever the loop condition `len(temp_strings) > 1` holds — this is the well-founded measure
with which the model's `bitStringSearch` is defined. -/
theorem C06_search_terminates (strs : List Str) (dq : List Nat) (h : strs.length > 1) :
    (maxDiffBitSearch strs dq).2.1.length < strs.length ∧
    (maxDiffBitSearch strs dq).2.2.length < strs.length :=
  maxDiff_shrinks strs dq h

example : maxDiffBitSearch [[false, false], [false, true], [true, true]] []
    = (0, [[false, false], [false, true]], [[true, true]]) := by decide

/-- **C06 (merge rotation).**  Let `(θ, φ, λ) = _compute_angles(a₁, a₂)` and `N = ‖(a₁, a₂)‖ > 0`
(`a₁` the amplitude of the string with `1` on the target, `a₂` with `0`).  The gate `U(θ,φ,λ)`
placed by `_merge` — which stays as it is under the final `reverse_ops` — sends `N|1⟩` to
`a₂|0⟩ + a₁|1⟩`: second column of the matrix times `N` is `(a₂, a₁)`.
Complex branch (some amplitude is a Python `complex`): no further hypothesis.
Real branch (both are real scalars, which in `MergeInitialize` are always norms of earlier
merges): needs `a₁ ≥ 0`; for `a₁ < 0` the formula would load `|a₁|`. -/
theorem C06_merge_rot (a1 a2 : Amp ℝ) (hN : 0 < normAmp a1 a2)
    (hreal : (a1.cplx || a2.cplx) = false → a1.im = 0 ∧ a2.im = 0 ∧ 0 ≤ a1.re) :
    (matU (mergeAngles a1 a2).1 (mergeAngles a1 a2).2.1 (mergeAngles a1 a2).2.2 : Mat2 ℂ).b
        * ((normAmp a1 a2 : ℝ) : ℂ) = a2.toC ∧
    (matU (mergeAngles a1 a2).1 (mergeAngles a1 a2).2.1 (mergeAngles a1 a2).2.2 : Mat2 ℂ).d
        * ((normAmp a1 a2 : ℝ) : ℂ) = a1.toC := by
  cases hc : (a1.cplx || a2.cplx)
  · obtain ⟨h1, h2, h3⟩ := hreal hc
    exact merge_rot_real a1 a2 hc h1 h2 h3 hN
  · exact merge_rot_complex a1 a2 hc hN

example : 0 < normAmp (⟨3, 4, true⟩ : Amp ℝ) ⟨0, -1, true⟩ := by
  show 0 < Real.sqrt ((3 * 3 + 4 * 4) + (0 * 0 + (-1) * (-1)))
  exact Real.sqrt_pos.mpr (by norm_num)

/-- **C06 (CVO-QRAM order).**  Let the patterns be distinct `n`-bit strings sorted by
non-decreasing number of ones.  Then for every earlier pattern `pᵢ` and later pattern `pⱼ`:
on any basis label whose memory register carries `pᵢ` the control literals of the rotation that
loads `pⱼ` (the memory wires of the ones of `pⱼ`, as `_select_controls` lists them) are **not**
all satisfied, while on a label carrying `pⱼ` itself (the flag branch after the flip-flop) they
are.  With or without auxiliaries (only the wire offsets differ). -/
theorem C06_cvo_order (n : Nat) (aux : Bool) (ps : List Str) (hlen : ∀ p ∈ ps, p.length = n)
    (hnd : ps.Pairwise (· ≠ ·)) (hs : ps.Pairwise (fun a b => weight a ≤ weight b)) :
    ps.Pairwise (fun pi pj => ∀ b : Bits, carries n aux pi b → ctrlOk (cvoCtrl n aux pj) b = false)
    ∧ ∀ p ∈ ps, ∀ b : Bits, carries n aux p b → ctrlOk (cvoCtrl n aux p) b = true := by
  constructor
  · refine (order_witness n ps hlen hnd hs).imp_of_mem ?_
    intro a b ha hb hw β hβ
    exact cvo_not_fires n aux a b (hlen a ha) (hlen b hb) hw β hβ
  · intro p hp b hb
    exact cvo_fires_own n aux p (hlen p hp) b hb

example : [[false, false, true], [true, false, false], [true, true, false]].Pairwise
    (fun a b => weight a ≤ weight b) := by decide

/-- **C06 (CVO-QRAM amplitude recurrence).**  For a complex feature `x ≠ 0` with
`|x|² ≤ norm` (the probability mass not yet loaded), `(α, β, φ) = _compute_matrix_angles(x, norm)`:
the rotation `U(α,β,φ)` on the flag, applied to the flag branch `√norm·|1⟩`, puts exactly `x` on
`|0⟩` (the loaded pattern) and leaves `√(norm − |x|²)` on the flag; the running norm becomes
`norm − |x|²`.  Hence the flag amplitude is `√(1 − Σ_{i≤j}|xᵢ|²)` after pattern `j` and `0` after
the last one of a unit vector. -/
theorem C06_cvo_amp (x : Amp ℝ) (hx : x.cplx = true) (norm : ℝ)
    (hp : 0 < x.re ^ 2 + x.im ^ 2) (hle : x.re ^ 2 + x.im ^ 2 ≤ norm) :
    (matU (cvoAngles x norm).1 (cvoAngles x norm).2.1 (cvoAngles x norm).2.2 : Mat2 ℂ).b
        * ((Real.sqrt norm : ℝ) : ℂ) = x.toC ∧
    (matU (cvoAngles x norm).1 (cvoAngles x norm).2.1 (cvoAngles x norm).2.2 : Mat2 ℂ).d
        * ((Real.sqrt norm : ℝ) : ℂ) = ((Real.sqrt (norm - (x.re ^ 2 + x.im ^ 2)) : ℝ) : ℂ) ∧
    normNext x norm = norm - (x.re ^ 2 + x.im ^ 2) :=
  cvo_rot x hx norm hp hle

example : (0 : ℝ) < (3 / 5 : ℝ) ^ 2 + (0 : ℝ) ^ 2 ∧ (3 / 5 : ℝ) ^ 2 + (0 : ℝ) ^ 2 ≤ 1 := by
  norm_num

/-- **C06 (merge selection: the merge touches exactly the pair).**  For every `n` and every
dictionary of `m ≥ 2` distinct `n`-bit keys (`d.keys = keys`):
* `_select_strings` succeeds (no `IndexError`), returning `(bitstr1, bitstr2, dif, dif_qubits)` with
  both strings keys of the dictionary, different on `dif`, `dif ∉ dif_qubits`, all positions `< n`
  (proved by induction over `_bit_string_search`: the string found is the **only** key matching
  `dif_values` on `dif_qubits`);
* `_preprocess_states` then relabels `bitstr1`, `bitstr2` and *every* dictionary key by one and the
  same map `f` (a composition of the emitted `x`/`cx` gates, cf. C06_track) that is injective on the
  keys (the bookkeeping never merges two amplitudes) and length preserving;
* afterwards the two strings carry `1` resp. `0` on `dif` and agree on every other position, and
  the control literals "all `dif_qubits` are 1" of the multi-controlled merge gate hold on the
  label of a key **iff** that key is `bitstr1` or `bitstr2`: the merge touches exactly the pair. -/
theorem C06_merge_select {α : Type} (n : Nat) (keys : List Str) (hnd : keys.Nodup)
    (hlen : ∀ k ∈ keys, k.length = n) (h2 : keys.length ≥ 2)
    (d : Dict α) (g : List (SG α)) (e : List (MEv α)) :
    ∃ b1 b2 dif dq, selectStrings keys = some (b1, b2, dif, dq) ∧
      b1 ∈ keys ∧ b2 ∈ keys ∧ b1 ≠ b2 ∧ dif < n ∧ dif ∉ dq ∧ (∀ q ∈ dq, q < n) ∧
      ∃ f : Str → Str,
        (preprocess ⟨b1, b2, d, g, e⟩ dif dq).d = d.mapKeys f ∧
        (preprocess ⟨b1, b2, d, g, e⟩ dif dq).b1 = f b1 ∧
        (preprocess ⟨b1, b2, d, g, e⟩ dif dq).b2 = f b2 ∧
        (∀ k ∈ keys, ∀ k' ∈ keys, f k = f k' → k = k') ∧
        (∀ k ∈ keys, (f k).length = n) ∧
        (∀ k ∈ keys, ctrlOk (dq.map (fun q => (q, true))) (lab (f k)) = true ↔ (k = b1 ∨ k = b2)) ∧
        bitAt (f b1) dif = true ∧ bitAt (f b2) dif = false ∧
        (∀ j, j ≠ dif → bitAt (f b1) j = bitAt (f b2) j) := by
  obtain ⟨b1, b2, dif, dq, hsel, hb1, hb2, hdn, hdq, hqn, hdiff, U1, U2⟩ :=
    select_spec n keys hnd hlen h2
  refine ⟨b1, b2, dif, dq, hsel, hb1, hb2, ?_, hdn, hdq, hqn,
    merge_pair_only n keys hlen b1 b2 hb1 hb2 dif dq hdn hdq hqn hdiff U1 U2 d g e⟩
  intro e'; apply hdiff; rw [e']

example : ([[false, false, true], [false, true, true], [true, true, false]] : List Str).Nodup
    ∧ ∀ k ∈ ([[false, false, true], [false, true, true], [true, true, false]] : List Str),
        k.length = 3 := by decide

/-- **C06 (pivot step), proved part.**  For every `n`, `t ≤ n`, pivot `index_nonzero` outside the low
block and free low-block index `index_zero`:
(1) the model's `_pivoting` finds `index_differ` among the high positions with
`ctrl_state = index_nonzero[index_differ]`, `target_cx` = the other differing positions, and its
new state is `_next_state` for that choice;
(2) `_next_state` sends `index_nonzero` to `index_zero`;
(3) it leaves every low-block key other than `index_zero` where it is (so the pivot never collides
with an amplitude already in place, and the number of keys outside the low block strictly
decreases);
(4) every key keeps its length;
(5) when the loop exits (`_get_index_nz` is `None`) every key is an integer `< 2^t`: the dense
hand-off on `t = ⌈log₂ m⌉` qubits loses nothing.
Not proved here (tied by the gate-list/dictionary diff and the oracle instead): that `_next_state`
equals the reversible evaluation of the emitted CX-fan / X-sandwich / MCX on keys *outside* the
low block other than the pivot, and that it is injective on those keys; that `_get_index_zero`
always finds a free low-block index (pigeonhole). -/
theorem C06_pivot_step_partial {α : Type} (n t : Nat) (ht : t ≤ n) (aux : Bool) (nz zero : Str)
    (st : Dict α) (hnz : nz.length = n) (hz : zero.length = n) (hzlow : inLow n t zero)
    (hnzhigh : ¬ inLow n t nz) :
    (∃ c : PivotChoice n t nz zero,
      (pivoting n t aux nz zero st).2.st = nextState c.d c.cv c.tcx (n - t) zero st ∧
      (pivoting n t aux nz zero st).2.differ = c.d ∧ (pivoting n t aux nz zero st).2.cv = c.cv ∧
      nextKey c.d c.cv c.tcx (n - t) zero nz = zero ∧
      (∀ s : Str, s.length = n → inLow n t s → s ≠ zero →
        nextKey c.d c.cv c.tcx (n - t) zero s = s) ∧
      (∀ s : Str, s.length = n → (nextKey c.d c.cv c.tcx (n - t) zero s).length = n)) ∧
    (∀ st' : Dict α, (∀ k ∈ st'.keys, k.length = n) → getIndexNz (n - t) st' = none →
      ∀ k ∈ st'.keys, strToNat k < 2 ^ t) := by
  constructor
  · obtain ⟨c, h1, h2, h3⟩ := pivoting_choice n t aux nz zero st hzlow hnzhigh
    refine ⟨c, h1, h2, h3, nextKey_pivot n t nz zero hnz hz c, ?_, ?_⟩
    · intro s hs hlow hne
      exact nextKey_low_fixed n t nz zero hz hzlow c s hs hlow hne
    · intro s hs
      rw [nextKey_length _ _ _ _ _ _ (by have := c.hd; omega), hs]
  · intro st' hlen hexit
    exact exit_all_low n t ht st' hlen hexit

example : inLow 3 1 [false, false, true] ∧ ¬ inLow 3 1 [true, false, true] := by
  constructor
  · intro i hi
    have : i = 0 ∨ i = 1 := by omega
    rcases this with rfl | rfl <;> rfl
  · intro h; exact absurd (h 0 (by omega)) (by decide)

/-- **C06 (CVO-QRAM, the whole circuit).**  For every `n ≥ 1`, both register layouts (`with_aux`)
and every `mcg_method`: let `d` be a dictionary of distinct `n`-bit patterns sorted by non-decreasing
Hamming weight with non-zero amplitudes `x_k` (each a Python `complex`, or a real scalar of either
sign), `Σ|x_k|² = 1`.  The circuit the model
`cvoInit` builds — `x(flag)`, then per pattern the flip-flop CXs from the flag, the rotation
`U(α,β,−β)` of the flag controlled on the ones of the pattern (an ideal multi-controlled gate
without auxiliaries; the `rccx` compute / `cu` / uncompute ladder of `_mcuvchain` with them, `rccx`
being qiskit's relative-phase Toffoli matrix with its `±i`, `−1` phases), and the flip-flop back
(omitted after the last pattern) — maps every state `ψ₀` supported on "all circuit wires `0`"
(spectator wires arbitrary) to the state with
* amplitude `x_k · ψ₀(cleared label)` on each label whose memory register carries pattern `k` and
  whose flag and ancillas are `0` — exactly, global phase included;
* `0` on labels whose memory register carries no listed pattern;
* `0` on every label with the flag or an ancilla set (both returned to `|0⟩`).
Induction over the patterns with the invariant `Σ_{i<j} x_i|p_i⟩|0⟩ + √(1−Σ_{i<j}|x_i|²)·|0…0⟩|flag⟩`;
the step uses `C06_cvo_order` (the controls fire only on the flag branch) and `C06_cvo_amp` (the
rotation loads `x_j` and leaves `√(norm − |x_j|²)`). -/
theorem C06_cvo_total (n : Nat) (hn : 1 ≤ n) (aux : Bool) (method : String) (d : Dict ℝ)
    (hlen : ∀ kv ∈ d, kv.1.length = n) (hnd : d.keys.Pairwise (· ≠ ·))
    (hs : d.keys.Pairwise (fun a b => weight a ≤ weight b))
    (hx : ∀ kv ∈ d, (kv.2.cplx = false → kv.2.im = 0) ∧ 0 < kv.2.re ^ 2 + kv.2.im ^ 2)
    (hsum : sqSum d = 1)
    (dn : List Nat → List (Amp ℝ) → State ℂ → State ℂ) (ψ0 : State ℂ)
    (hψ0 : ∀ b w, w < cvoWidth n aux → b w = true → ψ0 b = 0) (b : Bits) :
    let out := semSG Complex.I dn (cvoInit n aux method d).1 ψ0 b
    let clean := cvoAncClr n aux b && !b 0
    (∀ kv ∈ d, carries n aux kv.1 b → clean = true → out = kv.2.toC * ψ0 (cvoClr n aux b))
    ∧ ((∀ kv ∈ d, ¬ carries n aux kv.1 b) → out = 0)
    ∧ (clean = false → out = 0) := by
  have hlenk : ∀ p ∈ d.keys, p.length = n := by
    intro p hp
    obtain ⟨kv, hkv, rfl⟩ := List.mem_map.mp hp
    exact hlen kv hkv
  have hrot : ∀ kv ∈ d, RotOk kv.2 := by
    intro kv hkv norm hle
    cases hc : kv.2.cplx
    · exact cvo_rot_realamp kv.2 hc ((hx kv hkv).1 hc) norm (hx kv hkv).2 hle
    · exact C06_cvo_amp kv.2 hc norm (hx kv hkv).2 hle
  have htot := cvo_total_of n hn aux method d hlen hrot hsum
    (C06_cvo_order n aux d.keys hlenk hnd hs).1 dn ψ0 hψ0
  intro out clean
  have hout : out = cvoDone n aux ψ0 (toCs d) b := congrFun htot b
  refine ⟨?_, ?_, ?_⟩
  · intro kv hkv hc hcl
    rw [hout]
    unfold cvoDone
    rw [if_pos hcl, loaded_key n aux d hlen hnd kv.1 kv.2 hkv b hc]
  · intro hno
    rw [hout]
    unfold cvoDone
    rw [loaded_nokey n aux d b hno]
    simp
  · intro hcl
    rw [hout]
    unfold cvoDone
    have hcl' : (cvoAncClr n aux b && !b 0) = false := hcl
    rw [if_neg (by rw [hcl']; simp)]

/-- Non-vacuity of `C06_cvo_total`: `{01: 3/5, 11: 4i/5}` on `n = 2` with auxiliaries, from the
state that is `1` exactly on the labels with all four circuit wires `0`. -/
example : ∃ (d : Dict ℝ) (ψ0 : State ℂ),
    (∀ kv ∈ d, kv.1.length = 2) ∧ d.keys.Pairwise (· ≠ ·)
    ∧ d.keys.Pairwise (fun a b => weight a ≤ weight b)
    ∧ (∀ kv ∈ d, (kv.2.cplx = false → kv.2.im = 0) ∧ 0 < kv.2.re ^ 2 + kv.2.im ^ 2)
    ∧ sqSum d = 1
    ∧ (∀ b w, w < cvoWidth 2 true → b w = true → ψ0 b = 0) ∧ ψ0 (fun _ => false) = 1 := by
  refine ⟨[([false, true], ⟨3 / 5, 0, true⟩), ([true, true], ⟨0, 4 / 5, true⟩)],
    fun b => if (List.range (cvoWidth 2 true)).all (fun w => !b w) then 1 else 0,
    ?_, by decide, by decide, ?_, ?_, ?_, ?_⟩
  · intro kv hkv; simp at hkv; rcases hkv with rfl | rfl <;> rfl
  · intro kv hkv; simp at hkv; rcases hkv with rfl | rfl <;> norm_num
  · norm_num [sqSum]
  · intro b w hw hb
    have : (List.range (cvoWidth 2 true)).all (fun w => !b w) = false := by
      rw [List.all_eq_false]
      exact ⟨w, List.mem_range.mpr hw, by simp [hb]⟩
    simp [this]
  · simp [cvoWidth]

/-- **C06 (the `rccx` of the ladders).**  qiskit's `RCCXGate` definition
`h t; t t; cx b t; tdg t; cx a t; t t; cx b t; tdg t; h t` (with `T = p(π/4)`) denotes, for every
state and all distinct wires, exactly the matrix the sparse-gate semantics gives to `rccx a b t`
(`applyRccx`): `Y` on the target when `a = b = 1`, `Z` when `a = 1, b = 0`, identity when `a = 0`.
So the relative phases `±i`, `−1` that `C06_cvo_total` cancels in the compute/uncompute ladder are
the ones of the real gate. -/
theorem C06_rccx_matrix (a b t : Nat) (hat : a ≠ t) (hbt : b ≠ t) (ψ : State ℂ) :
    sem (rccxCirc (Real.pi / 4) (-(Real.pi / 4)) a b t) ψ = applyRccx Complex.I a b t ψ :=
  rccx_decomp_real a b t hat hbt ψ

example : (0 : Nat) ≠ 2 ∧ (1 : Nat) ≠ 2 := by decide

/-- **C06 (MergeInitialize, the whole circuit).**  For every `n` and every dictionary `d` of `m ≥ 2`
distinct `n`-character keys with non-zero amplitudes — Python `complex` values, or real scalars
that are non-negative (a negative real scalar is outside the theorem, cf. `C06_merge_rot`):
* the construction succeeds, `mergeInit d = some (gates, evs)`: `_select_strings` never raises
  (`C06_merge_select`), every dictionary lookup succeeds, the `while` loop ends after `m − 1`
  passes (each pass removes exactly one key);
* the circuit `gates` — the generated list reversed by `reverse_ops`, the merge rotations as
  emitted, the opaque multi-controlled `U` denoting the ideal multi-controlled gate — prepares
  `Σ_k a_k|k⟩` **exactly**, global phase included and zero on every non-key, from `‖a‖·|0…0⟩`: for
  every `ψ₀` supported on labels whose wires `0 … n−1` are `0` (spectators arbitrary) the output
  amplitude on a label `b` is the amplitude of the key on wires `0 … n−1` of `b` (`0` if that is
  not a key) times `ψ₀` of the cleared label.  Key character `i` ↔ wire `i`.
Induction over the passes of the loop, backwards through the reversed circuit: each pass maps the
state of the merged dictionary (norm `‖(a₁,a₂)‖` on `bitstr1`, nothing on `bitstr2`) to the state of
the dictionary before it — the controls hold exactly on the pair (`C06_merge_select`), the second
column of `U(θ,φ,λ)` restores `(a₂, a₁)` (`C06_merge_rot`), the `x`/`cx` relabellings are undone
(`C06_track`) — and the final `X` layer moves `|0…0⟩` to the last key.
`m = 1` is excluded: the code then emits only `x` gates and the amplitude's phase is lost. -/
theorem C06_merge_total (iu : ℂ) (dn : List Nat → List (Amp ℝ) → State ℂ → State ℂ) (n : Nat)
    (d : Dict ℝ) (hnd : d.keys.Nodup) (hlen : ∀ k ∈ d.keys, k.length = n) (hm : 2 ≤ d.length)
    (hnz : ∀ kv ∈ d, kv.2.toC ≠ 0)
    (hreal : ∀ kv ∈ d, kv.2.cplx = false → kv.2.im = 0 ∧ 0 ≤ kv.2.re) :
    ∃ gates evs, mergeInit d = some (gates, evs) ∧
      ∀ ψ0 : State ℂ, (∀ b : Bits, (∃ i, i < n ∧ b i = true) → ψ0 b = 0) →
        ∀ b : Bits, semSG iu dn gates (scale ((Mrg.dictNorm d : ℝ) : ℂ) ψ0) b
          = Mrg.ampOf d (Mrg.wireKey n b) * ψ0 (Mrg.clr n b) :=
  Mrg.merge_total iu dn n d hnd hlen hm hnz hreal

/-- **C06 (MergeInitialize, whole circuit, unit vector).**  `C06_merge_total` for complex amplitudes
with `Σ|a_k|² = 1`: started on `ψ₀` itself (amplitude `1` on `|0…0⟩`) the circuit puts exactly
`a_k` on key `k` and `0` elsewhere. -/
theorem C06_merge_total_unit (iu : ℂ) (dn : List Nat → List (Amp ℝ) → State ℂ → State ℂ)
    (n : Nat) (d : Dict ℝ) (hnd : d.keys.Nodup) (hlen : ∀ k ∈ d.keys, k.length = n)
    (hm : 2 ≤ d.length) (hc : ∀ kv ∈ d, kv.2.cplx = true) (hnz : ∀ kv ∈ d, kv.2.toC ≠ 0)
    (hunit : Mrg.dictSq d = 1) :
    ∃ gates evs, mergeInit d = some (gates, evs) ∧
      ∀ ψ0 : State ℂ, (∀ b : Bits, (∃ i, i < n ∧ b i = true) → ψ0 b = 0) →
        ∀ b : Bits, semSG iu dn gates ψ0 b = Mrg.ampOf d (Mrg.wireKey n b) * ψ0 (Mrg.clr n b) :=
  Mrg.merge_total_unit iu dn n d hnd hlen hm hc hnz hunit

/-- Non-vacuity of both merge theorems: `{'00': 0.6, '11': 0.8j}` satisfies every hypothesis, and
the support hypothesis on `ψ₀` is met by a non-zero state. -/
example : Mrg.exDict.keys.Nodup ∧ (∀ k ∈ Mrg.exDict.keys, k.length = 2) ∧ 2 ≤ Mrg.exDict.length ∧
    (∀ kv ∈ Mrg.exDict, kv.2.cplx = true) ∧ (∀ kv ∈ Mrg.exDict, kv.2.toC ≠ 0) ∧
    Mrg.dictSq Mrg.exDict = 1 := Mrg.exDict_hyps

example : ∃ ψ0 : State ℂ, (∀ b : Bits, (∃ i, i < 2 ∧ b i = true) → ψ0 b = 0) ∧
    ψ0 (fun _ => false) = 1 := by
  refine ⟨fun b => if b 0 || b 1 then 0 else 1, ?_, by simp⟩
  rintro b ⟨i, hi, hb⟩
  have : i = 0 ∨ i = 1 := by omega
  rcases this with rfl | rfl <;> simp [hb]

/-- **C06 (pivot step, the gaps of `C06_pivot_step_partial` closed — gates).**  Characters of a key
sit on wires `r 0, …, r (n−1)` (`r` injective).  For every `index_differ = d` among the high positions
(`d < lo = n − t`), every `ctrl_state`, every `target_cx` list (distinct positions `< n`, not
containing `d`) and every `index_zero`:
(1) on **every** label `b`, running the emitted CX fan (with `ctrl_state`), X sandwich,
multi-controlled X on the low-block wires and X sandwich (`stepB`, the classical action of the
gates) relabels the key carried by `b` exactly by `_next_state` (`nextKey`) — for all keys, not
only the pivot and the low block;
(2) `_next_state` is injective on keys (it is a composition of two involutions), so a pivot step
never maps two keys together. -/
theorem C06_pivot_step (r : Nat → Nat) (n lo d : Nat) (cv : Bool) (tcx : List Nat) (zero : Str)
    (hr : ∀ i j, i < n → j < n → r i = r j → i = j) (hlo : lo ≤ n) (hd : d < lo)
    (hdt : d ∉ tcx) (hnd : tcx.Nodup) (htn : ∀ k ∈ tcx, k < n) (hz : zero.length = n) :
    (∀ b : Bits,
      keyOf r n (stepB r n lo d cv tcx zero b) = nextKey d cv tcx lo zero (keyOf r n b)) ∧
    (∀ s1 s2 : Str, d < s1.length → d < s2.length →
      nextKey d cv tcx lo zero s1 = nextKey d cv tcx lo zero s2 → s1 = s2) :=
  ⟨fun b => stepB_key r n lo d cv tcx zero hr hlo hd hdt hnd htn hz b,
   fun s1 s2 h1 h2 h => nextKey_injective d cv tcx lo zero s1 s2 hd h1 h2 hdt h⟩

example : (0 : Nat) < 2 ∧ (0 : Nat) ∉ [1, 2] ∧ ([1, 2] : List Nat).Nodup
    ∧ (∀ k ∈ ([1, 2] : List Nat), k < 3) ∧ ([false, false, true] : Str).length = 3 := by decide

/-- **C06 (pivot step — progress: pigeonhole and termination measure).**  Let the tracked dictionary
hold `m` distinct `n`-character keys, `t ≥ 1`, `t ≤ m ≤ 2^t` (as for `t = ⌈log₂ m⌉`, `m ≥ 2`).
Whenever `_get_index_nz` finds a key `nz` outside the low block, `_get_index_zero` does not return
`None`: it finds a free index `zero` of length `n` that lies **in the low block** and is not a key
(pigeonhole: at most `m − 1 < 2^t` keys are inside); after the pivot step the dictionary still holds
`m` distinct `n`-character keys and the number of keys outside the low block has **strictly
decreased** — so the `while` loop of `_define_initialize` stops after at most `m` passes. -/
theorem C06_pivot_progress {α : Type} (n t m : Nat) (ht : 1 ≤ t) (hm : m ≤ 2 ^ t) (htm : t ≤ m)
    (aux : Bool) (st : Dict α) (hinv : PInv n m st) (nz : Str)
    (hnz : getIndexNz (n - t) st = some nz) :
    ∃ zero, getIndexZero n m st = some zero ∧ zero.length = n ∧ inLow n t zero ∧ zero ∉ st.keys ∧
      PInv n m (pivoting n t aux nz zero st).2.st ∧
      highCount (n - t) (pivoting n t aux nz zero st).2.st < highCount (n - t) st := by
  obtain ⟨_, hmem, hnzlen, hnlow, zero, hz, hzlen, hzlow, hzfree⟩ :=
    step_indices n t m ht hm htm st hinv nz hnz
  obtain ⟨h1, h2⟩ := step_inv n t m aux st hinv nz zero hmem hnzlen hnlow hzlen hzlow hzfree
  exact ⟨zero, hz, hzlen, hzlow, hzfree, h1, h2⟩

example : PInv (α := Nat) 3 2 [([true, false, true], ⟨7, 0, true⟩), ([false, false, true], ⟨9, 0, true⟩)]
    ∧ getIndexNz (α := Nat) (3 - 1)
        [([true, false, true], ⟨7, 0, true⟩), ([false, false, true], ⟨9, 0, true⟩)]
        = some [true, false, true] :=
  ⟨⟨by decide, by decide, rfl⟩, by decide⟩

/-- **C06 (PivotInitialize, the whole circuit, `aux = False`).**  For every `n` and every dictionary
`d` of `m ≥ 2` distinct `n`-character keys:
* the constructor model succeeds, `pivotInit n false d = some out`, with `out.t = ⌈log₂ m⌉ ≤ n` and a
  dense vector of `2^t` entries (free index found by pigeonhole, loop ends within `m` passes,
  `dense_state[int(key,2)]` never out of range);
* if the dense hand-off of this call behaves as property C01 states (`DenseOn`: on a state supported
  on "wires `0 … t−1` are `0`" it puts `out.dense[int of those wires]` times the input amplitude of
  the cleared label), then the whole circuit — dense initializer, then all pivot gates in inverse
  order with `reverse_bits` (wire `q` = bit `q` of `int(key, 2)`) — maps every `ψ₀` supported on "the
  `n` circuit wires are `0`" to `amp(d[key read off b]) · ψ₀(cleared b)` on every label `b`: the
  dictionary is prepared exactly, amplitudes carried along unchanged, zero on every non-key.
The opaque multi-controlled X gates denote the ideal gate (C04/C05). -/
theorem C06_pivot_total {Θ R : Type} [CommRing R] [RotSem Θ R] [NumOps Θ] (iu : R)
    (dn : List Nat → List (Amp Θ) → State R → State R) (amp : Amp Θ → R)
    (hamp0 : amp zeroAmp = 0) (n : Nat) (d : Dict Θ) (hnd : d.keys.Nodup)
    (hlen : ∀ k ∈ d.keys, k.length = n) (hm2 : 2 ≤ d.length) :
    ∃ out : PivotOut Θ, pivotInit n false d = some out ∧ out.t = ceilLog2 d.length ∧
      out.t ≤ n ∧ out.dense.length = 2 ^ out.t ∧
      (DenseOn amp dn (List.range out.t) out.dense →
        ∀ ψ0 : State R, (∀ b : Bits, (∃ w, w < n ∧ b w = true) → ψ0 b = 0) → ∀ b : Bits,
          semSG iu dn out.gates ψ0 b
            = amp ((d.lookup (keyOf (fun i => n - 1 - i) n b)).getD zeroAmp)
              * ψ0 (clearWires (List.range n) b)) := by
  obtain ⟨out, hout, h1, h2, h3⟩ := pivot_succeeds n d hnd hlen hm2
  exact ⟨out, hout, h1, h2, h3, fun hdn ψ0 hψ0 b =>
    pivot_total iu dn amp hamp0 n d hnd hlen hm2 out hout hdn ψ0 hψ0 b⟩

/-- Non-vacuity of `C06_pivot_total`: `{001: 0.6, 110: 0.8i, 111: 0}` over `ℝ → ℂ`; the ideal dense
initializer satisfies `DenseOn`, and the support hypothesis is met by a non-zero state. -/
example : ∃ (d : Dict ℝ) (dn : List Nat → List (Amp ℝ) → State ℂ → State ℂ) (ψ0 : State ℂ),
    d.keys.Nodup ∧ (∀ k ∈ d.keys, k.length = 3) ∧ 2 ≤ d.length ∧ Amp.toC zeroAmp = 0 ∧
    (∀ ws v, DenseOn Amp.toC dn ws v) ∧
    (∀ b : Bits, (∃ w, w < 3 ∧ b w = true) → ψ0 b = 0) ∧ ψ0 (fun _ => false) = 1 := by
  refine ⟨[([false, false, true], ⟨0.6, 0, true⟩), ([true, true, false], ⟨0, 0.8, true⟩),
      ([true, true, true], ⟨0, 0, true⟩)],
    fun ws v ψ b => Amp.toC (v.getD (wiresIdx ws b) zeroAmp) * ψ (clearWires ws b),
    fun b => if b 0 || b 1 || b 2 then 0 else 1, by decide, by decide, by decide, rfl,
    fun _ _ _ _ _ => rfl, ?_, by simp⟩
  rintro b ⟨w, hw, hb⟩
  have : w = 0 ∨ w = 1 ∨ w = 2 := by omega
  rcases this with rfl | rfl | rfl <;> simp [hb]

/-- **C06 (PivotInitialize, the whole circuit, `aux = True`).**  For every `n` and every dictionary of
`m ≥ 3` distinct `n`-character keys (the v-chain needs two controls, `t = ⌈log₂ m⌉ ≥ 2`): the
constructor model succeeds, and — given `DenseOn` for the dense hand-off on the data wires
`t−1 … 2t−2` — the whole circuit, in which every multi-controlled X is the `rccx` compute / `cx` /
uncompute ladder of `_mcxvchain` on the `t − 1` auxiliaries (wires `0 … t−2`; `rccx` with its true
relative phases, `iu² = −1`), maps every `ψ₀` supported on "all `n + t − 1` circuit wires are `0`"
to `amp(d[key read off the data wires of b]) · ψ₀(b with the data wires cleared)`; in particular
the result is `0` on every label with an auxiliary wire set: the auxiliaries are returned clean. -/
theorem C06_pivot_total_aux {Θ R : Type} [CommRing R] [RotSem Θ R] [NumOps Θ] (iu : R)
    (hi : iu * iu = -1) (dn : List Nat → List (Amp Θ) → State R → State R) (amp : Amp Θ → R)
    (hamp0 : amp zeroAmp = 0) (n : Nat) (d : Dict Θ) (hnd : d.keys.Nodup)
    (hlen : ∀ k ∈ d.keys, k.length = n) (hm3 : 3 ≤ d.length) :
    ∃ out : PivotOut Θ, pivotInit n true d = some out ∧ out.t = ceilLog2 d.length ∧
      2 ≤ out.t ∧ out.t ≤ n ∧ out.dense.length = 2 ^ out.t ∧
      (DenseOn amp dn ((List.range out.t).map (· + (out.t - 1))) out.dense →
        ∀ ψ0 : State R, (∀ b : Bits, (∃ w, w < n + (out.t - 1) ∧ b w = true) → ψ0 b = 0) →
          ∀ b : Bits, semSG iu dn out.gates ψ0 b
            = amp ((d.lookup (keyOf (fun i => n + (out.t - 1) - 1 - i) n b)).getD zeroAmp)
              * ψ0 (clearWires ((List.range n).map (· + (out.t - 1))) b)) := by
  obtain ⟨out, hout, h1, h2, h3, h4⟩ := pivot_succeeds_aux n d hnd hlen hm3
  exact ⟨out, hout, h1, h2, h3, h4, fun hdn ψ0 hψ0 b =>
    pivot_total_aux iu hi dn amp hamp0 n d hnd hlen hm3 out hout hdn ψ0 hψ0 b⟩

/-- Non-vacuity of `C06_pivot_total_aux`: four distinct 4-character keys (`t = 2`, one auxiliary). -/
example : ∃ d : Dict ℝ, d.keys.Nodup ∧ (∀ k ∈ d.keys, k.length = 4) ∧ 3 ≤ d.length
    ∧ Complex.I * Complex.I = -1 ∧ Amp.toC zeroAmp = 0 :=
  ⟨[([false, false, true, true], ⟨0.6, 0, true⟩), ([true, true, false, false], ⟨0, 0.8, true⟩),
    ([true, true, true, true], ⟨0, 0, true⟩), ([false, true, true, false], ⟨0, 0, true⟩)],
   by decide, by decide, by decide, Complex.I_mul_I, rfl⟩

end Qclib
