import QclibModel.Proofs.SchmidtIndex
import QclibModel.Proofs.SchmidtRank
import QclibModel.Proofs.SchmidtAlg
import QclibModel.Proofs.SchmidtRankSrc
/-
  C09 — Schmidt decomposition and composition are mutually inverse for any bipartition.
  Property theorems only; proofs live in Proofs/SchmidtIndex.lean (bit arithmetic),
  Proofs/SchmidtRank.lean (rank rule), Proofs/SchmidtAlg.lean (finite sums).

  What is a theorem and what is a hypothesis.  The reshape (`_separation_matrix`,
  `_undo_separation_matrix`), the rank rule (`low_rank_approximation`) and the composition
  (`schmidt_composition`) are modelled in `Model/Schmidt.lean` and everything below is proved about
  those definitions for every size.  `np.linalg.svd` is NOT modelled: its specification
  (`M = U·diag(s)·Vh`, orthonormal factors, sorted non-negative `s`) enters as hypotheses
  (`hsvd`, `hU`) and is validated numerically by the harness.  numpy's `reshape`/`moveaxis`
  semantics are the specification written at the top of `Model/Schmidt.lean`; the harness diffs the
  model's index tables against the real functions exactly.
-/
namespace Qclib
open Qclib.Schmidt

/-- **C09 (round trip, index form).**  For every `n` and every partition the real code accepts
(`sepAxes n P = some src`; by `C09_axes_sorted` this includes every duplicate-free list of qubits
`< n` in any order), the two index maps are mutually inverse bijections between `[0, 2^n)` and
`[0, 2^(n-k)) × [0, 2^k)`, `k = |P|`. -/
theorem C09_roundtrip (n : Nat) (P : List Int) (src : List Nat) (h : sepAxes n P = some src) :
    (∀ i, i < 2 ^ n →
        (sepIndexAx n src i).1 < 2 ^ (n - src.length) ∧ (sepIndexAx n src i).2 < 2 ^ src.length ∧
        undoIndexAx n src (sepIndexAx n src i).1 (sepIndexAx n src i).2 = i) ∧
    (∀ r c, r < 2 ^ (n - src.length) → c < 2 ^ src.length →
        undoIndexAx n src r c < 2 ^ n ∧ sepIndexAx n src (undoIndexAx n src r c) = (r, c)) := by
  have hv := sepAxes_valid h
  exact ⟨fun i hi => ⟨(sepIndexAx_lt hv i).1, (sepIndexAx_lt hv i).2, undo_sep_index hv i hi⟩,
    fun r c hr hc => ⟨undoIndexAx_lt n src r c, sep_undo_index hv r c hr hc⟩⟩

example : sepAxes 3 [2, 0] = some [0, 2] := by decide
example : sepIndexAx 3 [0, 2] 5 = (0, 3) := by decide
example : sepAxes 4 [-1, 0] = some [3, 0] := by decide   -- numpy's reading of a negative axis

/-- **C09 (round trip, vectors).**  `undo(sep v) = v` entry by entry, for every `n`, every accepted
partition and entries of any type. -/
theorem C09_roundtrip_vec {α : Type} (n : Nat) (P : List Int) (src : List Nat)
    (h : sepAxes n P = some src) (v : Nat → α) (i : Nat) (hi : i < 2 ^ n) :
    undoVec n src (sepMat n src v) i = v i := by
  simp only [undoVec, sepMat, undo_sep_index (sepAxes_valid h) i hi]

/-- **C09 (round trip, matrices).**  `sep(undo M) = M` entry by entry. -/
theorem C09_roundtrip_mat {α : Type} (n : Nat) (P : List Int) (src : List Nat)
    (h : sepAxes n P = some src) (M : Nat → Nat → α) (r c : Nat)
    (hr : r < 2 ^ (n - src.length)) (hc : c < 2 ^ src.length) :
    sepMat n src (undoVec n src M) r c = M r c := by
  simp only [undoVec, sepMat, sep_undo_index (sepAxes_valid h) r c hr hc]

example : undoVec 2 [0] (sepMat 2 [0] (fun i => i + 10)) 2 = 12 := by decide

/-- **C09 (which bit goes where).**  Axis `a` of the `(2,)*n` tensor is bit `n-1-a` of the flat
index.  The column index collects the moved axes `src` (most significant first, in the order of
`src`), the row index the remaining axes in increasing order. -/
theorem C09_bits (n : Nat) (P : List Int) (src : List Nat) (h : sepAxes n P = some src) (i : Nat) :
    (∀ m (hm : m < src.length),
        (sepIndexAx n src i).2.testBit (src.length - 1 - m) = i.testBit (n - 1 - src[m])) ∧
    (∀ m (hm : m < (restAxes n src).length),
        (sepIndexAx n src i).1.testBit (n - src.length - 1 - m)
          = i.testBit (n - 1 - (restAxes n src)[m])) ∧
    (restAxes n src).length = n - src.length ∧
    (∀ a, a ∈ restAxes n src ↔ a < n ∧ a ∉ src) ∧
    List.Pairwise (· < ·) (restAxes n src) := by
  have hv := sepAxes_valid h
  refine ⟨fun m hm => col_bit hv i m hm, fun m hm => row_bit hv i m hm, length_restAxes hv,
    fun a => mem_restAxes, ?_⟩
  exact List.Pairwise.filter _ List.pairwise_lt_range

/-- **C09 (`sorted(partition)`).**  For a duplicate-free list of qubits `< n` in *any* order the
code moves the sorted list: the accepted axes are the increasing rearrangement of `P`. -/
theorem C09_axes_sorted (n : Nat) (P : List Nat) (hd : P.Nodup) (hlt : ∀ a ∈ P, a < n) :
    ∃ src, sepAxes n (P.map Int.ofNat) = some src ∧ src.Perm P ∧ List.Pairwise (· < ·) src := by
  refine ⟨_, sepAxes_nat n P hd hlt, perm_isort _ _, ?_⟩
  have hs := pairwise_isort (fun a b : Nat => decide (a ≤ b))
    (fun a b c h1 h2 => by simp at *; omega) (fun a b => by simp; omega) P
  have hn : (isort (fun a b : Nat => decide (a ≤ b)) P).Nodup :=
    (perm_isort _ P).nodup_iff.mpr hd
  exact (hs.and hn).imp (fun ⟨h1, h2⟩ => by simp at h1; omega)

example : sepAxes 4 ([3, 0, 2].map Int.ofNat) = some [0, 2, 3] := by decide

/-- **C09 (source tie, rank rule).**  `Gen.SchmidtRank.effective_rank` and `low_rank_rank` are
re-translated on every run from the current source of `qclib/entanglement.py`: the whole of
`_effective_rank` (`sum(j > 10**-7 for j in singular_values)`; the float constant is folded by Python
and emitted as the exact rational value `pyThreshold` of the binary64 it denotes, the singular values
are a list of rationals — every double is one) and the statements of `low_rank_approximation` that
compute `rank` (cap by the requested rank, `int(2 ** ceil(log2(·)))`).  For every list of values and
every requested rank: the generated count equals the hand model `effRank` at that threshold, and,
whenever the count is not `0` (Python: no `ValueError` from `log2(0)`), the generated rank is the hand
model `rankRule` of `C09_pow2`.  An edit of the threshold, of the comparison, of the cap condition or
of the rounding in the source breaks this proof. -/
theorem C09_rank_src (lowRank : Int) (s : List Rat) :
    Gen.SchmidtRank.effective_rank s = ((effRank pyThreshold s : Nat) : Int)
    ∧ (effRank pyThreshold s ≠ 0 →
        (rankRule lowRank (effRank pyThreshold s)).map (fun (r : Nat) => (r : Int))
          = some (Gen.SchmidtRank.low_rank_rank lowRank s)) :=
  ⟨effRank_src s, rankRule_src lowRank s⟩

/-- Non-vacuity: a list with three values above `10**-7` (hypothesis of the second part), and the
threshold really separates `1e-7`-sized values. -/
example : effRank pyThreshold [3, 2, 1, 0, mkRat 1 100000000] = 3
    ∧ Gen.SchmidtRank.low_rank_rank 0 [3, 2, 1, 0] = 4 ∧ Gen.SchmidtRank.low_rank_rank 1 [3, 2, 1, 0] = 1 := by decide

/-- **C09 (power-of-two count).**  Whenever `low_rank_approximation` returns (`eff ≥ 1`), the rank
is a power of two, it is the least power of two `≥ m` where `m = min(low_rank, eff)` for
`0 < low_rank`, `m = eff` for `low_rank ≤ 0`, and it never exceeds a power-of-two bound on `eff`
(`eff ≤ min(rows, cols) = 2^b`).  It fails (`none`, Python: `ValueError` from `log2(0)`) exactly
when no singular value exceeds the threshold.  Modelled: integer logic exactly; the float idiom
`int(2 ** ceil(log2(x)))` as the exact least power of two (see `ceilLog2`). -/
theorem C09_pow2 (lowRank : Int) (eff : Nat) :
    (rankRule lowRank eff = none ↔ eff = 0) ∧
    ∀ r, rankRule lowRank eff = some r →
      let m := cappedRank lowRank eff
      (m = if 0 < lowRank then min lowRank.toNat eff else eff) ∧ 0 < m ∧
      (∃ k, r = 2 ^ k) ∧ m ≤ r ∧ (∀ k, m ≤ 2 ^ k → r ≤ 2 ^ k) ∧
      (∀ b, eff ≤ 2 ^ b → r ≤ 2 ^ b) := by
  refine ⟨rankRule_none lowRank eff, fun r h => ?_⟩
  obtain ⟨hpos, hr⟩ := rankRule_some h
  subst hr
  refine ⟨?_, hpos, ⟨_, rfl⟩, le_clp2 _, fun k hk => clp2_le_of_le_pow hk,
    fun b hb => clp2_le_of_le_pow (Nat.le_trans (cappedRank_le _ _) hb)⟩
  unfold cappedRank
  split
  · rename_i h1; rw [if_pos h1.1]; omega
  · rename_i h1
    split
    · omega
    · rfl

example : rankRule 3 9 = some 4 := by decide
example : rankRule 0 5 = some 8 := by decide
example : rankRule 7 0 = none := by decide

section Algebra
variable {K : Type} [CommRing K] [StarRing K]

/-- **C09 (sliced factors stay orthonormal).**  If the `k` columns of `U` are orthonormal, so are
the first `r ≤ k` (the slice `svd_u[:, :rank]` is the same function on fewer indices). -/
theorem C09_sliced_orthonormal (rows k r : Nat) (hle : r ≤ k) (U : Nat → Nat → K)
    (hU : ∀ i j, i < k → j < k → gramCols rows U i j = if i = j then 1 else 0) :
    ∀ i j, i < r → j < r → gramCols rows U i j = if i = j then 1 else 0 :=
  fun i j hi hj => hU i j (by omega) (by omega)

example : ∀ i j, i < 1 → j < 1 →
    gramCols (K := K) 2 (fun r i => if r = i then 1 else 0) i j = if i = j then 1 else 0 :=
  C09_sliced_orthonormal 2 2 1 (by omega) _ (by
    intro i j hi hj
    rcases (by omega : i = 0 ∨ i = 1) with rfl | rfl <;>
      rcases (by omega : j = 0 ∨ j = 1) with rfl | rfl <;> simp [gramCols, sumTo])

/-- **C09 (composition).**  Over any commutative ring: if the bipartition matrix of `v` is
`Σ_{i<k} U[·,i]·s_i·V[i,·]` (SVD specification, hypothesis) and the coefficients dropped by the rank
rule vanish (`rank ≥` number of non-zero coefficients), then `schmidt_composition` of the sliced
factors, i.e. `undo((U[:, :rank]·s) @ V[:rank, :])`, is `v` — for every `n` and every accepted
partition. -/
theorem C09_compose {R : Type} [CommRing R] (n : Nat) (P : List Int) (src : List Nat)
    (h : sepAxes n P = some src) (v : Nat → R) (k rank : Nat) (U : Nat → Nat → R) (s : Nat → R)
    (V : Nat → Nat → R)
    (hsvd : ∀ r c, r < 2 ^ (n - src.length) → c < 2 ^ src.length →
      sepMat n src v r c = sumTo k (fun i => U r i * s i * V i c))
    (hle : rank ≤ k) (hzero : ∀ i, rank ≤ i → i < k → s i = 0) (i : Nat) (hi : i < 2 ^ n) :
    schmidtCompose n src rank U s V i = v i :=
  compose_correct (sepAxes_valid h) v k rank U s V hsvd hle hzero i hi

/-- Non-vacuity: the all-ones vector on two qubits, partition `[0]`, two terms of which the second
has coefficient 0 and is dropped (`rank = 1 < k = 2`). -/
example (i : Nat) (hi : i < 2 ^ 2) :
    schmidtCompose 2 [0] 1 (fun _ _ => (1 : Int)) (fun i => if i = 0 then 1 else 0) (fun _ _ => 1) i
      = (fun _ => (1 : Int)) i :=
  C09_compose 2 [0] [0] (by decide) (fun _ => 1) 2 1 _ _ _
    (by intro r c _ _; simp [sepMat, sumTo]) (by decide)
    (by intro i h1 h2; have : i = 1 := by omega
        subst this; rfl) i hi

end Algebra

end Qclib
