import QclibModel.Proofs.Placement
import QclibModel.Proofs.Inverse
import QclibModel.Proofs.Widths
import QclibModel.Proofs.RotReal
import QclibModel.Proofs.PyLemmas
import QclibModel.Gen.Widths
/-
  C15 — gates compose: arbitrary placement, inverse, declared width.
  Property theorems only; proofs live in Proofs/Placement.lean, Proofs/Inverse.lean,
  Proofs/Widths.lean.  "Inputs untouched" and determinism cannot be stated in a value-semantics
  model; they are checked differentially by tools/props/c15.py.

  Vocabulary (Spec/Placement.lean): `c.rename σ` renames every wire of the gate list `c` by `σ`;
  `pullBits σ b = b ∘ σ` is the local label a placed circuit sees; `mergeBits σ τ b' b` is the
  global label that carries `b'` on the wires `σ 0, σ 1, …` and `b` elsewhere; `place c ws` is
  `QuantumCircuit.append(c, ws)`; `Circ.inv c = c.reverse.map G.inv` is `QuantumCircuit.inverse()`.
  The gate alphabet `G` has no reset, so every `Circ Θ` is reset-free.
-/
namespace Qclib
open RotSem Widths

/-- **C15 (placement = naturality of the semantics in wire renaming).**  For every gate list `c`
over the whole alphabet `G`, every wire map `σ` with a left inverse `τ`, every state `ψ` (spectator
wires in ANY state, entangled with the circuit's wires or not) and every label `b`: the amplitude the
renamed circuit produces at `b` is the amplitude the original circuit produces, at the local label
`b ∘ σ`, from the slice of `ψ` in which the wires outside the image of `σ` are frozen to their values
in `b`.  In words: the placed circuit acts as `c` on exactly the wires `σ 0, σ 1, …` (in that
order) and as the identity on every other wire. -/
theorem C15_placement {Θ R : Type} [CommRing R] [RotSem Θ R] (σ τ : Nat → Nat)
    (hτ : ∀ i, τ (σ i) = i) (c : Circ Θ) (ψ : State R) (b : Bits) :
    sem (c.rename σ) ψ b = sem c (fun b' => ψ (mergeBits σ τ b' b)) (pullBits σ b) :=
  congrFun (sem_rename hτ c ψ) b

/-- Non-vacuity: `σ i = 2i + 1` (odd wires, non-contiguous) with left inverse `w ↦ w / 2`; a CX
placed on wires 1 and 3 of a host reads wire 1 and flips wire 3. -/
example : (∀ i, (fun w => w / 2) ((fun i => 2 * i + 1) i) = i)
    ∧ Circ.rename (fun i => 2 * i + 1) ([G.cx 0 1] : Circ Unit) = [G.cx 1 3] :=
  ⟨fun i => by show (2 * i + 1) / 2 = i; omega, rfl⟩

/-- **C15 (placement, any injective renaming).**  Every injective `σ` has a left inverse, so the
statement of `C15_placement` holds for every injective wire map. -/
theorem C15_placement_inj {Θ R : Type} [CommRing R] [RotSem Θ R] (σ : Nat → Nat)
    (hσ : Function.Injective σ) :
    ∃ τ : Nat → Nat, (∀ i, τ (σ i) = i) ∧ ∀ (c : Circ Θ) (ψ : State R) (b : Bits),
      sem (c.rename σ) ψ b = sem c (fun b' => ψ (mergeBits σ τ b' b)) (pullBits σ b) :=
  ⟨Function.invFun σ, Function.leftInverse_invFun hσ,
    fun c ψ b => C15_placement σ _ (Function.leftInverse_invFun hσ) c ψ b⟩

example : Function.Injective (fun i : Nat => 3 * i + 2) := fun a b h => by
  have : 3 * a + 2 = 3 * b + 2 := h
  omega

/-- **C15 (spectators untouched).**  If the input factorises as (any state `φ` of the circuit's
wires) × (any factor `χ` that does not depend on the circuit's wires), the output factorises the same
way with the SAME spectator factor: a placed circuit neither reads nor writes a wire outside the
image of `σ`. -/
theorem C15_spectator {Θ R : Type} [CommRing R] [RotSem Θ R] (σ τ : Nat → Nat)
    (hτ : ∀ i, τ (σ i) = i) (c : Circ Θ) (φ χ : State R)
    (hχ : ∀ b' b, χ (mergeBits σ τ b' b) = χ b) (b : Bits) :
    sem (c.rename σ) (fun b => φ (pullBits σ b) * χ b) b = sem c φ (pullBits σ b) * χ b := by
  rw [C15_placement σ τ hτ]
  simp only [pull_merge hτ, hχ]
  exact congrFun (sem_smul c φ (χ b)) (pullBits σ b)

/-- Non-vacuity of the spectator hypothesis: with the circuit on the odd wires, a factor that reads
only wire 0 does not depend on the circuit's wires. -/
example : ∀ b' b : Bits, (fun x : Bits => if x 0 then (2 : Int) else 3)
    (mergeBits (fun i => 2 * i + 1) (fun w => w / 2) b' b) = (fun x : Bits => if x 0 then (2 : Int) else 3) b := by
  intro b' b
  simp [mergeBits]

/-- **C15 (`place` is such a renaming).**  For a duplicate-free wire list `ws` and a gate list
whose wires are all below `ws.length`, `place c ws` (`append(c, ws)`) is the renaming by the
injective map `placeMap ws`, which sends local wire `i` to `ws[i]`; hence it acts as `c` on exactly
the listed wires in the listed order and as the identity on all others, spectators in any state. -/
theorem C15_place {Θ R : Type} [CommRing R] [RotSem Θ R] (c : Circ Θ) (ws : List Nat)
    (hnd : ws.Nodup) (hc : ∀ g ∈ c, ∀ w ∈ g.wires, w < ws.length) :
    place c ws = c.rename (placeMap ws)
    ∧ Function.Injective (placeMap ws)
    ∧ (∀ i (h : i < ws.length), placeMap ws i = ws[i])
    ∧ ∃ τ : Nat → Nat, (∀ i, τ (placeMap ws i) = i) ∧ ∀ (ψ : State R) (b : Bits),
        sem (place c ws) ψ b
          = sem c (fun b' => ψ (mergeBits (placeMap ws) τ b' b)) (pullBits (placeMap ws) b) := by
  have hinj := placeMap_injective ws hnd
  have heq := place_eq_rename c ws hc
  refine ⟨heq, hinj, ?_, Function.invFun (placeMap ws), Function.leftInverse_invFun hinj, ?_⟩
  · intro i h
    simp only [placeMap, if_pos h, ← List.getElem_eq_getD (h := h) 0]
  · intro ψ b
    rw [heq]
    exact C15_placement _ _ (Function.leftInverse_invFun hinj) c ψ b

/-- Non-vacuity: a permuted, non-contiguous placement. -/
example : [4, 0, 7].Nodup ∧ (∀ g ∈ ([G.ccx 0 1 2, G.h 1] : Circ Unit), ∀ w ∈ g.wires, w < [4, 0, 7].length)
    ∧ place ([G.ccx 0 1 2, G.h 1] : Circ Unit) [4, 0, 7] = [G.ccx 4 0 7, G.h 0] := by
  exact ⟨by decide, by decide, rfl⟩

/-- **C15 (inverse).**  Over any rotation semantics satisfying `RotLaws` (in particular
`cos(θ/2), sin(θ/2), e^{iθ/2}` over `ℂ`), for every gate list `c` in which no gate has its target
among its own controls (qiskit rejects such gates), and every state `ψ`: `QuantumCircuit.inverse()` —
the reversed list with every gate inverted as qiskit does (`x h cx cz ccx mcx swap cswap`
self-inverse; `ry rz p cp gphase` with negated angle; `u(θ,φ,λ) ↦ u(−θ,−λ,−φ)`, `cu` likewise with
`−γ`) — composed with `c` in either order is the identity. -/
theorem C15_inverse {Θ R : Type} [AddCommGroup Θ] [CommRing R] [RotSem Θ R] [RotLaws Θ R]
    (c : Circ Θ) (hwf : ∀ g ∈ c, g.wf = true) (ψ : State R) :
    sem (c.reverse.map G.inv) (sem c ψ) = ψ ∧ sem c (sem (c.reverse.map G.inv) ψ) = ψ :=
  ⟨sem_inv_left c hwf ψ, sem_inv_right c hwf ψ⟩

/-- Non-vacuity: the concrete instance `Θ = ℝ`, `R = ℂ` and a circuit using every kind of gate. -/
example (ψ : State ℂ) :
    let c : Circ ℝ := [G.h 0, G.u 1 2 3 1, G.cu 1 2 3 4 0 1, G.mcx [0, 1] 2, G.cswap 2 0 1,
      G.rz 5 2, G.ry 6 0, G.cp 7 1 2, G.gphase 8]
    sem (c.reverse.map G.inv) (sem c ψ) = ψ :=
  (C15_inverse _ (by decide) ψ).1

/-- The well-formedness hypothesis is needed: a "CX" whose control and target coincide is not
injective on states (it sends the non-zero state "wire 0 is set" to the zero state), so it has no
inverse. -/
example : denote (G.cx 0 0 : G ℝ) (fun b => if b 0 then (1 : ℂ) else 0)
    = denote (G.cx 0 0 : G ℝ) (fun _ => (0 : ℂ)) := by
  funext b
  simp only [denote, applyMcu, ctrlOk, List.all_cons, List.all_nil, Mat2.X, setBit_eq]
  by_cases h : b 0 = true <;> simp [h]

/-- The translation of `int(np.ceil(np.log2(m)))` is the width table's `clog2` (for `m ≥ 1`). -/
theorem pyLog2Ceil_widths (m : Nat) (hm : 1 ≤ m) :
    Py.pyLog2Ceil (m : Int) = ((Widths.clog2 m : Nat) : Int) := by
  apply Py.pyLog2Ceil_eq_of_least m _ hm
  · have := Nat.lt_log2_self (n := 2 * m - 1)
    unfold Widths.clog2
    rw [Nat.pow_succ] at this
    omega
  · intro b hb; exact Widths.clog2_le hb

/-- **C15 (source tie, declared widths).**  For six classes whose constructor computes its width
itself, the expression handed to `super().__init__` (second argument), together with every
statement of `__init__` that feeds it, is re-translated on every run from the current source
(`Gen/Widths.lean`; `self.num_qubits` after `_get_num_qubits`, `len(params)`, `opt_params is None`
and `opt_params.get(...)` are the parameters).  For every key length `n ≥ 1`, number of entries
`m ≥ 1`, control count `k`, target count `t` and every way of passing (or not passing) the option, the
generated definitions equal the rows of `declaredWidth` that `C15_width` speaks about:
CvoqramInitialize (`with_aux` defaulting to `True`), FnPointsInitialize, PivotInitialize (`aux`
defaulting to `False`), McxVchainDirty, LinearMcx, MultiTargetMCSU2.  An edit of a constant, a
comparison, a default or the rounding in one of these constructors breaks this proof. -/
theorem C15_width_src (n m k t : Nat) (hn : 1 ≤ n) (hm : 1 ≤ m) (optNone : Bool) (o : Option Bool) :
    Gen.Widths.cvoqram_width (n : Int) optNone o
        = ((Widths.declaredWidth .cvoqram { n := n, aux := (if optNone then none else o).getD true } : Nat) : Int)
    ∧ Gen.Widths.fnpoints_width (n : Int) = ((Widths.declaredWidth .fnPoints { n := n } : Nat) : Int)
    ∧ Gen.Widths.pivot_width (n : Int) (m : Int) optNone o
        = ((Widths.declaredWidth .pivot { n := n, m := m, aux := (if optNone then none else o).getD false } : Nat) : Int)
    ∧ Gen.Widths.mcx_vchain_dirty_width (k : Int) (t : Int)
        = ((Widths.declaredWidth .mcxVchainDirty { k := k, t := t } : Nat) : Int)
    ∧ Gen.Widths.linear_mcx_width (k : Int) = ((Widths.declaredWidth .linearMcx { k := k } : Nat) : Int)
    ∧ Gen.Widths.multi_target_mcsu2_width (k : Int) (t : Int)
        = ((Widths.declaredWidth .multiTargetMCSU2 { k := k, t := t } : Nat) : Int) := by
  refine ⟨?_, ?_, ?_, ?_, ?_, ?_⟩
  · unfold Gen.Widths.cvoqram_width Widths.declaredWidth
    cases optNone <;> cases o <;> simp
    all_goals (try split)
    all_goals omega
  · unfold Gen.Widths.fnpoints_width Widths.declaredWidth; simp
  · unfold Gen.Widths.pivot_width Widths.declaredWidth
    simp only [pyLog2Ceil_widths m hm]
    cases optNone <;> cases o <;> simp
    all_goals (try split)
    all_goals omega
  · unfold Gen.Widths.mcx_vchain_dirty_width Widths.declaredWidth Widths.vchainAncillas
    simp only []
    split <;> split <;> omega
  · unfold Gen.Widths.linear_mcx_width Widths.declaredWidth; simp
  · unfold Gen.Widths.multi_target_mcsu2_width Widths.declaredWidth; simp

/-- Non-vacuity: n = 3, m = 5, k = 4, t = 2. -/
example : Gen.Widths.cvoqram_width 3 true none = 6 ∧ Gen.Widths.cvoqram_width 3 false (some false) = 4
    ∧ Gen.Widths.fnpoints_width 3 = 7 ∧ Gen.Widths.pivot_width 3 5 false (some true) = 5
    ∧ Gen.Widths.pivot_width 3 5 true none = 3 ∧ Gen.Widths.mcx_vchain_dirty_width 4 2 = 8
    ∧ Gen.Widths.linear_mcx_width 4 = 6 ∧ Gen.Widths.multi_target_mcsu2_width 4 2 = 6 := by decide

/-- **C15 (declared width = circuit width).**  For every initializer / gate class of the library and
every parameter in the class's domain (`InDomain`: `2^n` amplitudes with `n ≥ 1`; Bdsp split
`1 ≤ s ≤ n`; at least one ensemble vector; `PivotInitialize(aux=True)` with `2 ≤ m ≤ 2^n` strings;
Cvoqram / FnPoints with `n ≥ 1`; no condition for the gate classes), the width the constructor
passes to `super().__init__` equals the sum of the sizes of the registers `_define` allocates —
TopDown, LowRank, SVD, UCG, UCGE, Isometry, BAA: `n`; Bdsp: `(s+1)·2^(n−s) − 1`; Dcsp: `2^n − 1`;
Mixed: `n + ⌈log₂ k⌉`; BlackBox: `n + 1`; Merge: `n`; Pivot: `n` (+ `⌈log₂ m⌉ − 1` with aux);
Cvoqram: `n + 1` (+ `n − 1` with aux); FnPoints: `2n + 1`; pqm: `n + 1` (+ `n` for a quantum
pattern); McxVchainDirty: `k + max(k−2, 0) + t`; LinearMcx: `k + 2`; Toffoli: `3`;
Ldmcu / Ldmcsu / LdMcSpecialUnitary / Qdmcu / Mcg / MCU: `k + 1`; MultiTargetMCSU2: `k + t`. -/
theorem C15_width (c : Cls) (p : Params) (h : InDomain c p) :
    circuitWidth c p = some (declaredWidth c p) :=
  width_table c p h

/-- Non-vacuity and closed forms on concrete rows. -/
example : InDomain .pivot { n := 3, m := 5, aux := true } ∧ declaredWidth .pivot { n := 3, m := 5, aux := true } = 5
    ∧ InDomain .bdsp { len := 16, s := 2 } ∧ declaredWidth .bdsp { len := 16, s := 2 } = 11
    ∧ declaredWidth .cvoqram { n := 2, aux := true } = 4 ∧ declaredWidth .fnPoints { n := 2 } = 5
    ∧ declaredWidth .mcxVchainDirty { k := 4, t := 2 } = 8 ∧ declaredWidth .multiTargetMCSU2 { k := 3, t := 2 } = 5
    ∧ declaredWidth .mixed { len := 4, m := 3 } = 4 :=
  ⟨fun _ => ⟨by decide, by decide⟩, by decide, ⟨4, rfl, by decide, by decide⟩, by decide, by decide, by decide,
   by decide, by decide, by decide⟩

/-- The domain conditions are needed: with a single string `PivotInitialize(aux=True)` asks for a
register of size `-1` (the real constructor raises). -/
example : circuitWidth .pivot { n := 3, m := 1, aux := true } = none := by decide

end Qclib
