import QclibModel.Proofs.WidthLinkMcx
import QclibModel.Proofs.WidthLinkSmall
import QclibModel.Proofs.WidthLinkTree2
import QclibModel.Proofs.WidthLinkSparse2
import QclibModel.Proofs.WidthLinkMcu2
import QclibModel.Proofs.WidthLinkMcsu
/-
  C15 — link between the two hand models that are tied to the code separately:

  * the width table `Model/Widths.lean` (`declaredWidth`, what `C15_width` speaks about), and
  * the executable gate-list models of the very same circuits used by C05, C13, C17, C18, C19, …

  For each generator: (a) every gate of the gate list touches only wires `< declaredWidth` (so the
  hypothesis `hc` of `C15_place` holds for a wire list of the declared length), and (b) the top wire
  `declaredWidth − 1` is touched by some gate — or exactly when it is not.  The wires of a gate are
  given by ONE executable function per gate alphabet: `G.wires` (Spec/Placement.lean) for the shared
  alphabet `G Θ`, `WL.bgWires` for the black-box alphabet `BG Θ`, `WL.sgWires` for the sparse
  alphabet `Sparse.SG α`, `WL.lgWires` for `Mcu2.LG Θ`, `WL.msgWires` for `Mcsu.SG K`.
  Property theorems only; proofs are in `Proofs/WidthLink*.lean`.
-/
namespace Qclib
open Widths WL

/-- **C15 link (McxVchainDirty, all `k ≥ 1` controls, all `t ≥ 1` targets, every accepted
`ctrl_state`, `relative_phase`, `action_only`).**  Whenever the C05 model `vchain` produces the gate
list (registers: controls `0…k−1`, the `k−2` dirty ancillas `k…2k−3`, targets `2k−2…2k−3+t`):
(a) every wire of every gate is below the declared width `k + max(k−2,0) + t` of the C15 table;
(b) the top wire (the LAST target) is touched by some gate unless `relative_phase=True` with
`k ≥ 3` controls, several targets and no `action_only`;
(c) in that excluded case every gate stays below `2k − 1`, i.e. only the FIRST target is touched and
targets `1…t−1` are idle (the relative-phase variant replaces the multi-target Toffoli by a
single-target one; C05 claims it for one target only). -/
theorem C15_link_mcxVchainDirty {Θ : Type} (o : McxAngles Θ) (k nt : Nat)
    (cs : Option (List Bool)) (rp ao : Bool) (circ : Circ Θ)
    (h : vchain o k nt cs rp ao = some circ) :
    (∀ g ∈ circ, ∀ w ∈ g.wires, w < declaredWidth .mcxVchainDirty { k := k, t := nt })
    ∧ ((rp = false ∨ nt = 1 ∨ k ≤ 2 ∨ ao = true) →
        ∃ g ∈ circ, declaredWidth .mcxVchainDirty { k := k, t := nt } - 1 ∈ g.wires)
    ∧ (rp = true → ao = false → 3 ≤ k → ∀ g ∈ circ, ∀ w ∈ g.wires, w < k + (k - 2) + 1) :=
  ⟨vchain_below o k nt cs rp ao circ h, vchain_uses_top o k nt cs rp ao circ h,
    fun h1 h2 hk => by subst h1; subst h2; exact vchain_relphase_idle o k nt hk cs circ h⟩

/-- Non-vacuity: 4 controls (pattern `0110`), 2 ancillas, 2 targets — the model accepts, the declared
width is 8 and wire 7 is used.  The excluded case on 3 controls, 2 targets: declared 6, every gate
below 5.  And `McxVchainDirty(3)` with one target declares one ancilla (wire 3) that no gate touches
(its definition is a single `C3X`). -/
example : (vchain (⟨(), (), ()⟩ : McxAngles Unit) 4 2 (some [false, true, true, false]) false false).isSome = true
    ∧ declaredWidth .mcxVchainDirty { k := 4, t := 2 } = 8
    ∧ Uses G.wires 7 ((vchain (⟨(), (), ()⟩ : McxAngles Unit) 4 2 none false false).getD [])
    ∧ declaredWidth .mcxVchainDirty { k := 3, t := 2 } = 6
    ∧ Below G.wires 5 ((vchain (⟨(), (), ()⟩ : McxAngles Unit) 3 2 none true false).getD [])
    ∧ ¬ Uses G.wires 3 ((vchain (⟨(), (), ()⟩ : McxAngles Unit) 3 1 none false false).getD []) := by
  decide

/-- **C15 link (LinearMcx, all `k ≥ 1`, every accepted `ctrl_state`, `action_only`).**  Whenever the
C05 model `linearMcx` produces the gate list (controls `0…k−1`, target `k`, ancilla `k+1`):
(a) every wire of every gate is below the declared width `k + 2`; (b) the top wire — the ancilla
`k + 1` — is touched by some gate if and only if `k ≥ 5` (for `k ≤ 4` the definition is a single
`cx`/`ccx`/`C3X`/`C4X` on the controls and the target, and the declared ancilla stays idle). -/
theorem C15_link_linearMcx {Θ : Type} (o : McxAngles Θ) (k : Nat) (cs : Option (List Bool))
    (ao : Bool) (circ : Circ Θ) (h : linearMcx o k cs ao = some circ) :
    (∀ g ∈ circ, ∀ w ∈ g.wires, w < declaredWidth .linearMcx { k := k })
    ∧ ((∃ g ∈ circ, declaredWidth .linearMcx { k := k } - 1 ∈ g.wires) ↔ 5 ≤ k) :=
  ⟨linear_below o k cs ao circ h, linear_uses_anc_iff o k cs ao circ h⟩

example : (linearMcx (⟨(), (), ()⟩ : McxAngles Unit) 7 (some [true, false, true]) true).isSome = true
    ∧ declaredWidth .linearMcx { k := 7 } = 9
    ∧ Uses G.wires 8 ((linearMcx (⟨(), (), ()⟩ : McxAngles Unit) 7 none false).getD [])
    ∧ ¬ Uses G.wires 5 ((linearMcx (⟨(), (), ()⟩ : McxAngles Unit) 4 none false).getD []) := by
  decide

/-- **C15 link (Toffoli).**  For every `cancel` option the definition on wires `0, 1, 2` stays below
the declared width 3 and touches the top wire 2 (the target). -/
theorem C15_link_toffoli {Θ : Type} (o : McxAngles Θ) (cancel : Cancel) (p : Params) :
    (∀ g ∈ toffoli o cancel 0 1 2, ∀ w ∈ g.wires, w < declaredWidth .toffoli p)
    ∧ ∃ g ∈ toffoli o cancel 0 1 2, declaredWidth .toffoli p - 1 ∈ g.wires :=
  ⟨toffoli_class_below o cancel p, toffoli_uses_t o cancel 0 1 2⟩

example : (toffoli (⟨(), (), ()⟩ : McxAngles Unit) .left 0 1 2).length = 4 := by decide

/-- **C15 link (`ucr`, C13; no row of its own in the width table — a multiplexer on `2^k` angles is a
`(k+1)`-qubit gate, the width of the `ucg`/dense rows it is used in).**  For every `k`, angle vector,
axis, entangler and `last_control`: (a) every wire is `< k + 1` (target 0, controls `1…k`); (b) with
`k ≥ 1` the top control `k` is touched (the middle entangler is unconditional); with `k = 0` the only
wire is touched iff the angle passes the `abs(angle) > 1e-8` test. -/
theorem C15_link_ucr {Θ : Type} (o : AOps Θ) (ax : Axis) (e : Ent) (k : Nat) (a : Nat → Θ)
    (last : Bool) :
    (∀ g ∈ ucr o ax e k a last, ∀ w ∈ g.wires, w < k + 1)
    ∧ (1 ≤ k → ∃ g ∈ ucr o ax e k a last, k ∈ g.wires)
    ∧ (k = 0 → ((∃ g ∈ ucr o ax e k a last, 0 ∈ g.wires) ↔ o.negl (a 0) = false)) := by
  refine ⟨ucr_below o ax e k a last, fun hk => ?_, fun hk => ?_⟩
  · obtain ⟨k', rfl⟩ : ∃ k', k = k' + 1 := ⟨k - 1, by omega⟩
    exact ucr_uses_top o ax e k' a last
  · subst hk; exact ucr_zero_uses o ax e a last

example : (ucr (⟨fun a b => a + b, fun a b => a - b, fun a => a / 2, fun a => a == 0⟩ : AOps Int)
    .Y .CX 2 (fun j => 4 * j + 4) true).length = 7 := by decide

/-- **C15 link (pqm.initialize, C17; every `n`, classical or quantum pattern, every pattern).**
On the natural layout of the registers handed to the function (classical pattern: memory `0…n−1`,
auxiliary `n`; quantum pattern: pattern `0…n−1`, memory `n…2n−1`, auxiliary `2n`):
(a) every wire of every gate is below the declared width `n + 1` (`2n + 1` with a quantum pattern);
(b) the top wire — the auxiliary — is touched (by the Hadamards).  `pqm_below_gen` states (a) for
arbitrary registers. -/
theorem C15_link_pqm {Θ : Type} (n : Nat) (classical : Bool) (pattern : Nat → Bool) (θm θc : Θ) :
    (∀ g ∈ pqmNatural n classical pattern θm θc, ∀ w ∈ g.wires,
        w < declaredWidth .pqm { n := n, classical := classical })
    ∧ ∃ g ∈ pqmNatural n classical pattern θm θc,
        declaredWidth .pqm { n := n, classical := classical } - 1 ∈ g.wires :=
  ⟨pqmNatural_below n classical pattern θm θc, pqmNatural_uses_top n classical pattern θm θc⟩

example : declaredWidth .pqm { n := 3, classical := false } = 7
    ∧ (pqmNatural 3 false (fun _ => false) () ()).length = 14
    ∧ allWires G.wires (pqmNatural 3 true (fun k => k == 1) () ()) = [3, 1, 0, 1, 2, 3, 0, 3, 1, 3, 2, 1, 3] := by
  decide

/-- **C15 link (FnPointsInitialize, C18; every `n`, every list of points, every `N`).**  Whenever the
model of the constructor + `_define` succeeds (which needs `n ≥ 2`, a non-empty dictionary and
`N' ≠ 0`): (a) every wire of every gate is below the declared width `2n + 1` (`x`: `0…n−1`,
`g`: `n…2n−2`, `c`: `2n−1, 2n`); (b) the top wire `2n` (`reg_c[1]`) is touched. -/
theorem C15_link_fnPoints {Θ : Type} (mk : Int → FnAngles Θ) (n : Nat) (pts : List FnPoint)
    (N : Option Int) (c : Circ Θ) (h : fnPointsCode mk n pts N = .ok c) :
    (∀ g ∈ c, ∀ w ∈ g.wires, w < declaredWidth .fnPoints { n := n })
    ∧ ∃ g ∈ c, declaredWidth .fnPoints { n := n } - 1 ∈ g.wires :=
  ⟨fnPoints_below mk n pts N c h, fnPoints_uses_top mk n pts N c h⟩

example : (fnPointsCode (fun _ => (⟨fun _ => (), fun _ => (), fun _ => (), ()⟩ : FnAngles Unit)) 3
      [⟨fun j => j == 0, 1⟩, ⟨fun j => j == 2, 3⟩] none).toOption.isSome = true
    ∧ (let c := (fnPointsCode (fun _ => (⟨fun _ => (), fun _ => (), fun _ => (), ()⟩ : FnAngles Unit)) 3
        [⟨fun j => j == 0, 1⟩, ⟨fun j => j == 2, 3⟩] none).toOption.getD []
      Below G.wires 7 c ∧ Uses G.wires 6 c ∧ Uses G.wires 4 c ∧ ¬ Below G.wires 6 c) := by
  decide

/-- **C15 link (BlackBoxInitialize, C19; every `n`, every amplitude vector, any numeric
instance).**  With `WL.bgWires` the wires of the black-box alphabet (multiplexed rotations: target 0
and controls `1…k`; `I_s`: wires `0…n`): (a) every wire of every gate of `_define_initialize` for a
vector of `2^n` amplitudes is below the declared width `n + 1`; (b) the top wire `n` is touched. -/
theorem C15_link_blackBox {F : Type} (o : TrigOps F) (n : Nat) (re im : Nat → F) :
    (∀ g ∈ BlackBox.define o n re im, ∀ w ∈ bgWires g,
        w < declaredWidth .blackBox { len := 2 ^ n })
    ∧ ∃ g ∈ BlackBox.define o n re im, declaredWidth .blackBox { len := 2 ^ n } - 1 ∈ bgWires g :=
  ⟨blackBox_below o n re im, blackBox_uses_top o n re im⟩

example : declaredWidth .blackBox { len := 2 ^ 3 } = 4
    ∧ allWires bgWires (BlackBox.circuit 2 1 (fun _ => ()) (fun _ => ()))
      = [1, 2, 0, 1, 2, 0, 1, 2, 0, 0, 1, 2, 0, 1, 2, 2, 1, 0, 1, 2, 1, 2, 0, 1, 2, 0, 1, 2] := by
  decide

/-- **C15 link (DcspInitialize, C11; every `n ≥ 1`, all `2^n` leaf values, any number type and
operations `o`).**  Whenever the C11 model `dcsp` returns: (a) every wire of every gate of
`bottom_up` is below the declared width `2^n − 1`; (b) if every node of the angle tree carries a
non-zero rotation (`angle_y != 0` or `angle_z != 0`, the tests that guard the gates — true for
generic amplitudes), the wires touched are EXACTLY `0 … 2^n − 2`, in particular the top one.  The
hypothesis of (b) cannot be dropped: for the basis state `|0…0⟩` the gate list is empty (example
below). -/
theorem C15_link_dcsp {F : Type} (o : TOps F) (n : Nat) (hn : 1 ≤ n) (leaves : Nat → SV F)
    (out : TreeOut F) (hout : dcsp o (2 ^ n) leaves = some out) :
    (∀ g ∈ out.gates, ∀ w ∈ g.wires, w < declaredWidth .dcsp { len := 2 ^ n })
    ∧ ((∀ v ∈ (angleTree o (stateTree o n leaves)).preorder,
          o.neZero v.y = true ∨ o.neZero v.z = true) →
        ∀ w, (∃ g ∈ out.gates, w ∈ g.wires) ↔ w < declaredWidth .dcsp { len := 2 ^ n }) :=
  ⟨dcsp_below o n hn leaves out hout, fun hnz w => dcsp_uses_iff o n hn leaves out hout hnz w⟩

example : Tree.onGates (dcsp Tree.toyOps 8 Tree.toyLeaves) (·.gates)
      (fun c => Below G.wires 7 c ∧ Uses G.wires 6 c ∧ ¬ Below G.wires 6 c)
    ∧ Tree.onGates (dcsp Tree.toyOps 8 Tree.zeroLeaves) (·.gates) (fun c => c = [])
    ∧ declaredWidth .dcsp { len := 8 } = 7 := by decide

/-- **C15 link (BdspInitialize, C11; every `n ≥ 1`, every split `1 ≤ s ≤ n` — and the default
`⌈n/2⌉` —, all leaf values, any number type).**  Whenever the C11 model `bdsp` returns: (a) every
wire of every gate (the `top_down` multiplexers of the upper levels and the `bottom_up` rotations
and controlled swaps of the lower ones) is below the declared width `(s+1)·2^(n−s) − 1`, also for the
default split; (b) if every `angle_y` of the angle tree is non-zero (the test guarding the controlled
swaps; for `s = n`, where there is no `bottom_up` level, also the root's `ry` must pass `ucr`'s
negligibility test), the top wire is touched.  Without non-zero angles the gate list is empty (basis
state `|0…0⟩`, example under `C15_link_dcsp`). -/
theorem C15_link_bdsp {F : Type} (o : TOps F) (n s : Nat) (hs : 1 ≤ s) (hsn : s ≤ n)
    (leaves : Nat → SV F) (out : TreeOut F) :
    (bdsp o (2 ^ n) leaves (some s) = some out →
      ∀ g ∈ out.gates, ∀ w ∈ g.wires, w < declaredWidth .bdsp { len := 2 ^ n, s := s })
    ∧ (bdsp o (2 ^ n) leaves none = some out →
      ∀ g ∈ out.gates, ∀ w ∈ g.wires, w < declaredWidth .bdsp { len := 2 ^ n, s := (n + 1) / 2 })
    ∧ (bdsp o (2 ^ n) leaves (some s) = some out →
      (∀ v ∈ (angleTree o (stateTree o n leaves)).preorder, o.neZero v.y = true) →
      (s = n → ∀ v l r, angleTree o (stateTree o n leaves) = .node v l r →
        o.aops.negl v.y = false) →
      ∃ g ∈ out.gates, declaredWidth .bdsp { len := 2 ^ n, s := s } - 1 ∈ g.wires) :=
  ⟨bdsp_below o n s hs hsn leaves out, bdsp_default_below o n (by omega) leaves out,
    fun hout hy hneg => bdsp_uses_top o n s hs hsn leaves out hout hy hneg⟩

example : Tree.onGates (bdsp Tree.toyOps 16 Tree.toyLeaves (some 1)) (·.gates)
      (fun c => Below G.wires 15 c ∧ Uses G.wires 14 c)
    ∧ Tree.onGates (bdsp Tree.toyOps 16 Tree.toyLeaves none) (·.gates)
      (fun c => Below G.wires 11 c ∧ Uses G.wires 10 c)
    ∧ Tree.onGates (bdsp Tree.toyOps 16 Tree.toyLeaves (some 4)) (·.gates)
      (fun c => Below G.wires 4 c ∧ Uses G.wires 3 c)
    ∧ declaredWidth .bdsp { len := 16, s := 2 } = 11 := by decide

/-- **C15 link (TopDownInitialize, C01; every `n ≥ 1`, all leaf values, with or without the global
phase).**  Whenever the C01 model `topDownInit` returns: (a) every wire of every gate is below the
declared width `n`; (b) the top wire `n − 1` (the qubit of the root of the angle tree) is touched as
soon as the root's `angle_y` passes the two tests guarding its `ry` (`!= 0` in `top_down`, not
negligible in `ucr`). -/
theorem C15_link_topDown {F : Type} (o : TOps F) (n : Nat) (hn : 1 ≤ n) (leaves : Nat → SV F)
    (gp : Bool) (out : TopDownOut F) (hout : topDownInit o n leaves gp = some out) :
    (∀ g ∈ out.circ, ∀ w ∈ g.wires, w < declaredWidth .topDown { len := 2 ^ n })
    ∧ ((∀ v l r, angleTree o (stateTree o n leaves) = .node v l r →
          o.neZero v.y = true ∧ o.aops.negl v.y = false) →
        ∃ g ∈ out.circ, declaredWidth .topDown { len := 2 ^ n } - 1 ∈ g.wires) :=
  ⟨topDown_below o n hn leaves gp out hout, topDown_uses_top o n hn leaves gp out hout⟩

example : Tree.onGates (topDownInit Tree.toyOps 3 Tree.toyLeaves true) (·.circ)
      (fun c => Below G.wires 3 c ∧ Uses G.wires 2 c ∧ ¬ Below G.wires 2 c)
    ∧ declaredWidth .topDown { len := 8 } = 3 := by decide

/-! ### Sparse initializers (C06) -/

/-- **C15 link (CvoqramInitialize, C06; every key length `n ≥ 1`, with or without auxiliaries, every
back-end, every dictionary with keys of `n` characters).**  With `WL.sgWires` the wires of the sparse
alphabet (opaque multi-controlled gates: controls and target; `mcx` v-chain: also its borrowed
wires): (a) every wire of every gate of the C06 model `cvoInit` is below the declared width `n + 1`
(`2n` with auxiliaries); (b) the top wire (memory qubit `n − 1`) is touched if and only if some key
starts with `'1'`; (c) the flag wire 0 is always touched; (d) with auxiliaries, if every key has at
most one `'1'` the declared ancilla register `1…n−1` is never touched (`_mcuvchain` is not called). -/
theorem C15_link_cvoqram {α : Type} [Sparse.NumOps α] (n : Nat) (hn : 1 ≤ n) (aux : Bool)
    (method : String) (d : Sparse.Dict α) (hd : ∀ kv ∈ d, kv.1.length = n) :
    (∀ g ∈ (Sparse.cvoInit n aux method d).1, ∀ w ∈ sgWires g,
        w < declaredWidth .cvoqram { n := n, aux := aux })
    ∧ ((∃ g ∈ (Sparse.cvoInit n aux method d).1,
          declaredWidth .cvoqram { n := n, aux := aux } - 1 ∈ sgWires g)
        ↔ ∃ kv ∈ d, Sparse.bitAt kv.1 0 = true)
    ∧ (∃ g ∈ (Sparse.cvoInit n aux method d).1, 0 ∈ sgWires g)
    ∧ (aux = true → (∀ kv ∈ d, (Sparse.selectControls kv.1).length ≤ 1) →
        ∀ g ∈ (Sparse.cvoInit n aux method d).1, ∀ w ∈ sgWires g, w = 0 ∨ n ≤ w) := by
  refine ⟨cvo_sound hn aux method d hd, ⟨fun hu => ?_, cvo_top_used hn aux method d hd⟩,
    cvo_flag_used n aux method d, fun ha h1 => by subst ha; exact cvo_anc_untouched n method d h1⟩
  by_cases h : ∃ kv ∈ d, Sparse.bitAt kv.1 0 = true
  · exact h
  · exact absurd hu (cvo_top_unused hn aux method d hd h).2

example : Below sgWires (declaredWidth .cvoqram { n := 3, aux := true })
      (Sparse.cvoInit 3 true "qiskit" sparse_exD3).1
    ∧ declaredWidth .cvoqram { n := 3, aux := true } = 6
    ∧ Uses sgWires 5 (Sparse.cvoInit 3 true "qiskit" sparse_exD3).1
    ∧ ¬ Uses sgWires 5 (Sparse.cvoInit 3 true "qiskit" sparse_exD3lo).1
    ∧ ¬ Uses sgWires 2 (Sparse.cvoInit 3 true "qiskit" sparse_exD3one).1
    ∧ Uses sgWires 3 (Sparse.cvoInit 3 false "qiskit" sparse_exD3).1 := by decide

/-- **C15 link (PivotInitialize, C06; every `n`, with or without auxiliaries, every dictionary with
distinct keys of `n` characters).**  Whenever the C06 model `pivotInit` returns (which forces
`m = len(d) ≥ 2`): (a) every wire of every gate of the final circuit is below the declared width
`n` (`n + ⌈log₂ m⌉ − 1` with auxiliaries; the table's `clog2` is the model's `ceilLog2`,
`pivot_clog2_eq_ceilLog2`), and the final circuit is the dense hand-off followed by the reversed,
bit-reversed pivot gates, which themselves lie below the width (so the reversal `q ↦ width−1−q` never
truncates); (b) if every key already lies in the low block the circuit is the dense gate alone and
the wires touched are exactly `off … off + t − 1` (`t = ⌈log₂ m⌉`, `off = t − 1` with auxiliaries,
else `0`): the declared ancilla register and the top `n − t` data wires then stay idle.  No general
tightness statement: whether the top data wire is touched depends on the keys. -/
theorem C15_link_pivot {α : Type} [Sparse.NumOps α] (n : Nat) (aux : Bool) (d : Sparse.Dict α)
    (hlen : ∀ k ∈ d.keys, k.length = n) (hnd : d.keys.Nodup) (out : Sparse.PivotOut α)
    (h : Sparse.pivotInit n aux d = some out) :
    (∀ g ∈ out.gates, ∀ w ∈ sgWires g,
        w < declaredWidth .pivot { n := n, m := d.length, aux := aux })
    ∧ (∃ (g : List (Sparse.SG α)) (ws : List Nat) (v : List (Sparse.Amp α)),
        out.gates = Sparse.SG.dense ws v :: (g.map (Sparse.SG.mapWires (fun q =>
          declaredWidth .pivot { n := n, m := d.length, aux := aux } - 1 - q))).reverse
        ∧ ∀ x ∈ g, ∀ w ∈ sgWires x, w < declaredWidth .pivot { n := n, m := d.length, aux := aux })
    ∧ (Sparse.getIndexNz (n - Sparse.ceilLog2 d.length) d = none →
        ∀ w, (∃ g ∈ out.gates, w ∈ sgWires g) ↔
          (if aux then Sparse.ceilLog2 d.length - 1 else 0) ≤ w
          ∧ w < (if aux then Sparse.ceilLog2 d.length - 1 else 0) + Sparse.ceilLog2 d.length) :=
  ⟨(pivot_sound aux d hlen hnd out h).1, (pivot_sound aux d hlen hnd out h).2,
    fun hnz => pivot_idle aux d out hnz h⟩

example : (Sparse.pivotInit 4 true pivot_exP4).isSome = true
    ∧ (∀ out ∈ Sparse.pivotInit 4 true pivot_exP4,
        Below sgWires (declaredWidth .pivot { n := 4, m := 3, aux := true }) out.gates
        ∧ Uses sgWires 4 out.gates ∧ Uses sgWires 0 out.gates)
    ∧ declaredWidth .pivot { n := 4, m := 3, aux := true } = 5
    ∧ (∀ out ∈ Sparse.pivotInit 4 true pivot_exP4lo,
        ¬ Uses sgWires 0 out.gates ∧ ¬ Uses sgWires 4 out.gates) := by decide

/-! ### Multi-controlled one-qubit gates (C04) -/

/-- **C15 link (Ldmcu, C04; every `k`, every accepted `ctrl_state`).**  With `WL.lgWires` the wires of
the `LG` alphabet: whenever the model `Mcu2.ldmcu` returns, every wire of every gate is below the
declared width `k + 1`, and the top wire `k` (the target) is touched. -/
theorem C15_link_ldmcu {Θ : Type} (k : Nat) (cs : Option (List Bool)) (c : List (Mcu2.LG Θ))
    (h : Mcu2.ldmcu k cs = some c) :
    (∀ g ∈ c, ∀ w ∈ lgWires g, w < declaredWidth .ldmcu { k := k })
    ∧ ∃ g ∈ c, declaredWidth .ldmcu { k := k } - 1 ∈ lgWires g :=
  ⟨ldmcu_below k cs c h, ldmcu_uses_top k cs c h⟩

example : ∃ c, Mcu2.ldmcu (Θ := Unit) 4 (some [true, false, true, true]) = some c
    ∧ declaredWidth .ldmcu { k := 4 } = 5 := ⟨_, rfl, by decide⟩

/-- **C15 link (Qdmcu, C04; every `k ≥ 1`, every accepted `ctrl_state`).**  Whenever the model
`Mcu2.qdmcu` returns (the placed LinearMcx gates and their inverses appear as primitive `G` gates):
every wire of every gate is below the declared width `k + 1`, and the target `k` is touched. -/
theorem C15_link_qdmcu {Θ : Type} (o : McxAngles Θ) (neg : Θ → Θ) (k : Nat)
    (cs : Option (List Bool)) (c : List (Mcu2.LG Θ)) (h : Mcu2.qdmcu o neg k cs = some c) :
    (∀ g ∈ c, ∀ w ∈ lgWires g, w < declaredWidth .qdmcu { k := k })
    ∧ ∃ g ∈ c, declaredWidth .qdmcu { k := k } - 1 ∈ lgWires g :=
  ⟨qdmcu_below o neg k cs c h, qdmcu_uses_top o neg k cs c h⟩

example : ∃ c, Mcu2.qdmcu (Θ := Unit) ⟨(), (), ()⟩ id 3 (some [true, false, true]) = some c
    ∧ Below lgWires 4 c ∧ Uses lgWires 3 c ∧ ¬ Below lgWires 3 c := by
  refine ⟨_, rfl, ?_, ?_, ?_⟩ <;> decide

/-- **C15 link (Mcg, C04; every `k`, every accepted `ctrl_state`, both `su2` / `up_to_diagonal`
flags).**  Whenever the model `Mcu2.mcg` returns: every wire is below the declared width `k + 1`, and
the target `k` is touched. -/
theorem C15_link_mcg {Θ : Type} (k : Nat) (cs : Option (List Bool)) (su2 utd : Bool)
    (c : List (Mcu2.LG Θ)) (h : Mcu2.mcg k cs su2 utd = some c) :
    (∀ g ∈ c, ∀ w ∈ lgWires g, w < declaredWidth .mcg { k := k })
    ∧ ∃ g ∈ c, declaredWidth .mcg { k := k } - 1 ∈ lgWires g :=
  ⟨mcg_below k cs su2 utd c h, mcg_uses_top k cs su2 utd c h⟩

example : ∃ c, Mcu2.mcg (Θ := Unit) 5 (some [true, false, true, true, false]) false false = some c
    ∧ Below lgWires 6 c ∧ Uses lgWires 5 c ∧ ¬ Below lgWires 5 c := by
  refine ⟨_, rfl, ?_, ?_, ?_⟩ <;> decide

/-- **C15 link (MCU, the approximate gate, C04; every `k`, every accepted base-control count `b`,
every accepted `ctrl_state`).**  Whenever the model `Mcu2.mcu` returns: (a) every wire is below the
declared width `k + 1`; (b) the target `k` is touched when `k = 0` or `b ≥ 2`; (c) with `k ≥ 1` and
`b = 1` or `b < 0` (accepted by the code) all four sweeps are empty, the definition consists of the
`x` gates of the control pattern only, and the declared target wire is touched by NO gate. -/
theorem C15_link_mcu {Θ : Type} (k : Nat) (b : Int) (cs : Option (List Bool))
    (c : List (Mcu2.LG Θ)) (h : Mcu2.mcu k b cs = some c) :
    (∀ g ∈ c, ∀ w ∈ lgWires g, w < declaredWidth .mcu { k := k })
    ∧ (k = 0 ∨ 2 ≤ b → ∃ g ∈ c, declaredWidth .mcu { k := k } - 1 ∈ lgWires g)
    ∧ (1 ≤ k → b ≤ 1 → ¬ ∃ g ∈ c, declaredWidth .mcu { k := k } - 1 ∈ lgWires g) :=
  ⟨mcu_below k b cs c h, fun hb => mcu_uses_top k b cs c h hb,
    fun hk hb => (mcu_top_unused k b cs c h hk hb).2⟩

example : (∃ c, Mcu2.mcu (Θ := Unit) 5 3 (some [true, false, true, true, false]) = some c)
    ∧ (∃ c, Mcu2.mcu (Θ := Unit) 3 1 (some [true, false, true]) = some c)
    ∧ (∃ c, Mcu2.mcu (Θ := Unit) 3 (-2) none = some c) := ⟨⟨_, rfl⟩, ⟨_, rfl⟩, ⟨_, rfl⟩⟩

/-- **C15 link (Ldmcsu, C04; every `k ≥ 1`, all matrices, every accepted `ctrl_state`).**  With
`WL.msgWires` the wires of the `Mcsu.SG` alphabet (an embedded `McxVchainDirty` / `LinearMcx` counts
with the wire list it is appended on): on the class's layout (controls `0…k−1`, target `k`), whenever
the model `Mcsu.ldmcsu` returns, every wire is below the declared width `k + 1` and the target `k` is
touched. -/
theorem C15_link_ldmcsu {K : Type} (o : Mcsu.ROps K) (u : Mcsu.CMat K)
    (eig : Mcsu.Cx K × Mcsu.Cx K × Mcsu.CMat K) (k : Nat) (cs : Option (List Bool))
    (c : List (Mcsu.SG K)) (h : Mcsu.ldmcsu o u eig (List.range k) k cs = some c) :
    (∀ g ∈ c, ∀ w ∈ msgWires g, w < declaredWidth .ldmcsu { k := k })
    ∧ ∃ g ∈ c, declaredWidth .ldmcsu { k := k } - 1 ∈ msgWires g :=
  ⟨ldmcsu_below o u eig k cs c h, ldmcsu_uses_top o u eig k cs c h⟩

example : ∃ c, Mcsu.ldmcsu (mcsu_toyROps false) mcsu_toyM (⟨(), ()⟩, ⟨(), ()⟩, mcsu_toyM)
      (List.range 7) 7 none = some c ∧ Below msgWires 8 c ∧ Uses msgWires 7 c :=
  ⟨_, rfl, by decide, by decide⟩

/-- **C15 link (LdMcSpecialUnitary, C04; every `k ≥ 1`, all ZYZ angles, every accepted
`ctrl_state`).**  On the class's layout, whenever the model `Mcsu.ldmcSpecial` returns, every wire is
below the declared width `k + 1` and the target `k` is touched. -/
theorem C15_link_ldMcSpecialUnitary {K : Type} (o : Mcsu.ROps K) (zu za zb zc : Mcsu.Zyz K)
    (k : Nat) (cs : Option (List Bool)) (c : List (Mcsu.SG K))
    (h : Mcsu.ldmcSpecial o zu za zb zc (List.range k) k cs = some c) :
    (∀ g ∈ c, ∀ w ∈ msgWires g, w < declaredWidth .ldMcSpecialUnitary { k := k })
    ∧ ∃ g ∈ c, declaredWidth .ldMcSpecialUnitary { k := k } - 1 ∈ msgWires g :=
  ⟨ldmcSpecial_below o zu za zb zc k cs c h, ldmcSpecial_uses_top o zu za zb zc k cs c h⟩

example : ∃ c, Mcsu.ldmcSpecial (mcsu_toyROps true) mcsu_toyZ mcsu_toyZ mcsu_toyZ mcsu_toyZ
      (List.range 7) 7 none = some c ∧ Below msgWires 8 c ∧ Uses msgWires 7 c :=
  ⟨_, rfl, by decide, by decide⟩

/-- **C15 link (MultiTargetMCSU2, C04; every `k`, every `t`, one matrix per target, every accepted
`ctrl_state`).**  On the class's layout (controls `0…k−1`, targets `k…k+t−1`), whenever the model
`Mcsu.multiTarget` returns: every wire is below the declared width `k + t`, and with `t ≥ 1` the
last target `k + t − 1` is touched. -/
theorem C15_link_multiTargetMCSU2 {K : Type} (o : Mcsu.ROps K) (us : List (Mcsu.CMat K))
    (k t : Nat) (cs : Option (List Bool)) (c : List (Mcsu.SG K)) (hus : us.length = t)
    (h : Mcsu.multiTarget o us (List.range k) ((List.range t).map (· + k)) cs = some c) :
    (∀ g ∈ c, ∀ w ∈ msgWires g, w < declaredWidth .multiTargetMCSU2 { k := k, t := t })
    ∧ (1 ≤ t → ∃ g ∈ c, declaredWidth .multiTargetMCSU2 { k := k, t := t } - 1 ∈ msgWires g) :=
  ⟨multiTarget_below o us k t cs c hus h, fun ht => multiTarget_uses_top o us k t cs c hus ht h⟩

example : ∃ c, Mcsu.multiTarget (mcsu_toyROps false) [mcsu_toyM, mcsu_toyM] (List.range 7)
      ((List.range 2).map (· + 7)) none = some c ∧ Below msgWires 9 c ∧ Uses msgWires 8 c :=
  ⟨_, rfl, by decide, by decide⟩

end Qclib
