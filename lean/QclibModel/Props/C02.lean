import QclibModel.Proofs.UnitaryQrMain
import QclibModel.Proofs.UnitaryDemux
import QclibModel.Proofs.UnitaryCsd
import QclibModel.Proofs.UnitaryIso
import QclibModel.Proofs.RotReal
import QclibModel.Proofs.UnitaryFullEx
/-
  C02 — unitary synthesis (`qclib/unitary.py`).  Property theorems only; proofs live in
  Proofs/Unitary*.lean.  The property is PARTIAL by nature: `scipy.linalg.cossin`, `np.linalg.eig`,
  `_closest_unitary`, qiskit's `UnitaryGate`/`UCRZ`/`UCRY`/`UCGate`/`MCX`/`MCMT`/`_apply_a2` are
  specified (explicit hypotheses / trusted base), not verified.  What is proved is the algebra and
  the index logic around them.

  Full statement of the property (not provable as a whole: it quantifies over the numerical kernels):
    ∀ n, ∀ U ∈ U(2^n), ∀ dec ∈ {qsd, csd}, ∀ a2, ∀ iso < n:
      Operator(unitary(U, dec, iso, a2))[:, :2^(n-iso)] = U[:, :2^(n-iso)],
    and for dec = qr (U without zero entries) Operator(unitary(U, "qr")) = U.
-/
namespace Qclib
open Qclib.Uni Matrix RotSem

/-! ### cosine-sine step: the omitted last CZ and optimisation A.1 -/

section csd
variable {Θ R : Type} [AddCommGroup Θ] [CommRing R] [RotSem Θ R] [RotLaws Θ R]

/-- **C02 (the CZ multiplexer without its last CZ).**  For every number of controls `k+1` and every
angle list: the circuit `ucr(RYGate, 2θ, CZGate, last_control=False)` that `build_unitary` appends
(here on ucr-local wires: target `0`, controls `1 … k+1`; the model places it on
`[n-1] + range(n-1)`) denotes, on every state, the ideal multiplexer followed by the omitted
`CZ(k+1, 0)` — and the multiplexer applies, where the controls read `j`, exactly the CS block
`[[c_j, -s_j], [s_j, c_j]]` with `c_j = cs(θ_j + θ_j)`, `s_j = sn(θ_j + θ_j)` (`cos θ_j`, `sin θ_j` in
the `ℝ → ℂ` instance, where `cs φ = cos(φ/2)`).  Consequently whatever follows the circuit (`Rt`),
if it first undoes that CZ, sees the plain multiplexer. -/
theorem C02_csd_nolast (half : Θ → Θ) (negl : Θ → Bool)
    (hhalf : ∀ a, half a + half a = a) (hadd : ∀ a b, half (a + b) = half a + half b)
    (hnegl : ∀ a, negl a = true → a = 0) (k : Nat) (θ : Nat → Θ) (ψ : State R) :
    sem (ucr (stdOps half negl) Axis.Y Ent.CZ (k + 1) (fun j => θ j + θ j) false) ψ
      = denote (G.cz (k + 1) 0 : G Θ)
          (applyFam (fun b => (⟨cs (θ (ctrlIdx (k + 1) b) + θ (ctrlIdx (k + 1) b)),
              -(sn (θ (ctrlIdx (k + 1) b) + θ (ctrlIdx (k + 1) b))),
              sn (θ (ctrlIdx (k + 1) b) + θ (ctrlIdx (k + 1) b)),
              cs (θ (ctrlIdx (k + 1) b) + θ (ctrlIdx (k + 1) b))⟩ : Mat2 R)) 0 ψ) ∧
    ∀ Rt : State R → State R,
      Rt (denote (G.cz (k + 1) 0 : G Θ)
          (sem (ucr (stdOps half negl) Axis.Y Ent.CZ (k + 1) (fun j => θ j + θ j) false) ψ))
        = Rt (muxIdeal Axis.Y (k + 1) (fun j => θ j + θ j) ψ) :=
  ⟨csd_middle half negl hhalf hadd hnegl k θ ψ,
   fun Rt => csd_absorb half negl hhalf hadd hnegl k (fun j => θ j + θ j) Rt ψ⟩

end csd

/-- non-vacuity of the rotation hypotheses: the instance `Θ = ℝ`, `R = ℂ` (`cs φ = cos(φ/2)` …,
Proofs/RotReal.lean) with `half a = a/2` and the exact-zero test satisfies them, so
`C02_csd_nolast` and `C02_demux_rz` apply to real angles and complex amplitudes. -/
example (k : Nat) (θ : Nat → ℝ) (ψ : State ℂ) :
    ∀ Rt : State ℂ → State ℂ,
      Rt (denote (G.cz (k + 1) 0 : G ℝ)
          (sem (ucr (stdOps (fun a : ℝ => a / 2) (fun a => decide (a = 0))) Axis.Y Ent.CZ (k + 1)
            (fun j => θ j + θ j) false) ψ))
        = Rt (muxIdeal Axis.Y (k + 1) (fun j => θ j + θ j) ψ) :=
  (C02_csd_nolast (fun a : ℝ => a / 2) (fun a => decide (a = 0)) (fun a => by ring)
    (fun a b => by ring) (fun a h => by simpa using h) k θ ψ).2

/-- **C02 (cosine-sine step, block level).**  Over any commutative ring, with the top qubit as the
outer block index and the next qubit as the inner one ("left / right half of the columns"): negating
the right half of the columns of `u1` is right multiplication by `Zh = diag(1, -1)`
(`negRight`), and if `X = diag(u0,u1) · CS · diag(v0,v1)` (the `cossin` specification) then the
circuit `diag(v0,v1)`, then the multiplexer that lacks its last CZ (`CZ · CS`), then
`diag(u0, u1·Zh)` has operator `X`: the omitted CZ and the A.1 sign flip cancel exactly. -/
theorem C02_csd_step {R κ : Type} [CommRing R] [Fintype κ] [DecidableEq κ]
    (u0 u1 v0 v1 : Matrix (κ ⊕ κ) (κ ⊕ κ) R)
    (CS X : Matrix ((κ ⊕ κ) ⊕ (κ ⊕ κ)) ((κ ⊕ κ) ⊕ (κ ⊕ κ)) R)
    (hX : X = fromBlocks u0 0 0 u1 * CS * fromBlocks v0 0 0 v1) :
    (∀ i j, (u1 * Zh R κ) i (Sum.inl j) = u1 i (Sum.inl j) ∧
            (u1 * Zh R κ) i (Sum.inr j) = - u1 i (Sum.inr j)) ∧
    fromBlocks u0 0 0 (u1 * Zh R κ) * (CZm R κ * CS) * fromBlocks v0 0 0 v1 = X :=
  ⟨fun i j => ⟨negRight_eq_inl u1 i j, negRight_eq_inr u1 i j⟩, csd_step X CS u0 u1 v0 v1 hX⟩

/-- non-vacuity of `C02_csd_step`: `θ = π/2` (`C = 0`, `S = 1`), `κ = Unit`, over `ℤ`, all blocks the
identity.  (The contrast — negating the LEFT half instead does not give `X` — is an `example` in
Proofs/UnitaryCsd.lean.) -/
example :
    fromBlocks (1 : Matrix (Unit ⊕ Unit) (Unit ⊕ Unit) ℤ) 0 0 (1 * Zh ℤ Unit)
      * (CZm ℤ Unit * fromBlocks 0 (-1) 1 0) * fromBlocks 1 0 0 1 = fromBlocks 0 (-1) 1 0 :=
  (C02_csd_step 1 1 1 1 _ _ (by simp [fromBlocks_one])).2

/-- The list-level operation the model (and the driver) uses, `negRightHalf`, negates exactly the
entries with column index `≥ h`. -/
theorem C02_csd_negRightHalf {α : Type} (neg : α → α) (h : Nat) (rows : List (List α)) (z : α)
    (i j : Nat) (hi : i < rows.length) (hj : j < (rows.getD i []).length) :
    ((negRightHalf neg h rows).getD i []).getD j z
      = if j < h then (rows.getD i []).getD j z else neg ((rows.getD i []).getD j z) :=
  negRightHalf_getD neg h rows z i j hi hj

/-! ### demultiplexing (`_compute_gates`, `_qsd`) -/

/-- **C02 (demultiplexing).**  Over any commutative `*`-ring: if `V V† = 1`, `|d_i|² = 1`,
`U1 U2† = V diag(d²) V†` (the eigen-decomposition specification of `np.linalg.eig` — after the
`_closest_unitary` repair it is only an assumption, hence an explicit hypothesis), and `U2†U2 = 1`,
then with `D = diag(d)`, `W = D V† U2`:  `U1 ⊕ U2 = (V ⊕ V)(D ⊕ D†)(W ⊕ W)`, and `W` is again
unitary (`W†W = 1`), so the recursion stays inside the unitary group. -/
theorem C02_demux {R ι : Type} [CommRing R] [StarRing R] [Fintype ι] [DecidableEq ι]
    (U1 U2 V : Matrix ι ι R) (d : ι → R)
    (hV : V * Vᴴ = 1) (hd : ∀ i, d i * star (d i) = 1)
    (heig : U1 * U2ᴴ = V * diagonal (fun i => d i * d i) * Vᴴ) (hU2 : U2ᴴ * U2 = 1) :
    fromBlocks U1 0 0 U2
      = fromBlocks V 0 0 V * fromBlocks (diagonal d) 0 0 (diagonal d)ᴴ
          * fromBlocks (diagonal d * Vᴴ * U2) 0 0 (diagonal d * Vᴴ * U2) :=
  demux_blocks U1 U2 V d hV hd heig hU2

/-- non-vacuity: over `ℤ` (trivial star) `U1 = U2 = -1`, `V = 1`, non-constant `d = (1, -1)` meet all
hypotheses. -/
example : ∃ (U1 U2 V : Matrix (Fin 2) (Fin 2) ℤ) (d : Fin 2 → ℤ),
    V * Vᴴ = 1 ∧ (∀ i, d i * star (d i) = 1)
      ∧ U1 * U2ᴴ = V * diagonal (fun i => d i * d i) * Vᴴ ∧ U2ᴴ * U2 = 1 ∧ d 0 ≠ d 1 := by
  have hd : ∀ i : Fin 2, (if i = 0 then (1 : ℤ) else -1) * star (if i = 0 then (1 : ℤ) else -1) = 1 := by
    intro i; split <;> simp
  have hdd : (fun i : Fin 2 => (if i = 0 then (1 : ℤ) else -1) * (if i = 0 then (1 : ℤ) else -1))
      = fun _ => 1 := by
    funext i; split <;> simp
  have heig : (-1 : Matrix (Fin 2) (Fin 2) ℤ) * (-1)ᴴ
      = 1 * diagonal (fun i : Fin 2 => (if i = 0 then (1 : ℤ) else -1) * (if i = 0 then (1 : ℤ) else -1)) * 1ᴴ := by
    rw [hdd]; simp
  exact ⟨-1, -1, 1, fun i => if i = 0 then 1 else -1, by simp, hd, heig, by simp, by decide⟩

/-- **C02 (`UCRZ(-2·arg d)` realises `D ⊕ D†`).**  In the rotation vocabulary (`ex θ = e^{iθ/2}`,
`matRZ θ = diag(e^{-iθ/2}, e^{iθ/2})`): for `α = arg d`, so that `d = ex α · ex α`,
`RZ(-(α+α)) = diag(d, d⁻¹)` with `d · d⁻¹ = 1` (`d⁻¹ = d̄` for unimodular `d`), and the ideal
multiplexer with the angle list `-(α_j + α_j)` that `_qsd` hands to `UCRZGate` multiplies, for every
`k` and every state, the amplitude by `d_j` where the target reads `0` and by `d_j⁻¹` where it reads
`1`, `j` being the number on the controls. -/
theorem C02_demux_rz {Θ R : Type} [AddCommGroup Θ] [CommRing R] [RotSem Θ R] [RotLaws Θ R]
    (k : Nat) (α : Nat → Θ) (ψ : State R) :
    (∀ a : Θ, (matRZ (-(a + a)) : Mat2 R) = ⟨ex a * ex a, 0, 0, ex (-a) * ex (-a)⟩ ∧
      (ex a * ex a : R) * (ex (-a) * ex (-a)) = 1) ∧
    muxIdeal Axis.Z k (fun j => -(α j + α j)) ψ
      = applyFam (fun b => Mat2.diag (ex (α (ctrlIdx k b)) * ex (α (ctrlIdx k b)))
          (ex (-(α (ctrlIdx k b))) * ex (-(α (ctrlIdx k b))))) 0 ψ :=
  ⟨fun a => ⟨demux_rz a, demux_rz_inv a⟩, demux_mux k α ψ⟩

/-! ### isometry mode -/

/-- **C02 (isometry mode).**  `Idx κ t` is the index set of `t` more qubits on top of a `κ`-indexed
block (`Idx κ (t+1) = Idx κ t ⊕ Idx κ t`, outer summand = the top qubit) and `lead t` embeds the
leading columns (all `t` top qubits `0`).  `IsoSynth t U C` says: `C` was obtained from the target
`U` by `t` levels of isometry-mode synthesis — at each level `U = Xl · diag(v0, v1)` and the circuit
realises `Xl · diag(c0, B)` where only `v0` was synthesised (recursively, giving `c0`) and the second
block is whatever ends up there (`B`; the code applies `c0` again), or the synthesis was exact
(`size ≤ 4` leaf).  Then for every number of levels `t` the leading `|κ|` columns of `C` and `U`
coincide — they do not depend on the dropped blocks `v1` (induction over the levels). -/
theorem C02_iso_columns {R κ : Type} [CommRing R] [Fintype κ] {t : Nat}
    {U C : Matrix (Idx κ t) (Idx κ t) R} (h : IsoSynth t U C) :
    (∀ i j, C i (lead t j) = U i (lead t j)) ∧
    (∀ x : Idx κ t → R, (∀ y, y ∉ Set.range (lead t) → x y = 0) → C *ᵥ x = U *ᵥ x) :=
  ⟨iso_columns h, fun x hx => iso_mulVec h x hx⟩

/-- non-vacuity: one level over `ℤ`, `κ = Unit`: target `diag(1, 1)` and circuit operator `diag(1, 0)`
are related although they differ (in the non-leading column). -/
example : ∃ U C : Matrix (Idx Unit 1) (Idx Unit 1) ℤ, IsoSynth 1 U C ∧
    ∀ i j, C i (lead 1 j) = U i (lead 1 j) :=
  ⟨_, _, IsoSynth.step (κ := Unit) (t := 0) (1 : Matrix (Unit ⊕ Unit) (Unit ⊕ Unit) ℤ)
    (1 : Matrix Unit Unit ℤ) (1 : Matrix Unit Unit ℤ) (1 : Matrix Unit Unit ℤ)
    (0 : Matrix Unit Unit ℤ) (IsoSynth.exact 0 _),
   (C02_iso_columns (IsoSynth.step (κ := Unit) (t := 0) (1 : Matrix (Unit ⊕ Unit) (Unit ⊕ Unit) ℤ)
    (1 : Matrix Unit Unit ℤ) (1 : Matrix Unit Unit ℤ) (1 : Matrix Unit Unit ℤ)
    (0 : Matrix Unit Unit ℤ) (IsoSynth.exact 0 _))).1⟩

/-! ### QR: the Gray-code style MCX walk -/

/-- **C02 (QR walk).**  For every `n` and all basis indices `row ≠ col` below `2^n`: the
`while n_diff > 1` loop of `_build_qr_circuit` never hits an unbound variable (the model returns
`some`), it ends with bit patterns of length `n` that differ in exactly ONE position, the X/MCX
gates it emitted map every label reading `row` to a label reading the final row pattern and — the
same gates — every label reading `col` to the final column pattern, and they never touch wires
`≥ n`. -/
theorem C02_qr_gray {n row col : Nat} (hrow : row < 2 ^ n) (hcol : col < 2 ^ n) (hne : row ≠ col) :
    ∃ w, walk n (nDiff (bitsLE n row) (bitsLE n col) - 1) (bitsLE n row) (bitsLE n col) = some w ∧
      (∃ g, qrRotation n row col = some g) ∧
      nDiff w.row w.col = 1 ∧ w.row.length = n ∧ w.col.length = n ∧
      ∀ b : Bits,
        (Reads (bitsLE n row) b → Reads w.row (qgEval w.gates b)) ∧
        (Reads (bitsLE n col) b → Reads w.col (qgEval w.gates b)) ∧
        (∀ q, n ≤ q → qgEval w.gates b q = b q) := by
  obtain ⟨⟨w, hw⟩, hg⟩ := qr_walk_total hrow hcol hne
  obtain ⟨h1, h2, h3⟩ := qr_walk_onebit hrow hcol hne hw
  exact ⟨w, hw, hg, h1, h2, h3, fun b => qr_walk_maps hrow hcol hne hw b⟩

/-- non-vacuity: `n = 3`, `row = 6`, `col = 1` (three differing bits, two walk steps). -/
example : ∃ w, walk 3 (nDiff (bitsLE 3 6) (bitsLE 3 1) - 1) (bitsLE 3 6) (bitsLE 3 1) = some w ∧
    w.row = [true, true, true] ∧ w.col = [true, true, false] ∧ w.mems = [[2, 1, 1], [1, 2, 0]] := by
  decide

/-- **C02 (X–MCX–X sandwich).**  For all `n`, every target `m`, every pattern and every label: the
gates one call of `_apply_mcxs` emits (X on the zero-pattern wires, `MCXGate(n-1)`, the same X's
again) flip wire `m` exactly on the labels whose other wires `< n` read the pattern, and are the
identity on all other labels; the gates `_undo_mcxs` rebuilds from the saved `memory` do the same. -/
theorem C02_qr_sandwich (n m : Nat) (pat : List Bool) (b : Bits) :
    qgEval (xsFor n m pat ++ [QG.mcx (others n m) m] ++ xsFor n m (pat.set m true)) b
        = (if (∀ q, q < n → q ≠ m → b q = pat.getD q false) then flipBit b m else b) ∧
    (m < n → qgEval (undoOne n (memOf n m pat)) b
        = (if (∀ q, q < n → q ≠ m → b q = pat.getD q false) then flipBit b m else b)) :=
  ⟨qr_sandwich n m pat b, fun hm => qr_sandwich_undo n m hm pat b⟩

example : qgEval (xsFor 3 1 [true, false, false] ++ [QG.mcx (others 3 1) 1]
      ++ xsFor 3 1 ([true, false, false].set 1 true)) (fun q => q == 0) 1 = true := by decide

/-- **C02 (`_undo_mcxs` is the inverse permutation).**  On EVERY basis label (all spectators
included) replaying the saved memories last-first undoes the walk, and conversely; together with
the X layer around the MCMT the rotation is `P⁻¹ · MCMT · P`. -/
theorem C02_qr_undo {n row col : Nat} {w : Walk}
    (hw : walk n (nDiff (bitsLE n row) (bitsLE n col) - 1) (bitsLE n row) (bitsLE n col) = some w)
    (b : Bits) :
    qgEval (undoMcxs n w.mems) (qgEval w.gates b) = b ∧
    qgEval w.gates (qgEval (undoMcxs n w.mems) b) = b ∧
    qgEval (mcmtXs n w.row w.col ++ undoMcxs n w.mems)
        (qgEval (w.gates ++ mcmtXs n w.row w.col) b) = b ∧
    qgEval (w.gates ++ mcmtXs n w.row w.col)
        (qgEval (mcmtXs n w.row w.col ++ undoMcxs n w.mems) b) = b :=
  ⟨(qr_undo_inverse hw b).1, (qr_undo_inverse hw b).2, (qr_frame_inverse hw b).1,
   (qr_frame_inverse hw b).2⟩

/-- **C02 (orientation of the 2×2 block).**  With `col < row` (what `_get_row_col` produces) the
surviving differing wire `t` reads `1` in the final row pattern and `0` in the final column
pattern, the MCMT is controlled by all other wires `< n`, and after the walk and the X layer the
label of `row` has all controls `1` and target `1`, the label of `col` all controls `1` and target
`0`: the block `[[M[col][col], M[col][row]], [M[row][col], M[row][row]]]` acts with
`|0⟩ ↔ col`, `|1⟩ ↔ row`.  Moreover the X layer selects exactly the final row pattern. -/
theorem C02_qr_orientation {n row col : Nat} (hrow : row < 2 ^ n) (hlt : col < row) {w : Walk}
    (hw : walk n (nDiff (bitsLE n row) (bitsLE n col) - 1) (bitsLE n row) (bitsLE n col) = some w) :
    ∃ t, diffQubit n w.row w.col = some t ∧ t < n ∧
      w.row.getD t false = true ∧ w.col.getD t false = false ∧
      mcmtCtrls n w.row w.col = (List.range n).filter (fun q => q != t) ∧
      ∀ b : Bits,
        (Reads (bitsLE n row) b →
          (mcmtCtrls n w.row w.col).all (fun q => qgEval (w.gates ++ mcmtXs n w.row w.col) b q) = true ∧
          qgEval (w.gates ++ mcmtXs n w.row w.col) b t = true) ∧
        (Reads (bitsLE n col) b →
          (mcmtCtrls n w.row w.col).all (fun q => qgEval (w.gates ++ mcmtXs n w.row w.col) b q) = true ∧
          qgEval (w.gates ++ mcmtXs n w.row w.col) b t = false) ∧
        ((mcmtCtrls n w.row w.col).all (fun q => qgEval (mcmtXs n w.row w.col) b q) = true ↔
          ∀ q, q < n → q ≠ t → b q = w.row.getD q false) := by
  obtain ⟨t, ht, htn, hr, hc, hctl⟩ := qr_orientation hrow hlt hw
  refine ⟨t, ht, htn, hr, hc, hctl, fun b => ?_⟩
  have hb := qr_block_labels hrow hlt hw ht b
  exact ⟨hb.1, hb.2, (qr_mcmt_pattern hrow (by omega) (by omega) hw ht b).1⟩

example : (6 : Nat) < 2 ^ 3 ∧ (1 : Nat) < 6 := by decide

/-! ### whole-recursion assembly (QSD), with the kernel specifications as hypotheses

Representation: `QI n` is the index set of `n` qubits (an `n`-fold sum, outer summand = top qubit,
so `Matrix.fromBlocks` is the block structure over the top qubit); `enc n b : QI n` reads the wires
`0 … n-1` of a label, `over n j b` overwrites them with `j`, `natOf n j` is the little-endian number;

    applyMat n M ψ b = Σ_j M (enc n b) j · ψ (over n j b)

is "`M` acting on the wires `0 … n-1`, little-endian, identity on every other wire", for EVERY
state `ψ`.  (Definitions in Proofs/UnitaryFullMat.lean.) -/

/-- **C02 (the matrix representation composes).**  Product of matrices ↔ composition of
transformers (right factor first); block-diagonal over the top qubit ↔ multiplexer on the top wire;
`M ⊕ M` on `n+1` wires ↔ `M` on the `n` low wires (a sub-circuit used one level up); the identity
matrix ↔ the identity. -/
theorem C02_matrix_semantics {R : Type} [CommRing R] (n : Nat) (A B : Matrix (QI n) (QI n) R)
    (ψ : State R) :
    applyMat n (A * B) ψ = applyMat n A (applyMat n B ψ) ∧
    (∀ b : Bits, applyMat (n + 1) (bd A B) ψ b = if b n then applyMat n B ψ b else applyMat n A ψ b) ∧
    applyMat (n + 1) (bd A A) ψ = applyMat n A ψ ∧
    applyMat n (1 : Matrix (QI n) (QI n) R) ψ = ψ :=
  ⟨applyMat_mul n A B ψ, fun b => applyMat_blockDiag n A B ψ b, applyMat_same n A ψ,
   applyMat_one n ψ⟩

/-- non-vacuity / sanity of the representation: on one qubit the matrix `[[0,1],[1,0]]` (over `ℤ`)
is the `X` gate of the gate semantics on wire `0`, on every state. -/
example (ψ : State ℤ) :
    applyMat 1 (fromBlocks (diagonal fun _ => 0) (diagonal fun _ => 1) (diagonal fun _ => 1)
      (diagonal fun _ => 0) : Matrix (QI 1) (QI 1) ℤ) ψ = applyMcu [] Mat2.X 0 ψ := by
  rw [applyMat_diagBlocks, applyMcu_nil_at]
  rfl

section full
variable {Θ R : Type} [AddCommGroup Θ] [CommRing R] [RotSem Θ R] [RotLaws Θ R]

/-- **C02 (the placement gap closed: the middle circuit on the wires the model uses).**  For every
`n = m+2 ≥ 2` and every angle list, the gate list the model really emits for the middle circuit,
`place (ucr(RY, 2θ, CZ, last_control=False)) ([n-1] + range(n-1))`, denotes on every state
(i) the CS multiplexer on the top wire `n-1`, its block `[[c_j,-s_j],[s_j,c_j]]` selected by the
little-endian number `j` on the wires `0 … n-2`, followed by the omitted entangler, which sits as
`CZ(n-2, n-1)` between the two top wires; (ii) as a matrix on the wires `0 … n-1`: `CZ · CS(θ)` with
`CZ = CZm` and `CS` the `[[C,-S],[S,C]]` of `cossin` — exactly the middle factor of `C02_csd_step`. -/
theorem C02_middle_placed (half : Θ → Θ) (negl : Θ → Bool)
    (hhalf : ∀ a, half a + half a = a) (hadd : ∀ a b, half (a + b) = half a + half b)
    (hnegl : ∀ a, negl a = true → a = 0) (m : Nat) (θ : Nat → Θ) (ψ : State R) :
    sem (place (ucr (stdOps half negl) Axis.Y Ent.CZ (m + 1) (fun j => θ j + θ j) false)
        (topFirst (m + 2))) ψ
      = denote (G.cz m (m + 1) : G Θ)
          (applyFam (fun b => (csBlock (θ (natOf (m + 1) (enc (m + 1) b))) : Mat2 R)) (m + 1) ψ) ∧
    sem (place (ucr (stdOps half negl) Axis.Y Ent.CZ (m + 1) (fun j => θ j + θ j) false)
        (topFirst (m + 2))) ψ
      = applyMat (m + 2) (CZtop m * CSmat (m + 1) θ : Matrix (QI (m + 2)) (QI (m + 2)) R) ψ ∧
    (CZtop m : Matrix (QI (m + 2)) (QI (m + 2)) R) = CZm R (QI m) :=
  ⟨middle_sem half negl hhalf hadd hnegl m θ ψ, middle_mat half negl hhalf hadd hnegl m θ ψ, rfl⟩

/-- **C02 (one `build_unitary` node on the real gate list).**  If `X = diag(u0,u1)·CS(θ)·diag(v0,v1)`
(the `cossin` specification), the left part `Lt` denotes `diag(v0, v1)` and the right part `Rt`
denotes `diag(u0, u1·Z)` (`u1` with the right half of its columns negated), then left part, the
model's middle gate list on `[n-1] + range(n-1)`, right part denote `X` on every state:
`C02_csd_nolast` and `C02_csd_step` joined on the wires the model uses. -/
theorem C02_csd_node (half : Θ → Θ) (negl : Θ → Bool)
    (hhalf : ∀ a, half a + half a = a) (hadd : ∀ a b, half (a + b) = half a + half b)
    (hnegl : ∀ a, negl a = true → a = 0) (m : Nat) (θ : Nat → Θ)
    (u0 u1 v0 v1 : Matrix (QI (m + 1)) (QI (m + 1)) R) (X : Matrix (QI (m + 2)) (QI (m + 2)) R)
    (hX : X = bd u0 u1 * CSmat (m + 1) θ * bd v0 v1)
    (Lt Rt : State R → State R)
    (hL : ∀ ψ, Lt ψ = applyMat (m + 2) (bd v0 v1) ψ)
    (hR : ∀ ψ, Rt ψ = applyMat (m + 2) (bd u0 (u1 * Zlow m)) ψ) (ψ : State R) :
    Rt (sem (place (ucr (stdOps half negl) Axis.Y Ent.CZ (m + 1) (fun j => θ j + θ j) false)
        (topFirst (m + 2))) (Lt ψ)) = applyMat (m + 2) X ψ := by
  rw [hR, middle_mat half negl hhalf hadd hnegl, hL, ← applyMat_mul, ← applyMat_mul, hX]
  exact congrArg (fun M => applyMat (m + 2) M ψ)
    (csd_step_blocks (κ := QI m) u0 u1 v0 v1 (CSmat (m + 1) θ))

variable [StarRing R]

/-- **C02 (QSD, the whole recursion).**  For every `n`, every isometry mode `iso` and every matrix
`X` on `n` qubits: IF `tape`/`leaves` are the record of a run of `build_unitary(X, "qsd", iso)` in
which at every node the kernel outputs meet their specifications (`QsdSynth`: every `cossin` call
returned `X' = diag(u0,u1)·CS(θ)·diag(v0,v1)`; every `_compute_gates` call on a pair `(U1,U2)`
returned `V`, `d = e^{iα}` with `V V† = 1`, `U1 U2† = V diag(d²) V†`, and `U2† U2 = 1`; every leaf
`UnitaryGate` denotes its matrix on the wires `0 … n'-1`), THEN the gate list the model emits
(`buildUnitary … qsd`: leaves, `ry`/`cz` of every CZ multiplexer placed on `[n'-1] + range(n'-1)`,
`UCRZ(-2α)` objects with their multiplexer specification) reads exactly the tape, uses exactly the
leaf denotations, and denotes on EVERY state a matrix `C` acting on the wires `0 … n-1`
(little-endian, identity on all other wires) whose columns with the top `iso` qubits reading `0`
are those of `X`; for `iso = 0`, `C = X`.  `hex` is the conjugation law `conj e^{ia/2} = e^{-ia/2}`
of the rotation vocabulary (it holds in the `ℝ → ℂ` instance: `hex_real`). -/
theorem C02_qsd_full (half : Θ → Θ) (negl : Θ → Bool)
    (hhalf : ∀ a, half a + half a = a) (hadd : ∀ a b, half (a + b) = half a + half b)
    (hnegl : ∀ a, negl a = true → a = 0) (hex : ∀ a : Θ, star (ex a : R) = ex (-a))
    {n iso : Nat} {X : Matrix (QI n) (QI n) R} {tape : Tape Θ} {leaves : List (Leaf R)}
    (h : QsdSynth (.one n iso X) tape leaves) :
    (buildUnitary (stdUOps half negl) Dec.qsd n iso tape).2 = [] ∧
    ∃ C : Matrix (QI n) (QI n) R,
      (∀ ψ : State R, runUG (buildUnitary (stdUOps half negl) Dec.qsd n iso tape).1 leaves ψ
        = (applyMat n C ψ, [])) ∧
      (∀ i j, TopZero n iso j → C i j = X i j) ∧ (iso = 0 → C = X) := by
  obtain ⟨h1, C, h2, h3⟩ := qsd_full half negl hhalf hadd hnegl hex h
  exact ⟨h1, C, h2, h3, fun h0 => by subst h0; exact h3.eq⟩

/-- **C02 (QSD in isometry mode, state level)** — corollary of `C02_qsd_full` and the
leading-column argument of `C02_iso_columns` (`iso_step`): on every state supported on labels whose
wires `n-iso … n-1` read `0` (the isometry's inputs; all other wires arbitrary) the model's whole
gate list acts like `X`. -/
theorem C02_qsd_iso_full (half : Θ → Θ) (negl : Θ → Bool)
    (hhalf : ∀ a, half a + half a = a) (hadd : ∀ a b, half (a + b) = half a + half b)
    (hnegl : ∀ a, negl a = true → a = 0) (hex : ∀ a : Θ, star (ex a : R) = ex (-a))
    {n iso : Nat} {X : Matrix (QI n) (QI n) R} {tape : Tape Θ} {leaves : List (Leaf R)}
    (h : QsdSynth (.one n iso X) tape leaves) (ψ : State R)
    (hψ : ∀ b : Bits, (∃ q, n - iso ≤ q ∧ q < n ∧ b q = true) → ψ b = 0) :
    runUG (buildUnitary (stdUOps half negl) Dec.qsd n iso tape).1 leaves ψ = (applyMat n X ψ, []) := by
  obtain ⟨_, C, h2, h3⟩ := qsd_full half negl hhalf hadd hnegl hex h
  rw [h2, applyMat_leadEq h3 ψ hψ]

end full

/-- non-vacuity of `C02_qsd_full` / `C02_qsd_iso_full` in the `ℝ → ℂ` instance: the rotation
hypotheses hold (`half a = a/2`, exact-zero test, `hex_real`), and there is a complete valid record
for `n = 3` (one `cossin` node, two demultiplexed pairs, four two-qubit leaves) with the non-identity
target `X = CZ(1, 2)` (`θ = 0`, `u1 = Z⊗1`, so that the A.1-flipped block is `1`) — so the whole
gate list `buildUnitary qsd 3 0` (4 leaves, 2 UCRZ, the CZ multiplexer) denotes `CZ(1,2)`; likewise
in mode `iso = 1` (3 leaves). -/
example : ∃ (tape : Tape ℝ) (leaves : List (Leaf ℂ)),
    tape.length = 3 ∧ leaves.length = 4 ∧
    ∀ ψ : State ℂ, runUG (buildUnitary (stdUOps (fun a : ℝ => a / 2) (fun a => decide (a = 0)))
        Dec.qsd 3 0 tape).1 leaves ψ = (applyMat 3 (CZtop 1) ψ, []) := by
  obtain ⟨tape, leaves, hs, ht, hl⟩ := synth_cz3
  obtain ⟨_, C, hC, _, hCX⟩ := C02_qsd_full (fun a : ℝ => a / 2) (fun a => decide (a = 0))
    (fun a => by ring) (fun a b => by ring) (fun a h => by simpa using h) hex_real hs
  exact ⟨tape, leaves, ht, hl, fun ψ => by rw [hC, hCX rfl]⟩

example : ∃ (tape : Tape ℝ) (leaves : List (Leaf ℂ)),
    QsdSynth (.one 3 1 (CZtop 1 : Matrix (QI 3) (QI 3) ℂ)) tape leaves ∧ leaves.length = 3 := by
  obtain ⟨tape, leaves, hs, _, hl⟩ := synth_cz3_iso
  exact ⟨tape, leaves, hs, hl⟩

/-! ### whole-recursion assembly (CSD) -/

/-- **C02 (CSD, the whole recursion).**  For every `n`, `iso`, `X`: IF `tape`/`leaves` are the record
of a run of `build_unitary(X, "csd", iso)` in which every kernel output meets its specification
(`CsdSynth`: the top `cossin` of every `build_unitary` level, and in `_multiplexed_csd` one `cossin`
per block of every list, each returning `B_h = diag(u0_h,u1_h)·CS(θ_h)·diag(v0_h,v1_h)` with `theta`
of the right length; every leaf `UnitaryGate` denotes its matrix; every `UCGate(gate_list)` on
`[0] + (1 … n-1)` denotes the multiplexed 2×2 blocks, block number = the number on wires `1 … n-1`;
`UCRYGate` = ideal multiplexer), THEN the gate list the model emits (`buildUnitary … csd`: the
interleaved left / right block lists recursively, `UCRYGate(2θ)` on `[s-1] + (0 … s-2, s … n-1)` —
target in the MIDDLE, controls below and above it, proved to read block `h` from the wires above
and the diagonal index from the wires below —, at the top level the CZ multiplexer without its last
CZ and the sign-flipped `u1`) reads exactly the tape, uses exactly the leaf denotations and denotes
on every state a matrix `C` on the wires `0 … n-1` whose columns with the top `iso` qubits `0` are
those of `X` (`C = X` for `iso = 0`); on states whose wires `n-iso … n-1` read `0` it acts like `X`. -/
theorem C02_csd_full {Θ R : Type} [AddCommGroup Θ] [CommRing R] [RotSem Θ R] [RotLaws Θ R]
    (half : Θ → Θ) (negl : Θ → Bool)
    (hhalf : ∀ a, half a + half a = a) (hadd : ∀ a b, half (a + b) = half a + half b)
    (hnegl : ∀ a, negl a = true → a = 0)
    {n iso : Nat} {X : Matrix (QI n) (QI n) R} {tape : Tape Θ} {leaves : List (Leaf R)}
    (h : CsdSynth (.one n iso X) tape leaves) :
    (buildUnitary (stdUOps half negl) Dec.csd n iso tape).2 = [] ∧
    ∃ C : Matrix (QI n) (QI n) R,
      (∀ ψ : State R, runUG (buildUnitary (stdUOps half negl) Dec.csd n iso tape).1 leaves ψ
        = (applyMat n C ψ, [])) ∧
      (∀ i j, TopZero n iso j → C i j = X i j) ∧ (iso = 0 → C = X) ∧
      (∀ ψ : State R, (∀ b : Bits, (∃ q, n - iso ≤ q ∧ q < n ∧ b q = true) → ψ b = 0) →
        applyMat n C ψ = applyMat n X ψ) := by
  obtain ⟨h1, C, h2, h3⟩ := csd_full half negl hhalf hadd hnegl h
  exact ⟨h1, C, h2, h3, fun h0 => by subst h0; exact h3.eq, fun ψ hψ => applyMat_leadEq h3 ψ hψ⟩

/-- non-vacuity of `C02_csd_full` in the `ℝ → ℂ` instance: a complete valid record for `n = 3`,
`X = CZ(1, 2)` (one top `cossin`, two lists of two blocks with one `cossin` per block — tape of 5
entries —, four `UCGate` leaves); the whole gate list `buildUnitary csd 3 0` denotes `CZ(1,2)`. -/
example : ∃ (tape : Tape ℝ) (leaves : List (Leaf ℂ)),
    tape.length = 5 ∧ leaves.length = 4 ∧
    ∀ ψ : State ℂ, runUG (buildUnitary (stdUOps (fun a : ℝ => a / 2) (fun a => decide (a = 0)))
        Dec.csd 3 0 tape).1 leaves ψ = (applyMat 3 (CZtop 1) ψ, []) := by
  obtain ⟨tape, leaves, hs, ht, hl⟩ := csynth_cz3
  obtain ⟨_, C, hC, _, hCX, _⟩ := C02_csd_full (fun a : ℝ => a / 2) (fun a => decide (a = 0))
    (fun a => by ring) (fun a b => by ring) (fun a h => by simpa using h) hs
  exact ⟨tape, leaves, ht, hl, fun ψ => by rw [hC, hCX rfl]⟩

end Qclib
