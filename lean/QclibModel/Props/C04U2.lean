import QclibModel.Proofs.Mcu2Ladder
import QclibModel.Proofs.Mcu2Run
import QclibModel.Proofs.Mcu2Qdmcu
import QclibModel.Proofs.Mcu2Base
import QclibModel.Proofs.Mcu2OpFull
import QclibModel.Proofs.Mcu2OpInst
import QclibModel.Proofs.McxAoQdmcu
import QclibModel.Proofs.Mcu2ErrFull
/-
  C04, part B — the U(2) multi-controlled gates `Ldmcu`, `Qdmcu`, `Mcg`, `MCU`
  (qclib/gates/ldmcu.py, qdmcu.py, mcg.py, mcu.py).  Property theorems only; the models are in
  `Model/Mcu2.lean`, the ideal objects in `Spec/Mcu2.lean`, the proofs in `Proofs/Mcu2*.lean`.
-/
namespace Qclib
open Mcu2

/-- **The pair schedule of `_c1c2` / `_compute_qubit_pairs`** (all `n`, both sweeps).
For `step = 1` (`fwd = true`: `start = 0`, descending) and `step = -1` (`start = 1`, ascending) the
sorted list (1) contains exactly the pairs `start ≤ control < target < n`, (2) each once, (3) is
ordered by anti-diagonals `control + target` as arXiv:2203.11882 requires, (4) two different gates
of one anti-diagonal act on disjoint wires (so every anti-diagonal is one layer: linear depth),
and (5) respects the dependencies: in the descending sweep no gate targets a wire that a later
gate uses as control, in the ascending sweep no gate's control is the target of a later gate. -/
theorem C04_pairs (n : Nat) (fwd : Bool) :
    (∀ c t, (c, t) ∈ qubitPairs n fwd ↔ (startOf fwd ≤ c ∧ c < t ∧ t < n)) ∧
    (qubitPairs n fwd).Nodup ∧
    (qubitPairs n fwd).Pairwise (fun a b => if fwd then key b ≤ key a else key a ≤ key b) ∧
    (∀ a ∈ qubitPairs n fwd, ∀ b ∈ qubitPairs n fwd, a ≠ b → key a = key b →
        a.1 ≠ b.1 ∧ a.1 ≠ b.2 ∧ a.2 ≠ b.1 ∧ a.2 ≠ b.2) ∧
    (qubitPairs n fwd).Pairwise (fun a b => if fwd then a.2 ≠ b.1 else a.1 ≠ b.2) := by
  refine ⟨fun c t => mem_qubitPairs, nodup_qubitPairs n fwd, qubitPairs_sorted n fwd, ?_,
    qubitPairs_dep n fwd⟩
  intro a ha b hb hne hk
  obtain ⟨a1, a2⟩ := a
  obtain ⟨b1, b2⟩ := b
  exact antidiag_disjoint (mem_qubitPairs.mp ha).2.1 (mem_qubitPairs.mp hb).2.1 hne hk

/-- The schedule of the paper's example size, including the order inside an anti-diagonal
(target-major comprehension order kept by the stable sort, also under `reverse=True`). -/
example : qubitPairs 4 true = [(2, 3), (1, 3), (1, 2), (0, 3), (0, 2), (0, 1)] ∧
    qubitPairs 5 false = [(1, 2), (1, 3), (2, 3), (1, 4), (2, 4), (3, 4)] := by
  constructor <;>
    simp [qubitPairs, sortPairs, rawPairs, List.mergeSort, key, List.range, List.range.loop,
      List.range', List.MergeSort.Internal.splitInTwo]

/-
  FULL STATEMENT (now proved: `C04_ldmcu_full` at the end of this file):  for every 2×2 unitary `U = P·diag(e^{iα}, e^{iβ})·P†`, every `k ≥ 1`
  and every pattern, `⟦ldmcu k cs⟧ = C^k(U)` in the amplitude-function semantics, where
  `croot c t cv p s` denotes the controlled `P·diag(e^{iαs/p}, e^{iβs/p})·P†` and `crx c t p s`
  the controlled `RX(sπ/p)`.

  PROVED (`C04_ladder_diag_partial`): the exponent bookkeeping of the four sweeps, for all `k` and
  all control inputs `x`.  Every scheduled gate `(c, t)` adds `signal/param` (an exponent of `U` on
  the target, a number of half-turns `RX(π·w)` on a control wire) to wire `t` when its control
  reads 1.  By `C04_pairs` (5) every gate of sweep 1 sees its control *before* that wire is
  rotated (value `x c`), every gate of sweep 2 sees its control *after* all rotations of sweeps 1–2
  (value `mid x c` = `x c` flipped iff all lower wires are 1, because the wire has received the
  integer number of half-turns `[all lower wires are 1]` and `RX(π) = -iX`); likewise sweep 3 sees
  `mid x`, sweep 4 the restored `x`.  With these values:
    * sweeps 1+2 deliver to every wire `1 ≤ t ≤ k` exactly `1` if all wires below `t` read 1 and `0`
      otherwise — for the target `t = k`: the product of the applied roots is `U^1` when all
      controls are set and `U^0 = I` otherwise;
    * sweeps 3+4 deliver to every control wire `1 ≤ t < k` the opposite amount, so the controls end
      with zero net rotation (restored, phases included since `RX(a)RX(-a) = I`);
    * wire 0 is never a target.
  All identities are exact in ℚ (not only modulo the period of `RX`).

  `C04_ladder_run_partial` below strengthens this: it *runs* the sorted schedule gate by gate, so
  the values the gates see are derived from the order, not postulated.

  MISSING for the full statement: the operator-level step — that in the amplitude semantics a
  control wire that has received an integer number `m` of half-turns carries `(-iX)^m` applied to
  its input (so it is again a basis state and the values above are the ones the gates see), that
  `RX` angles and exponents of the diagonalised `U` add, and the conjugation by `P` and by the
  `ctrl_state` X gates.  The Operator oracle checks the full statement numerically.
-/

/-- **Exponent bookkeeping of the `Ldmcu` ladder** (all `k`, all control inputs). See the comment
above for the reading of `arrive`, `mid`, `andQ`. -/
theorem C04_ladder_diag_partial (k : Nat) (x : Nat → Bool) :
    (∀ t, 1 ≤ t → t ≤ k →
      arrive (k + 1) true true x t + arrive (k + 1) true false (mid x) t
        = if (∀ i < t, x i = true) then 1 else 0) ∧
    (∀ t, 1 ≤ t → t < k →
      arrive k false true (mid x) t + arrive k false false x t
        = -(if (∀ i < t, x i = true) then 1 else 0)) ∧
    (∀ n first fwd v, arrive n first fwd v 0 = 0) := by
  have hand : ∀ t, andQ x t = if (∀ i < t, x i = true) then 1 else 0 := by
    intro t
    simp only [andQ, allBelow_iff]
  refine ⟨fun t h1 h2 => ?_, fun t h1 h2 => ?_, fun n first fwd v => arrive_zero n first fwd v⟩
  · rw [sweeps12 k x t h1 h2, hand]
  · rw [sweeps34 k x t h1 h2, hand]

/-- Non-vacuity: three controls all set — the target (wire 3) receives the exponents
`1/4 + 1/4 + 1/2` in sweep 1 and nothing is taken back in sweep 2 (the flipped controls read 0). -/
example : arrive 4 true true (fun _ => true) 3 = 1 ∧
    arrive 4 true false (mid (fun _ => true)) 3 = 0 := by
  constructor <;>
    simp [arrive, qubitPairs, sortPairs, rawPairs, List.mergeSort, key, List.range,
      List.range.loop, List.range', List.MergeSort.Internal.splitInTwo, wt, signal, param,
      exponent, mid, allBelow]; norm_num

/-- Control, target and weight `signal/param` of a ladder gate of the skeleton. -/
def lgWeight {Θ : Type} : LG Θ → Option (Nat × Nat × ℚ)
  | .croot c t _ p s => some (c, t, (s : ℚ) / (p : ℚ))
  | .crx c t p s => some (c, t, (s : ℚ) / (p : ℚ))
  | _ => none

/-- The gate list the model emits for one sweep (`Mcu2.c1c2`, the list diffed against the real
`_c1c2`) is the sorted schedule with the weights `wt` the bookkeeping theorems speak about. -/
theorem C04_ladder_weights {Θ : Type} (n : Nat) (first fwd : Bool) :
    ((c1c2 n first fwd : List (LG Θ)).map lgWeight)
      = (qubitPairs n fwd).map (fun pr => some (pr.1, pr.2, wt pr first fwd)) := by
  simp only [c1c2, List.map_map]
  apply List.map_congr_left
  intro pr _
  simp only [Function.comp]
  split <;> rfl

/-- **The ladder run gate by gate** (all `k ≥ 1`, all control inputs) — the operational form of
the bookkeeping.  `runSweep` executes the *sorted* schedule of one `_c1c2` call in list order under
the classical-propagation semantics (`Proofs/Mcu2Run.lean`): each wire carries its input bit and
the rational number of half-turns / the exponent of `U` received so far; a gate `(c, t)` requires
its control to have received an *integer* number of half-turns (otherwise the run fails with
`none`), reads the input bit flipped iff that integer is odd (`RX(π·m) = (-iX)^m`), and if it reads
1 adds `signal/param` to wire `t`.  Statement: the four sweeps of `Ldmcu._define` never fail, the
target `k` ends with exponent `1` if all controls are 1 and `0` otherwise (`U` resp. `I`), and
every control wire ends with zero net rotation (restored).
Still missing for the operator statement `⟦ldmcu k cs⟧ = C^k(U)`: that this semantics is the
amplitude semantics restricted to basis inputs (RX angles add, `RX(π) = -iX`, the roots of the
diagonalised `U` multiply by adding exponents, phases cancel because every control ends with
net rotation exactly 0 — not only modulo 4), linearity, and the X conjugation of `ctrl_state`. -/
theorem C04_ladder_run_partial (k : Nat) (hk : 1 ≤ k) (x : Nat → Bool) :
    runSweep x k false false (runSweep x k false true
        (runSweep x (k + 1) true false (runSweep x (k + 1) true true (some fun _ => 0))))
      = some (fun q => if q = k then (if (∀ i < k, x i = true) then 1 else 0) else 0) := by
  rw [run12, run34]
  congr 1
  funext q
  simp only [andQ, allBelow_iff, hk, and_true]

/-- Non-vacuity of the failure mode: a control that has received half a half-turn is not a basis
state and a gate controlled by it makes the run fail. -/
example : stepG (fun _ => true) (fun _ => 1) (some fun _ => 1 / 2) (0, 1) = none := by
  simp [stepG, seen, seenVal]

/-- **One level of the `Qdmcu` recursion** (Theorem 4 of Iten et al.).  Over any commutative ring,
for 2×2 matrices with `V·V = U`, `V'·V = 1 = V·V'`, control literals `lits` of the remaining
controls, the peeled control `c` (required value `cv`) and target `t`, all wires distinct: the
time-ordered sequence `C_c(V) ; MCX(lits → c) ; C_c(V') ; MCX(lits → c) ; C^lits(V)` with ideal MCX
gates equals `C^{(c,cv)::lits}(U)` on every amplitude function (superposed inputs included). -/
theorem C04_qdmcu_step {R : Type} [CommRing R] (U V V' : Mat2 R) (hVV : V * V = U)
    (h1 : V' * V = 1) (h2 : V * V' = 1) (lits : List (Nat × Bool)) (c t : Nat) (cv : Bool)
    (hct : c ≠ t) (hc : ∀ l ∈ lits, l.1 ≠ c) (ht : ∀ l ∈ lits, l.1 ≠ t) (ψ : State R) :
    applyMcu lits V t (applyMcu lits Mat2.X c (applyMcu [(c, cv)] V' t
        (applyMcu lits Mat2.X c (applyMcu [(c, cv)] V t ψ))))
      = applyMcu ((c, cv) :: lits) U t ψ :=
  qdmcu_step U V V' hVV h1 h2 lits c t cv hct hc ht ψ

/-- **The whole `Qdmcu` recursion** (all `k ≥ 1`, all patterns, all wire assignments).  Given exact
square roots `V (d+1)² = V d` with two-sided inverses `W d` and ideal multi-controlled X gates, the
recursion of `Qdmcu._define` (`qdIdeal`: at each level the control `controls[-1]` with the
character `ctrl_state[0]` is peeled, the rest of the string goes to the MCX and to the recursive
call — the literal list is `qdLits controls ctrl_state`) denotes the multi-controlled `V d` under
exactly these literals, on every amplitude function.  With `V 0 = U`, `d = 0`: `C^k(U)`.
Assumed, not proved here: that the code's `LinearMcx(action_only=True)` with the real target as
dirty ancilla, followed later by its inverse, acts as the ideal MCX pair (C05 proves the exact
`LinearMcx`; the action-only pair is covered by the Operator oracle), and that `custom_sqrtm`
returns an exact square root.  `C04_qdmcu_full` (end of this file) removes the first assumption. -/
theorem C04_qdmcu {R : Type} [CommRing R] (V W : Nat → Mat2 R)
    (hsq : ∀ d, V (d + 1) * V (d + 1) = V d) (hl : ∀ d, W d * V d = 1) (hr : ∀ d, V d * W d = 1)
    (t : Nat) (lits : List (Nat × Bool)) (hne : lits ≠ [])
    (hnd : (lits.map Prod.fst).Nodup) (ht : ∀ l ∈ lits, l.1 ≠ t) (d : Nat) (ψ : State R) :
    qdIdeal V W t d lits ψ = applyMcu lits (V d) t ψ :=
  qdIdeal_eq V W hsq hl hr t lits hne hnd ht d ψ

/-- Non-vacuity: over ℤ, `V d = -I` for `d ≥ 1` and `V 0 = I` satisfy the hypotheses
(`(-I)² = I`); and the pattern bookkeeping on a concrete instance: controls `[0,1,2]`, pattern
`"011"` — control 2 must read 0, controls 1 and 0 must read 1. -/
example : (∀ d, (fun d => if d = 0 then (1 : Mat2 ℤ) else ⟨-1, 0, 0, -1⟩) (d + 1)
      * (fun d => if d = 0 then (1 : Mat2 ℤ) else ⟨-1, 0, 0, -1⟩) (d + 1)
      = ⟨1, 0, 0, 1⟩) ∧
    qdLits [0, 1, 2] [false, true, true] = [(2, false), (1, true), (0, true)] := by
  refine ⟨fun d => ?_, by decide⟩
  show Mat2.mul _ _ = _
  simp [Mat2.mul]

/-- **`Mcg` dispatch** (decision table, all `k`, patterns and flags).  `Mcg._define` takes exactly
one of five branches, determined by `(k, check_su2, up_to_diagonal)`; in the first four the callee receives the same matrix (`U^(1/1)`), the controls `0..k-1` in order, the target
`k` and the unchanged pattern: no controls ↦ the plain unitary; one control ↦ the singly
controlled unitary reading the pattern's only character; SU(2) ↦ `Ldmcsu`; otherwise `Ldmcu`,
except with `up_to_diagonal`, where a nested `Mcg` receives the SU(2) normalisation of `U` (tag
`"mcg:su2"`; the result then equals `C^k(U)` only up to a diagonal — outside the exact property). -/
theorem C04_mcg_dispatch {Θ : Type} (k : Nat) (cs : Option (List Bool)) (su2 utd : Bool) :
    (mcg k cs su2 utd : Option (List (LG Θ))) =
      (match mcgCallee k su2 utd with
        | .plain => some [LG.root 0 1 1]
        | .controlled => some [LG.croot 0 1 ((cs.getD [true]).getD 0 true) 1 1]
        | .ldmcsu => some [LG.call "ldmcsu" (List.range k) k cs 1 1]
        | .ldmcu => some [LG.call "Ldmcu" (List.range k) k cs 1 1]
        | .mcgSu2 => some [LG.call "mcg:su2" (List.range k) k cs 1 1]) ∧
    (mcgCallee k su2 utd = .plain ↔ k = 0) ∧
    (mcgCallee k su2 utd = .controlled ↔ k = 1) ∧
    (mcgCallee k su2 utd = .ldmcsu ↔ 2 ≤ k ∧ su2 = true) ∧
    (mcgCallee k su2 utd = .ldmcu ↔ 2 ≤ k ∧ su2 = false ∧ utd = false) ∧
    (mcgCallee k su2 utd = .mcgSu2 ↔ 2 ≤ k ∧ su2 = false ∧ utd = true) := by
  unfold mcg mcgCallee
  by_cases h0 : k = 0
  · subst h0; simp
  · by_cases h1 : k = 1
    · subst h1; simp
    · have h2 : 2 ≤ k := by omega
      cases su2 <;> cases utd <;> simp [h0, h1, h2]

example : mcgCallee 3 false false = .ldmcu ∧ mcgCallee 3 true true = .ldmcsu ∧
    mcgCallee 1 false true = .controlled := by decide

open Real in
/-- **Base-control count of `MCU`** over ℝ (`numBaseR angle ε = ⌈log₂(angle / arccos(1-ε²/2))⌉ + 1`,
the exact shadow of `_get_num_base_ctrl_qubits` for a positive selected eigen-angle).  For
`angle > 0` and `0 < ε ≤ 2`: (1) `angle / 2^(b-1) ≤ arccos(1-ε²/2)`; (2) no smaller integer has
this property; (3) `arccos(1-ε²/2) = 2·arcsin(ε/2)`; hence (4) `2·sin(angle / 2^b) ≤ ε`. -/
theorem C04_mcu_base (angle ε : ℝ) (ha : 0 < angle) (h0 : 0 < ε) (h2 : ε ≤ 2) :
    angle / (2 : ℝ) ^ (numBaseR angle ε - 1) ≤ arccos (1 - ε ^ 2 / 2) ∧
    (∀ b' : ℤ, b' < numBaseR angle ε → arccos (1 - ε ^ 2 / 2) < angle / (2 : ℝ) ^ (b' - 1)) ∧
    arccos (1 - ε ^ 2 / 2) = 2 * arcsin (ε / 2) ∧
    2 * sin (angle / (2 : ℝ) ^ (numBaseR angle ε)) ≤ ε :=
  ⟨(numBase_spec ha (ne_of_gt h0)).1, (numBase_spec ha (ne_of_gt h0)).2, thetaEps_eq h0.le h2,
    numBase_sin ha h0 h2⟩

/-- Non-vacuity / sanity: for `U = X` (`angle = π`) the count is at least 2 for every `ε < 2`
(one base control would need `π ≤ arccos(1-ε²/2)`, i.e. `ε = 2`). -/
example (ε : ℝ) (h0 : 0 < ε) (h2 : ε < 2) : 2 ≤ numBaseR Real.pi ε := by
  by_contra h
  have hb : numBaseR Real.pi ε - 1 ≤ 0 := by omega
  have := (numBase_le_iff Real.pi_pos (ne_of_gt h0) 0).mp hb
  simp only [zpow_zero, div_one] at this
  have h3 : Real.arccos (1 - ε ^ 2 / 2) < Real.pi := by
    have hne : Real.arccos (1 - ε ^ 2 / 2) ≠ Real.pi := by
      intro he
      have := Real.arccos_eq_pi.mp he
      nlinarith
    exact lt_of_le_of_ne (Real.arccos_le_pi _) hne
  exact absurd this (not_le.mpr h3)

/-
  FULL STATEMENT (now proved: `C04_mcu_error`, with the exact circuit-versus-ideal relation
  `C04_mcu_operator`, further down in this file): whenever `MCU.__init__` accepts, the spectral
  norm of `⟦mcu k b cs⟧ - C^k(U)` is at most `ε`.
  `C04_mcu_error_partial` is the one-qubit bound used there.  The truncated ladder omits the root
  `U^(1/2^(b-1))` of base control 0; in `U`'s eigenbasis that factor is
  `diag(e^{iφ/2^(b-1)}, e^{iψ/2^(b-1)})` with `|ψ| ≤ |φ| = angle ≤ π` (the selected angle is the one
  with the larger `1 - cos`); both diagonal entries of `I - factor` have modulus
  `≤ 2·sin(angle/2^b) ≤ ε`.
  What was missing here and is supplied by `Proofs/Mcu2Err*.lean`: that the circuit differs from
  `C^k(U)` exactly by this factor on a subspace (the ladder bookkeeping above with the wire-0 root
  removed and the gates of base control 0 merged into one multi-target call), that a matrix
  `P·diag(d₀, d₁)·P†` moves no vector by more than `max|d_i|` times its length, and unitary
  invariance of the ℓ² norm.  The oracle checks the spectral-norm bound numerically on every
  accepted parameter set.
-/
open Real in
/-- **Size of the factor `MCU` omits.** -/
theorem C04_mcu_error_partial (angle ε φ ψ : ℝ) (ha : 0 < angle) (h0 : 0 < ε) (h2 : ε ≤ 2)
    (hφ : |φ| ≤ angle) (hψ : |ψ| ≤ angle) :
    ‖1 - Complex.exp (Complex.I * ((φ / (2 : ℝ) ^ (numBaseR angle ε - 1) : ℝ) : ℂ))‖ ≤ ε ∧
    ‖1 - Complex.exp (Complex.I * ((ψ / (2 : ℝ) ^ (numBaseR angle ε - 1) : ℝ) : ℂ))‖ ≤ ε := by
  have hp : (0 : ℝ) < (2 : ℝ) ^ (numBaseR angle ε - 1) := by positivity
  have hspec := (numBase_spec ha (ne_of_gt h0)).1
  have hpi : angle / (2 : ℝ) ^ (numBaseR angle ε - 1) ≤ π := le_trans hspec (arccos_le_pi _)
  have hz : angle / (2 : ℝ) ^ (numBaseR angle ε - 1) / 2 = angle / (2 : ℝ) ^ (numBaseR angle ε) := by
    rw [div_div, ← zpow_add_one₀ (by norm_num : (2 : ℝ) ≠ 0)]
    congr 2
    ring
  have key : ∀ x : ℝ, |x| ≤ angle →
      ‖1 - Complex.exp (Complex.I * ((x / (2 : ℝ) ^ (numBaseR angle ε - 1) : ℝ) : ℂ))‖ ≤ ε := by
    intro x hx
    have hx' : |x / (2 : ℝ) ^ (numBaseR angle ε - 1)| ≤ angle / (2 : ℝ) ^ (numBaseR angle ε - 1) := by
      rw [abs_div, abs_of_pos hp]
      exact div_le_div_of_nonneg_right hx hp.le
    have := norm_one_sub_exp_le hx' hpi
    rw [hz] at this
    exact le_trans this (numBase_sin ha h0 h2)
  exact ⟨key φ hφ, key ψ hψ⟩

example : (|(1 : ℝ)| ≤ 3 ∧ (0 : ℝ) < 3 ∧ (0 : ℝ) < 1 / 10 ∧ (1 / 10 : ℝ) ≤ 2) := by
  refine ⟨by norm_num, by norm_num, by norm_num, by norm_num⟩

/-! ### `Ldmcu` at operator level

`semLG Ur Rx gs` (`Proofs/Mcu2OpSem.lean`) is the amplitude semantics of the skeleton the model
emits and the tie compares with the real circuit: `croot c t cv p s` ↦ the gate `Ur (s/p)` on `t`
controlled by `c` reading `cv`, `crx c t p s` ↦ the controlled `Rx (s/p)`, `x q` ↦ `X`.  `Ur r`
stands for `U^r` (`Ldmcu._gate_u`), `Rx r` for `RX(π·r)`; the theorems use of them only
`OneParam` (`M (a+b) = M a · M b`, `M 0 = 1`) and `HalfTurn` (`Rx (±1)` anti-diagonal:
`RX(±π) = ∓iX`).  `C04_ldmcu_groups` shows the matrices the code computes have these properties. -/

/-- **C04_ldmcu_full — `Ldmcu(U, k, ctrl_state).definition` is the multi-controlled `U`.**
For every number of controls `k ≥ 1`, every pattern the code accepts (`None` included) and every
state `ψ` — superposed controls, any target state, any spectators — the gate list of the model
(X layer, the four sweeps of `_c1c2`, X layer) applies `U = Ur 1` to the target `k` iff control
`i` reads `ctrl_state[::-1][i]`, and is the identity otherwise; in particular every control wire
is restored, phases included.
Proof: on a basis input `x` of the controls the state after every prefix of the ladder is a
product "one-qubit matrix per wire applied to the input" (`Rx (a q)` on control `q`, `Ur (a k)` on
the target), the gate-by-gate run of `C04_ladder_run_partial` is exactly the evolution of the
exponents `a` (`sim_step`: a control that has received an integer number `m` of half-turns carries
the (anti-)diagonal `Rx m`, so it is again a basis state and the controlled gate fires or not;
exponents add by `OneParam`), the run ends with `a = [all controls 1]` on the target and `0` on
every control (`Rx 0 = 1`: the phases `(-i)^m` cancel because the net rotation is exactly `0`);
linearity of the semantics extends this from basis inputs to all states (`ext_of_basis`), and the
X layers turn "all ones" into the pattern.
Trusted (K4): that `_gate_u(U, p, s)` returns `Ur (s/p)` for a one-parameter group with
`Ur 1 = U` (`orthonormal_eig` + `np.power`; see `C04_ldmcu_groups`) and that qiskit's
`crx(θ)` is the controlled `RX(θ)`. -/
theorem C04_ldmcu_full {Θ R : Type} [CommRing R] [RotSem Θ R] (Ur Rx : ℚ → Mat2 R)
    (hU : OneParam Ur) (hR : OneParam Rx) (hH : HalfTurn Rx) (k : Nat) (hk : 1 ≤ k)
    (cs : Option (List Bool)) (gs : List (LG Θ)) (h : ldmcu k cs = some gs) (ψ : State R) :
    semLG Ur Rx gs ψ = applyMcu (patLits k (fun i => i) cs) (Ur 1) k ψ :=
  ldmcu_sem hU hR hH k hk cs gs h ψ

/-- **C04_ldmcu_basis** — the same on a computational-basis input `x` of the controls, without
the X layers: the four sweeps map every state whose controls read `x` to "`U^[all x_i = 1]` on the
target", all controls (and their phases) restored. -/
theorem C04_ldmcu_basis {Θ R : Type} [CommRing R] [RotSem Θ R] (Ur Rx : ℚ → Mat2 R)
    (hU : OneParam Ur) (hR : OneParam Rx) (hH : HalfTurn Rx) (k : Nat) (hk : 1 ≤ k)
    (x : Nat → Bool) (ψ : State R) (hs : CtrlBasis k x ψ) :
    semLG Ur Rx (ladder k : List (LG Θ)) ψ
      = applyMcu [] (Ur (if (∀ i < k, x i = true) then 1 else 0)) k ψ := by
  rw [ladder_basis hU hR hH k hk x ψ hs]
  simp only [andQ, allBelow_iff]

/-- **C04_ldmcu_groups** — the kernels have the assumed group structure.
(1) For an invertible `P` (inverse `P'`) and multiplicative characters `λ, μ : ℚ → R`, the powers
`P·diag(λ r, μ r)·P'` form a one-parameter group (this is `_gate_u`: `λ r = e^{iαr}`).
(2) Over any `RotLaws` instance with `I² = -1` and an additive `π : ℚ → Θ` with `cs (π 1) = 0`
(`cos(π/2) = 0`), `RX(π r) = [[cs, -I·sn], [-I·sn, cs]](π r)` is a one-parameter group with
anti-diagonal half-turns.  (3) Both hold for `Θ = ℝ`, `R = ℂ`, `π r = r·π`, `λ r = e^{iαr}`. -/
theorem C04_ldmcu_groups :
    (∀ {R : Type} [CommRing R] (P P' : Mat2 R) (lam mu : ℚ → R), P * P' = 1 → P' * P = 1 →
        (∀ a b, lam (a + b) = lam a * lam b) → lam 0 = 1 →
        (∀ a b, mu (a + b) = mu a * mu b) → mu 0 = 1 → OneParam (eigPow P P' lam mu)) ∧
    (∀ {Θ R : Type} [AddCommGroup Θ] [CommRing R] [RotSem Θ R] [RotLaws Θ R] (I : R)
        (pi : ℚ → Θ), I * I = -1 → (∀ a b, pi (a + b) = pi a + pi b) →
        (RotSem.cs (pi 1) : R) = 0 →
        OneParam (rxPow (R := R) I pi) ∧ HalfTurn (rxPow (R := R) I pi)) ∧
    (OneParam rxReal ∧ HalfTurn rxReal ∧
      ∀ (P P' : Mat2 ℂ) (α β : ℝ), P * P' = 1 → P' * P = 1 → OneParam (urReal P P' α β)) :=
  ⟨fun P P' lam mu h1 h2 hl hl0 hm hm0 => eigPow_oneParam P P' h1 h2 lam mu hl hl0 hm hm0,
   fun I pi hI hadd h1 => ⟨rxPow_oneParam I hI pi hadd, rxPow_halfTurn I pi hadd h1⟩,
   rxReal_oneParam, rxReal_halfTurn, fun P P' α β h1 h2 => urReal_oneParam P P' h1 h2 α β⟩

/-- Non-vacuity of `C04_ldmcu_full`: over `ℂ`, `U = P·diag(e^{iα}, e^{iβ})·P†` with the rotation
`P = [[3/5, -4/5], [4/5, 3/5]]` and arbitrary real `α, β`, three controls with pattern `101`:
the model emits a gate list, and it denotes "apply `U` to wire 3 iff wires 0, 1, 2 read 1, 0, 1". -/
example (α β : ℝ) (ψ : State ℂ) :
    ∃ gs : List (LG ℝ), ldmcu 3 (some (parseCs "101")) = some gs ∧
      semLG (urReal ⟨3 / 5, -(4 / 5), 4 / 5, 3 / 5⟩ ⟨3 / 5, 4 / 5, -(4 / 5), 3 / 5⟩ α β) rxReal gs ψ
        = applyMcu [(0, true), (1, false), (2, true)]
            ((⟨3 / 5, -(4 / 5), 4 / 5, 3 / 5⟩ : Mat2 ℂ)
              * Mat2.diag (Complex.exp (Complex.I * α)) (Complex.exp (Complex.I * β))
              * ⟨3 / 5, 4 / 5, -(4 / 5), 3 / 5⟩) 3 ψ := by
  obtain ⟨gs, hgs⟩ := ldmcu_defined (Θ := ℝ) 3 (by omega) (some (parseCs "101"))
    (by intro p hp; cases hp; decide)
  refine ⟨gs, hgs, ?_⟩
  have hP : (⟨3 / 5, -(4 / 5), 4 / 5, 3 / 5⟩ : Mat2 ℂ) * ⟨3 / 5, 4 / 5, -(4 / 5), 3 / 5⟩ = 1 := by
    apply Mat2.ext' <;> simp [Mcsu.mat_mul_def, Mcsu.mat_one_def, Mat2.mul, Mat2.one] <;> norm_num
  have hP' : (⟨3 / 5, 4 / 5, -(4 / 5), 3 / 5⟩ : Mat2 ℂ) * ⟨3 / 5, -(4 / 5), 4 / 5, 3 / 5⟩ = 1 := by
    apply Mat2.ext' <;> simp [Mcsu.mat_mul_def, Mcsu.mat_one_def, Mat2.mul, Mat2.one] <;> norm_num
  rw [C04_ldmcu_full _ _ (urReal_oneParam _ _ hP hP' α β) rxReal_oneParam rxReal_halfTurn 3
    (by omega) _ gs hgs ψ, urReal_one]
  rfl

/-! ### `Qdmcu` with the real sub-circuits -/

/-- **C04_qdmcu_full — `Qdmcu(U, k, ctrl_state).definition` with the `LinearMcx(·,
action_only=True)` pairs expanded to primitive gates is the multi-controlled `U`.**  For every
`k ≥ 1`, every pattern of length `k` (or `None`) and every state: if the model emits the gate list
`gs` — at each level `C_c(V) ; LinearMcx(rest → c, ancilla = target, action_only) ; C_c(V†) ;
LinearMcx(…).inverse() ; recursive call`, the MCX circuits written out as `u`/`cx`/`ccx`/`mcx`/`x`
gates — then `gs` denotes "apply `U = Ur 1` to the target `k` iff control `k-1-j` reads
`ctrl_state[j]`" (`qdLits`).  Unlike `C04_qdmcu` nothing is assumed about the MCX sub-circuits:
`C05_linear_action_only` shows each pair is `S·MCX … MCX·S` with a relabelling `S` of borrowed
control wires that commutes with the controlled root between them.
Trusted (K4): `custom_sqrtm` returns exact roots of one matrix group (`OneParam Ur`,
`V_d = Ur (1/2^d)`; see `C04_ldmcu_groups`), qiskit's `.control(1, ctrl_state)`. -/
theorem C04_qdmcu_full {Θ R : Type} [AddCommGroup Θ] [CommRing R] [RotSem Θ R] [RotLaws Θ R]
    (o : McxAngles Θ) (hp : Pi8 R o) (Ur : ℚ → Mat2 R) (hU : OneParam Ur)
    (k : Nat) (cs : Option (List Bool)) (gs : List (LG Θ))
    (h : qdmcu o (fun x : Θ => -x) k cs = some gs) (Rx : ℚ → Mat2 R) (ψ : State R) :
    semLG Ur Rx gs ψ
      = applyMcu (qdLits (List.range k) (cs.getD (List.replicate k true))) (Ur 1) k ψ :=
  qdmcu_full o hp Ur hU k cs gs h Rx ψ

/-- Non-vacuity of `C04_qdmcu_full`: seven controls with pattern `0110101` (the first level uses
`LinearMcx(6, action_only=True)`: the split branch with a genuinely dirty leftover), the real gate
parameters, `U = Z` with its roots `diag(1, e^{iπ/2^d})`: the gate list exists and denotes the
multi-controlled `Z` under the literals `controls[6-j] ↦ ctrl_state[j]`. -/
example (Rx : ℚ → Mat2 ℂ) (ψ : State ℂ) :
    ∃ gs, qdmcu realAngles (fun x : ℝ => -x) 7 (some (parseCs "0110101")) = some gs ∧
      semLG phaseGroup Rx gs ψ
        = applyMcu [(6, false), (5, true), (4, true), (3, false), (2, true), (1, false), (0, true)]
            (phaseGroup 1) 7 ψ := by
  obtain ⟨gs, hgs⟩ : ∃ gs, qdmcu realAngles (fun x : ℝ => -x) 7 (some (parseCs "0110101"))
      = some gs := ⟨_, rfl⟩
  exact ⟨gs, hgs, C04_qdmcu_full (R := ℂ) realAngles pi8_real phaseGroup phaseGroup_oneParam 7 _ gs
    hgs Rx ψ⟩

/-! ### The approximate gate `MCU` at operator level

`semM Ur Rx gs` (`Proofs/Mcu2ErrSem.lean`) is `semLG` with one more clause: the multi-target call
`mtmcsu2 ctrls tgts rx` (`MultiTargetMCSU2.multi_target_mcsu2(circ, [RX(s_j·π/p_j)], ctrls, tgts)`,
which `MCU._c1c2` uses for the gates of base control 0 when there are extra controls) has its
ideal meaning — for every `j` in order, `Rx (s_j/p_j)` on `tgts[j]` iff all of `ctrls` read 1.
That `MultiTargetMCSU2.definition` has this meaning for two or more controls is
`C04_multitarget_spec`; `MCU` always calls it with `extra_q + 1 ≥ 2` controls. -/

/-- **C04_mcu_operator — what `MCU(U, k, error, ctrl_state).definition` denotes exactly.**
For every number of controls `k`, every base count `1 ≤ b ≤ k` (`b = n_ctrl_base`), every accepted
pattern and every state `ψ` (superposed controls, any target, any spectators): the gate list of
the model — X layer, the four truncated sweeps of `MCU._c1c2` with `k - b` extra controls, X layer —
denotes the exact multi-controlled `U = Ur 1` (control `i` reading `ctrl_state[::-1][i]`)
composed with a correction: the inverse `U^(-1/2^(b-1))` of the omitted root on the target,
controlled by the `k - b + 1` lowest controls only (same pattern).  So the circuit is exact
wherever one of the controls `0 … k-b` fails its pattern bit, and off by the factor
`U^(-1/2^(b-1))` on the target elsewhere — whatever the remaining `b - 1` controls read.
Proof: on a basis input of the controls the run of `C04_ladder_run_partial` is redone for the
kept schedule translated by `k - b` wires, the gates of base control 0 (moved into one
multi-target call at the end of their sweep, controlled by the wires `0 … k-b`) reading the virtual
bit `x_0 ∧ … ∧ x_{k-b}` (`runM12`, `runM34`, `simM_step`); linearity and the X layers as for
`C04_ldmcu_full`.  Trusted (K4): as for `C04_ldmcu_full`, plus the meaning of the multi-target
call stated above. -/
theorem C04_mcu_operator {Θ R : Type} [CommRing R] [RotSem Θ R] (Ur Rx : ℚ → Mat2 R)
    (hU : OneParam Ur) (hR : OneParam Rx) (hH : HalfTurn Rx) (k b : Nat) (hb : 1 ≤ b)
    (cs : Option (List Bool)) (gs : List (LG Θ)) (h : mcu k (b : Int) cs = some gs)
    (ψ : State R) :
    semM Ur Rx gs ψ
      = applyMcu (patLits k (fun i => i) cs) (Ur 1) k
          (applyMcu (patLits (k - b + 1) (fun i => i) cs) (Ur (-(1 / 2 ^ (b - 1)))) k ψ) :=
  mcu_sem_pos hU hR hH k b hb cs gs h ψ

/-- **C04_mcu_degenerate** — the two remaining accepted cases of `MCU.__init__`.  (1) A negative
base count (the code only rejects `0` and counts above `k`): every `range` of `_c1c2` is empty and
the definition is the identity on every state.  (2) No controls: the definition is `unitary(U)`. -/
theorem C04_mcu_degenerate {Θ R : Type} [CommRing R] [RotSem Θ R] (Ur Rx : ℚ → Mat2 R)
    (cs : Option (List Bool)) (gs : List (LG Θ)) (ψ : State R) :
    (∀ k b, 1 ≤ k → b < 0 → mcu k b cs = some gs → semM Ur Rx gs ψ = ψ) ∧
    (∀ b, mcu 0 b cs = some gs → semM Ur Rx gs ψ = applyMcu [] (Ur 1) 0 ψ) :=
  ⟨fun k b hk hb h => mcu_sem_neg k hk b hb cs gs h ψ, fun b h => mcu_sem_zero b cs gs h ψ⟩

/-- Non-vacuity of `C04_mcu_operator` / `C04_mcu_degenerate`: five controls, `b = 3` (two extra
controls: the multi-target calls `mtmcsu2 [0, 1, 2] [4, 3] …` are controlled by wires 0, 1, 2),
pattern `10110`, over `ℂ` with a non-diagonal `U = P·diag(e^{iα}, e^{iβ})·P†`: the model emits a
gate list, and it denotes `C^5(U)` (pattern) composed with `U^(-1/4)` controlled by wires
0, 1, 2. -/
example (α β : ℝ) (ψ : State ℂ) :
    ∃ gs : List (LG ℝ), mcu 5 3 (some (parseCs "10110")) = some gs ∧
      semM (urReal ⟨3 / 5, -(4 / 5), 4 / 5, 3 / 5⟩ ⟨3 / 5, 4 / 5, -(4 / 5), 3 / 5⟩ α β) rxReal gs ψ
        = applyMcu [(0, false), (1, true), (2, true), (3, false), (4, true)]
            (urReal ⟨3 / 5, -(4 / 5), 4 / 5, 3 / 5⟩ ⟨3 / 5, 4 / 5, -(4 / 5), 3 / 5⟩ α β 1) 5
            (applyMcu [(0, false), (1, true), (2, true)]
              (urReal ⟨3 / 5, -(4 / 5), 4 / 5, 3 / 5⟩ ⟨3 / 5, 4 / 5, -(4 / 5), 3 / 5⟩ α β
                (-(1 / 2 ^ (3 - 1)))) 5 ψ) := by
  obtain ⟨gs, hgs⟩ : ∃ gs : List (LG ℝ), mcu 5 3 (some (parseCs "10110")) = some gs := ⟨_, rfl⟩
  have hP : (⟨3 / 5, -(4 / 5), 4 / 5, 3 / 5⟩ : Mat2 ℂ) * ⟨3 / 5, 4 / 5, -(4 / 5), 3 / 5⟩ = 1 := by
    apply Mat2.ext' <;> simp [Mcsu.mat_mul_def, Mcsu.mat_one_def, Mat2.mul, Mat2.one] <;> norm_num
  have hP' : (⟨3 / 5, 4 / 5, -(4 / 5), 3 / 5⟩ : Mat2 ℂ) * ⟨3 / 5, -(4 / 5), 4 / 5, 3 / 5⟩ = 1 := by
    apply Mat2.ext' <;> simp [Mcsu.mat_mul_def, Mcsu.mat_one_def, Mat2.mul, Mat2.one] <;> norm_num
  exact ⟨gs, hgs, C04_mcu_operator _ _ (urReal_oneParam _ _ hP hP' α β) rxReal_oneParam
    rxReal_halfTurn 5 3 (by omega) _ gs hgs ψ⟩

/-- **C04_mcu_error — the error bound of the approximate multi-controlled gate, all `k`, all
states.**  Let `U = P·diag(e^{iα}, e^{iβ})·P†` with `P` unitary (`P·P† = P†·P = 1`: the
specification of `orthonormal_eig`, as in `C04_ldmcu_full`), let `angle > 0` be the selected
eigen-angle of `_get_num_base_ctrl_qubits` — the one with the larger `1 - cos`, i.e. `|α|, |β| ≤
angle` — and `0 < ε ≤ 2`.  If `MCU.__init__`/`_define` accept with the base count
`b = numBaseR angle ε = ⌈log₂(angle / arccos(1 - ε²/2))⌉ + 1` (any `b ≠ 0`, `b ≤ k`, negative
counts included) and emit the gate list `gs`, then for EVERY state `ψ` — superposed controls, any
target state — and every fixed background `bg` of the spectator wires,

  `Σ_f |(⟦gs⟧ψ - C^k(U)ψ)(f)|²  ≤  ε² · Σ_f |ψ(f)|²`,

both sums over all `2^(k+1)` basis labels `f` of the wires `0 … k` (`emb (k+1) bg f` is the label
with bits `f` there and `bg` elsewhere).  Equivalently `‖⟦gs⟧ - C^k(U)‖₂ ≤ ε` in the operator
(spectral) norm: this is the bound arXiv:2310.14974 claims and `error` promises.
Proof: `C04_mcu_operator` gives `⟦gs⟧ = C^k(U)∘D` with `D` the controlled `V = U^(-1/2^(b-1))`
(for `b < 0`: `⟦gs⟧ = 1`); on the two labels that differ only in the target the difference is
`W·(V - 1)` applied to the pair of amplitudes of `ψ` (or `0`), `W ∈ {U, 1}` preserves the length of
the pair, and `V - 1 = P·diag(e^{-iα/2^(b-1)} - 1, e^{-iβ/2^(b-1)} - 1)·P†` shrinks it by
`max|e^{iφ} - 1| ≤ 2·sin(angle/2^b) ≤ ε` (`C04_mcu_base`); summing the pairs gives the bound.
Trusted (K4): `np.linalg.eig`/`orthonormal_eig` return such `P, α, β`; floating-point evaluation
of `numBaseR` (`np.log2`, `np.arccos`, `np.ceil`) agrees with the exact value; the meaning of the
multi-target call (`C04_multitarget_spec`); qiskit's `crx`/`.control(1)`.  A selected angle
`≤ 0` is outside the statement (there `np.log2` yields `nan`/`-inf` and `int()` raises). -/
theorem C04_mcu_error (P : Mat2 ℂ) (hP1 : P * cadj P = 1) (hP2 : cadj P * P = 1)
    (α β angle ε : ℝ) (ha : 0 < angle) (hα : |α| ≤ angle) (hβ : |β| ≤ angle)
    (h0 : 0 < ε) (h2 : ε ≤ 2) (k : Nat) (cs : Option (List Bool)) (gs : List (LG ℝ))
    (h : mcu k (numBaseR angle ε) cs = some gs) (bg : Bits) (ψ : State ℂ) :
    ∑ f : Fin (k + 1) → Bool,
        Complex.normSq (semM (urReal P (cadj P) α β) rxReal gs ψ (emb (k + 1) bg f)
          - applyMcu (patLits k (fun i => i) cs) (urReal P (cadj P) α β 1) k ψ (emb (k + 1) bg f))
      ≤ ε ^ 2 * ∑ f : Fin (k + 1) → Bool, Complex.normSq (ψ (emb (k + 1) bg f)) :=
  mcu_error P hP1 hP2 α β angle ε ha hα hβ h0 h2 k cs gs h bg ψ

/-- Non-vacuity of `C04_mcu_error`: `U = P·diag(e^{iπ}, e^{i})·P†` with the rotation
`P = [[3/5, -4/5], [4/5, 3/5]]` (selected angle `π`), `ε = √2` (`arccos(1 - ε²/2) = π/2`, so the
base count is `⌈log₂ 2⌉ + 1 = 2`), three controls with pattern `101`: the constructor accepts with
one extra control, and the bound holds for every state. -/
example (bg : Bits) (ψ : State ℂ) :
    numBaseR Real.pi (Real.sqrt 2) = 2 ∧
    ∃ gs : List (LG ℝ), mcu 3 (numBaseR Real.pi (Real.sqrt 2)) (some (parseCs "101")) = some gs ∧
      ∑ f : Fin (3 + 1) → Bool,
        Complex.normSq (semM (urReal ⟨3 / 5, -(4 / 5), 4 / 5, 3 / 5⟩
              (cadj ⟨3 / 5, -(4 / 5), 4 / 5, 3 / 5⟩) Real.pi 1) rxReal gs ψ (emb (3 + 1) bg f)
          - applyMcu [(0, true), (1, false), (2, true)]
              (urReal ⟨3 / 5, -(4 / 5), 4 / 5, 3 / 5⟩ (cadj ⟨3 / 5, -(4 / 5), 4 / 5, 3 / 5⟩)
                Real.pi 1 1) 3 ψ (emb (3 + 1) bg f))
        ≤ Real.sqrt 2 ^ 2 * ∑ f : Fin (3 + 1) → Bool, Complex.normSq (ψ (emb (3 + 1) bg f)) := by
  have hb : numBaseR Real.pi (Real.sqrt 2) = 2 := by
    have h1 : thetaEps (Real.sqrt 2) = Real.pi / 2 := by
      rw [thetaEps, Real.sq_sqrt (by norm_num)]
      norm_num
    have h2 : Real.pi / (Real.pi / 2) = 2 := by
      field_simp
    rw [numBaseR, h1, h2, Real.logb_self_eq_one (by norm_num)]
    norm_num
  refine ⟨hb, ?_⟩
  obtain ⟨gs, hgs⟩ : ∃ gs : List (LG ℝ), mcu 3 2 (some (parseCs "101")) = some gs := ⟨_, rfl⟩
  have hcad : cadj (⟨3 / 5, -(4 / 5), 4 / 5, 3 / 5⟩ : Mat2 ℂ) = ⟨3 / 5, 4 / 5, -(4 / 5), 3 / 5⟩ := by
    apply Mat2.ext' <;> simp [cadj, map_ofNat]
  have hP : (⟨3 / 5, -(4 / 5), 4 / 5, 3 / 5⟩ : Mat2 ℂ) * cadj ⟨3 / 5, -(4 / 5), 4 / 5, 3 / 5⟩ = 1 := by
    rw [hcad]
    apply Mat2.ext' <;> simp [Mcsu.mat_mul_def, Mcsu.mat_one_def, Mat2.mul, Mat2.one] <;> norm_num
  have hP' : cadj (⟨3 / 5, -(4 / 5), 4 / 5, 3 / 5⟩ : Mat2 ℂ) * ⟨3 / 5, -(4 / 5), 4 / 5, 3 / 5⟩ = 1 := by
    rw [hcad]
    apply Mat2.ext' <;> simp [Mcsu.mat_mul_def, Mcsu.mat_one_def, Mat2.mul, Mat2.one] <;> norm_num
  have hgs' : mcu 3 (numBaseR Real.pi (Real.sqrt 2)) (some (parseCs "101")) = some gs := by
    rw [hb]; exact hgs
  refine ⟨gs, hgs', ?_⟩
  have hsq : (0 : ℝ) < Real.sqrt 2 := Real.sqrt_pos.mpr (by norm_num)
  have hle : Real.sqrt 2 ≤ 2 := by
    rw [Real.sqrt_le_left (by norm_num)]
    norm_num
  exact C04_mcu_error _ hP hP' Real.pi 1 Real.pi (Real.sqrt 2) Real.pi_pos
    (by rw [abs_of_pos Real.pi_pos])
    (by rw [abs_of_pos one_pos]; linarith [Real.two_le_pi]) hsq hle 3 _ gs hgs' bg ψ

end Qclib
