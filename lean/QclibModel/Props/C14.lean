import QclibModel.Proofs.MixedBits
import QclibModel.Proofs.MixedPurif
import QclibModel.Proofs.MixedReject
import QclibModel.Proofs.PyLemmas
import QclibModel.Gen.MixedWidth
/-
  C14 — MixedInitialize: the data register's reduced state is the requested ensemble; invalid
  probability vectors are rejected.  Property theorems only (model: Model/Mixed.lean, ideal objects:
  Spec/Mixed.lean, proofs: Proofs/Mixed{Bits,Purif,Reject}.lean).

  Reading of the code that the statements use (each item is tied to the source on every run):
  * flat index of the purified state = `x·2^a + i`, `x` = data index (wires `a..a+n-1`), `i` = aux
    index (wires `0..a-1`), `a = _num_ctrl_qubits = ⌈log₂ k⌉`;
  * `w = purification …` is the vector handed to the sub-initializer when `classical=True`;
  * `classical=False`: aux register prepared in `auxState` (√p zero-padded), then step `i`
    (`i = 0..k-1`) = sub-initializer of `ψ_i` controlled on the literals `ctrlLits a i`.
-/
namespace Qclib
open Qclib.Mixed Finset

/-- **C14 (index map, padding).**  For every `a`, every number of states `k` and of probabilities
`lenP`, every data index `x` and aux index `i < 2^a`: the model's purification vector has, at flat
position `x·2^a + i`, the amplitude `√p_i · ψ_i[x]` if `i < min k lenP` and `0` otherwise (the
zero padding when `k` is not a power of two); the flat position decodes back to `(x, i)` by
`/ 2^a`, `% 2^a`, and bitwise the aux index occupies the low `a` wires, the data index the wires
above. -/
theorem C14_index {R : Type} [CommRing R] (sqrt : R → R) (a k lenP : Nat) (ψ : Nat → Nat → R)
    (p : Nat → R) (x i : Nat) (hi : i < 2 ^ a) :
    purification (ringPOps R sqrt) a k lenP ψ p (x * 2 ^ a + i)
        = (if i < min k lenP then sqrt (p i) * ψ i x else 0)
    ∧ (x * 2 ^ a + i) / 2 ^ a = x ∧ (x * 2 ^ a + i) % 2 ^ a = i
    ∧ (∀ j, j < a → (x * 2 ^ a + i).testBit j = i.testBit j)
    ∧ (∀ j, (x * 2 ^ a + i).testBit (a + j) = x.testBit j) :=
  ⟨purification_closed sqrt a k lenP ψ p x i hi, index_div hi, index_mod hi,
    fun _ hj => index_testBit_low hi hj, fun j => index_testBit_high hi j⟩

/-- **C14 (reduced state).**  Over any commutative ring with a conjugation (e.g. `ℂ`), for all `a`
and all `k` with `min k lenP ≤ 2^a` (in the code `a = ⌈log₂ k⌉`, `lenP = k`; `k` need not be a
power of two): if every `√p_i` is real (self-conjugate) and squares to `p_i`, then summing
`w[x,i]·conj w[y,i]` over **all** `2^a` values of the aux index — i.e. tracing out the auxiliary
qubits of the purification — gives the ensemble matrix entry `Σ_i p_i ψ_i[x] conj ψ_i[y]`. -/
theorem C14_reduced {R : Type} [CommRing R] [StarRing R] (sqrt : R → R) (a k lenP : Nat)
    (hk : min k lenP ≤ 2 ^ a) (ψ : Nat → Nat → R) (p : Nat → R)
    (hreal : ∀ i, i < min k lenP → star (sqrt (p i)) = sqrt (p i))
    (hsq : ∀ i, i < min k lenP → sqrt (p i) * sqrt (p i) = p i) (x y : Nat) :
    (∑ i ∈ range (2 ^ a),
        purification (ringPOps R sqrt) a k lenP ψ p (x * 2 ^ a + i)
          * star (purification (ringPOps R sqrt) a k lenP ψ p (y * 2 ^ a + i)))
      = ∑ i ∈ range (min k lenP), p i * (ψ i x * star (ψ i y)) :=
  purification_reduced sqrt a k lenP hk ψ p hreal hsq x y

/-- **C14 (control pattern).**  For every `a` and every `i < 2^a`: the binary string
`f"{i:0{a}b}"` parsed the way qiskit does (`int(·,2)`) is `i` again, and the control literals it
induces on wires `0..a-1` are satisfied by a basis label exactly when the aux register reads `i`
(little-endian).  Every index the code uses qualifies: `i < k ≤ 2^⌈log₂ k⌉`. -/
theorem C14_ctrl (a i : Nat) (hi : i < 2 ^ a) (b : Bits) :
    ctrlStateInt (ctrlStateStr a i) = i
    ∧ (ctrlOk (ctrlLits a i) b = true ↔ readReg 0 a b = i)
    ∧ (∀ k, i < k → i < 2 ^ clog2 k) :=
  ⟨by rw [ctrlStateInt_str, Nat.mod_eq_of_lt hi], ctrlOk_ctrlLits_iff hi b,
    fun k h => Nat.lt_of_lt_of_le h (le_two_pow_clog2 k)⟩

/-- **C14 (in-circuit purification).**  For all `a, n, k` with `k ≤ 2^a` and `lenP ≤ k`
probabilities: suppose each controlled sub-initializer `V i` meets its specification `IsCtrlPrep`
("writes `ψ_i` into the data register of the branch selected by `ctrlLits a i`, provided that
branch's data register is `|0…0⟩`; every other branch untouched" — this is C01 for the
sub-initializer plus qiskit's `.control(ctrl_state)`, an explicit hypothesis), and the circuit
starts from the aux preparation `Σ_i auxState[i] |i⟩_aux |0…0⟩_data` (`auxState` = `√p`
zero-padded).  Then after the `k` steps of the plan the amplitude of every basis label `b` is the
classical purification vector at qiskit's flat index `readReg 0 (a+n) b`: both modes prepare the
same `w`. -/
theorem C14_incircuit {R : Type} [CommRing R] (sqrt : R → R) (a n k lenP : Nat) (hk : k ≤ 2 ^ a)
    (hlen : lenP ≤ k) (ψ : Nat → Nat → R) (p : Nat → R) (V : Nat → State R → State R)
    (hV : ∀ i, i < k → IsCtrlPrep a n (ctrlLits a i) (ψ i) (V i))
    (φ0 : State R)
    (hφ0 : ∀ b, φ0 b = auxState (ringPOps R sqrt) lenP p (readReg 0 a b)
                        * (if readReg a n b = 0 then 1 else 0))
    (b : Bits) :
    runSteps V (inCircuitSteps a n k) φ0 b
      = purification (ringPOps R sqrt) a k lenP ψ p (readReg 0 (a + n) b)
    ∧ readReg 0 (a + n) b = readReg a n b * 2 ^ a + readReg 0 a b := by
  refine ⟨?_, readReg_split a n b⟩
  have h0 : φ0 = stageAmp sqrt lenP ψ p a n 0 := by
    funext b
    rw [hφ0 b]
    unfold stageAmp
    rw [if_neg (Nat.not_lt_zero _)]
  rw [h0, incircuit_stage sqrt a n k lenP hk ψ p V hV k (Nat.le_refl k), readReg_split,
    purification_closed sqrt a k lenP ψ p _ _ (readReg_lt 0 a b), Nat.min_eq_right hlen]
  unfold stageAmp auxState
  by_cases h : readReg 0 a b < lenP
  · rw [if_pos h, if_pos h, if_pos (by omega)]
    rfl
  · rw [if_neg h, if_neg h]
    show (0 : R) * _ = 0
    rw [zero_mul]

/-- **C14 (accept ⇔ valid).**  Over any linearly ordered field (`ℚ`: exact), tolerance `ε ≥ 0`
(`rel_tol = 1e-9`), for `k ≥ 1` states on `n ≥ 1` qubits and an explicit probability list `ps`:
the constructor's decision function accepts — returning `ps` unchanged, `num_qubits = n + ⌈log₂ k⌉`,
`a = ⌈log₂ k⌉` control and `n` data qubits — **iff** every entry is `≥ 0`, every entry is `≤ 1`
and `|Σps − 1| ≤ ε·max(|Σps|, 1)` (which is what `math.isclose(sum, 1.0)` computes).  Otherwise it
raises.  (The code does not compare `len(ps)` with `k`; see `C14_reduced`/`C14_incircuit` for what
is prepared then: `min k lenP` states.) -/
theorem C14_reject {K : Type} [Field K] [LinearOrder K] [IsStrictOrderedRing K] (ε : K) (hε : 0 ≤ ε)
    (n k : Nat) (hn : 1 ≤ n) (hk : 1 ≤ k) (ps : List K) :
    (initDecision (fieldVOps K ε) true (List.replicate k (2 ^ n)) (some ps)
        = .ok ⟨ps, n + clog2 k, clog2 k, n⟩ ↔ ValidProbs ε ps)
    ∧ (¬ ValidProbs ε ps → ∃ e, initDecision (fieldVOps K ε) true (List.replicate k (2 ^ n)) (some ps)
        = .error e ∧ (e = .valueNeg ∨ e = .valueGt1 ∨ e = .valueSum)) := by
  rw [initDecision_of_check ε n k hn hk]
  rcases checkProbs_cases ε hε k ps with ⟨hv, hc⟩ | ⟨hv, e, hc, he⟩
  · rw [hc]; exact ⟨⟨fun _ => hv, fun _ => rfl⟩, fun h => absurd hv h⟩
  · rw [hc]
    refine ⟨⟨fun h => ?_, fun h => absurd h hv⟩, fun _ => ⟨e, rfl, he⟩⟩
    cases h

/-- **C14 (each kind of invalid vector is rejected, with the exception the code raises).**
A negative entry ⇒ `ValueError("… greater than or equal to 0")`; no negative entry but one above 1
⇒ `ValueError("… less than or equal to 1")`; entries in `[0,1]` but the sum outside the
tolerance ⇒ `ValueError("The sum … must be 1.0")`.  With `ε < 1` an accepted sum `s` satisfies
`1 − ε ≤ s` and `s·(1 − ε) ≤ 1`. -/
theorem C14_reject_kinds {K : Type} [Field K] [LinearOrder K] [IsStrictOrderedRing K] (ε : K)
    (hε : 0 ≤ ε) (n k : Nat) (hn : 1 ≤ n) (hk : 1 ≤ k) (ps : List K) :
    ((∃ p ∈ ps, p < 0) →
      initDecision (fieldVOps K ε) true (List.replicate k (2 ^ n)) (some ps) = .error .valueNeg)
    ∧ ((∀ p ∈ ps, 0 ≤ p) → (∃ p ∈ ps, 1 < p) →
      initDecision (fieldVOps K ε) true (List.replicate k (2 ^ n)) (some ps) = .error .valueGt1)
    ∧ ((∀ p ∈ ps, 0 ≤ p) → (∀ p ∈ ps, p ≤ 1) → ε * max |ps.sum| 1 < |ps.sum - 1| →
      initDecision (fieldVOps K ε) true (List.replicate k (2 ^ n)) (some ps) = .error .valueSum)
    ∧ (ε < 1 → ValidProbs ε ps → 1 - ε ≤ ps.sum ∧ ps.sum * (1 - ε) ≤ 1) := by
  rw [initDecision_of_check ε n k hn hk]
  refine ⟨fun h => ?_, fun h0 h => ?_, fun h0 h1 h => ?_, fun h1 hv => closeTo1_bounds ε hε h1 _ hv.2.2⟩
  · rw [checkProbs_neg ε k ps h]
  · rw [checkProbs_gt1 ε k ps h0 h]
  · rw [checkProbs_sum ε hε k ps h0 h1 (not_le.2 h)]

/-- **C14 (uniform default).**  `probabilities=None` with `k ≥ 1` states is accepted with the
vector `[1/k]*k`, whose entries lie in `[0,1]` and sum to exactly 1. -/
theorem C14_uniform {K : Type} [Field K] [LinearOrder K] [IsStrictOrderedRing K] (ε : K)
    (n k : Nat) (hn : 1 ≤ n) (hk : 1 ≤ k) :
    initDecision (fieldVOps K ε) true (List.replicate k (2 ^ n)) none
        = .ok ⟨List.replicate k (1 / (k : K)), n + clog2 k, clog2 k, n⟩
    ∧ (∀ p ∈ List.replicate k (1 / (k : K)), 0 ≤ p ∧ p ≤ 1)
    ∧ (List.replicate k (1 / (k : K))).sum = 1 := by
  obtain ⟨h1, h2, h3⟩ := uniform_valid ε k hk
  refine ⟨?_, h2, h3⟩
  rw [initDecision_of_check ε n k hn hk, h1]

/-- **C14 (width).**  For all `n` and all `k ≥ 1`: the model of
`int(ceil(log2(len(params[0]))) + ceil(log2(len(params))))` on `k` vectors of length `2^n` is
`n + a` where `a = clog2 k` is the least exponent with `k ≤ 2^a` (so every state index `< k` fits
the aux register, and for `k ≥ 2` no smaller register would do).  The float idiom itself agrees
with `clog2` for `k < 2^48` (assumption, tied for `k ≤ 4096` and `2^m−1, 2^m, 2^m+1`, `m ≤ 40`). -/
theorem C14_width (n k : Nat) :
    numQubits (2 ^ n) k = n + clog2 k
    ∧ k ≤ 2 ^ clog2 k
    ∧ (∀ a, k ≤ 2 ^ a → clog2 k ≤ a)
    ∧ (2 ≤ k → 2 ^ (clog2 k - 1) < k)
    ∧ clog2 (2 ^ n) = n := by
  refine ⟨?_, le_two_pow_clog2 k, fun a h => clog2_le h, two_pow_clog2_pred_lt, clog2_two_pow n⟩
  unfold numQubits
  rw [clog2_two_pow]

/-- **C14 (source tie, widths).**  `Gen.MixedWidth.mixed_num_qubits` / `mixed_num_ctrl` are
re-translated on every run from the current source of `InitializeMixed._get_num_qubits`
(`int(ceil(log2(len(params[0]))) + ceil(log2(len(params))))`) and of the statement of
`MixedInitialize.__init__` that sets `self._num_ctrl_qubits` (`int(ceil(log2(len(params))))`).  For
every vector length `d ≥ 1` and every number of states `k ≥ 1` they equal the hand model
`numQubits d k` resp. `clog2 k` of `C14_width`.  An edit of a `ceil`, of an operand or of the sum in
the source breaks this proof.  (`int(ceil(log2 k))` is translated as the least exponent `a` with
`k ≤ 2^a`; float agreement is the tied assumption named in `C14_width`.) -/
theorem C14_width_src (d k : Nat) (hd : 1 ≤ d) (hk : 1 ≤ k) :
    Gen.MixedWidth.mixed_num_qubits (d : Int) (k : Int) = ((numQubits d k : Nat) : Int)
    ∧ Gen.MixedWidth.mixed_num_ctrl (k : Int) = ((clog2 k : Nat) : Int) := by
  have h : ∀ x : Nat, 1 ≤ x → Py.pyLog2Ceil (x : Int) = ((clog2 x : Nat) : Int) := fun x hx =>
    Py.pyLog2Ceil_eq_of_least x (clog2 x) hx (le_two_pow_clog2 x) (fun _ hb => clog2_le hb)
  unfold Gen.MixedWidth.mixed_num_qubits Gen.MixedWidth.mixed_num_ctrl numQubits
  simp only [h d hd, h k hk, Int.natCast_add, and_self]

/-- Non-vacuity: 5 states of 8 amplitudes — 3 + 3 qubits, 3 of them controls. -/
example : Gen.MixedWidth.mixed_num_qubits 8 5 = 6 ∧ Gen.MixedWidth.mixed_num_ctrl 5 = 3 := by decide

/-! ### Non-vacuity: the hypotheses are satisfiable by concrete, non-trivial instances -/

section Examples

/-- three states (not a power of two) on one qubit over `ℤ` (trivial conjugation), probabilities
`1, 0, 1` with `sqrt = id`: hypotheses of `C14_reduced` hold, one aux slot is padding. -/
example (ψ : Nat → Nat → ℤ) (x y : Nat) :
    let p : Nat → ℤ := fun i => if i = 1 then 0 else 1
    (∑ i ∈ range (2 ^ 2),
        purification (ringPOps ℤ id) 2 3 3 ψ p (x * 2 ^ 2 + i)
          * star (purification (ringPOps ℤ id) 2 3 3 ψ p (y * 2 ^ 2 + i)))
      = ∑ i ∈ range (min 3 3), p i * (ψ i x * star (ψ i y)) := by
  intro p
  apply C14_reduced (R := ℤ) id 2 3 3 (by decide) ψ p
  · intro i _; rfl
  · intro i _
    show p i * p i = p i
    by_cases h : i = 1 <;> simp [p, h]

/-- the transformer defined by the specification itself meets `IsCtrlPrep`; with it the hypotheses
of `C14_incircuit` hold for `k = 3`, `a = 2`, `n = 2`. -/
example (ψ : Nat → Nat → ℤ) (p : Nat → ℤ) (b : Bits) :
    let V : Nat → State ℤ → State ℤ := fun i φ b =>
      if ctrlOk (ctrlLits 2 i) b then φ (clearReg 2 2 b) * ψ i (readReg 2 2 b) else φ b
    let φ0 : State ℤ := fun b => auxState (ringPOps ℤ id) 3 p (readReg 0 2 b)
                        * (if readReg 2 2 b = 0 then 1 else 0)
    runSteps V (inCircuitSteps 2 2 3) φ0 b
      = purification (ringPOps ℤ id) 2 3 3 ψ p (readReg 0 (2 + 2) b) := by
  intro V φ0
  exact (C14_incircuit (R := ℤ) id 2 2 3 3 (by decide) (Nat.le_refl 3) ψ p V
    (fun i _ φ _ b => rfl) φ0 (fun b => rfl) b).1

/-- over `ℚ` with the real tolerance `10⁻⁹`: `[1/2, 1/4, 1/4]` is accepted for three 2-qubit
states (4 qubits in total), `[3/2, -1/2, 0]` is rejected as negative. -/
example :
    initDecision (fieldVOps ℚ (1 / 1000000000)) true (List.replicate 3 (2 ^ 2))
        (some [1 / 2, 1 / 4, 1 / 4]) = .ok ⟨[1 / 2, 1 / 4, 1 / 4], 2 + clog2 3, clog2 3, 2⟩
    ∧ initDecision (fieldVOps ℚ (1 / 1000000000)) true (List.replicate 3 (2 ^ 2))
        (some [3 / 2, -1 / 2, 0]) = .error .valueNeg := by
  constructor
  · apply (C14_reject (K := ℚ) (1 / 1000000000) (by norm_num) 2 3 (by decide) (by decide) _).1.2
    refine ⟨?_, ?_, ?_⟩
    · intro p hp; simp only [List.mem_cons, List.mem_nil_iff, or_false] at hp
      rcases hp with h | h | h <;> rw [h] <;> norm_num
    · intro p hp; simp only [List.mem_cons, List.mem_nil_iff, or_false] at hp
      rcases hp with h | h | h <;> rw [h] <;> norm_num
    · unfold CloseTo1; norm_num
  · apply (C14_reject_kinds (K := ℚ) (1 / 1000000000) (by norm_num) 2 3 (by decide) (by decide) _).1
    exact ⟨-1 / 2, by simp, by norm_num⟩

example : clog2 1 = 0 ∧ clog2 3 = 2 ∧ clog2 4 = 2 ∧ clog2 5 = 3 ∧ numQubits 8 6 = 6 := by decide

end Examples

end Qclib
