import QclibModel.Model.Entangle
import QclibModel.Gen.Entangle
import QclibModel.Spec.Entangle
import QclibModel.Proofs.EntangleBits
import QclibModel.Proofs.EntangleAlg
import QclibModel.Proofs.EntangleModel
import QclibModel.Proofs.EntangleMw
import QclibModel.Proofs.EntangleGeo
import QclibModel.Proofs.EntangleLU
import QclibModel.Proofs.EntangleProd
import QclibModel.Proofs.EntangleRelabelFin
/-
  C20 — entanglement measures agree with their definitions and vanish on product states.
  Property theorems only; proofs live in Proofs/Entangle*.lean.

  Objects (Spec/Entangle.lean): `delBit j b` / `insBit j c r` delete / insert bit `j` of a label;
  `slice ψ j c` is the ι-slice `r ↦ ψ(insBit j c r)`; `nrm2`, `inner`, `crossSum` are explicit
  finite sums; `purity n ψ k = ‖u‖⁴+‖v‖⁴+2|⟨u,v⟩|²` is `Tr ρ_k²`; `mwValue` is the code's formula.
  `mwCode vec` / `geoCode results` are the executable model (Model/Entangle.lean) instantiated at ℂ.
-/
namespace Qclib
open Ent Finset

/-- **C20 (source tie).**  The Lean text translated on every run from the current source of
`_get_iota` is, definitionally, the hand model `getIota` the other theorems speak about. -/
theorem C20_iota_src (j n s b : Nat) : Gen.get_iota j n s b = Ent.getIota j n s b := rfl

/-- **C20 (index split is a bijection).**  For all `n`, `j < n`: on labels `b < 2^n` the model of
`_get_iota(j, n, s, b)` returns (`bit j of b == s`, `delBit j b`); `delBit j b < 2^(n-1)`; the
explicit inverse `insBit j` maps `Bool × [0,2^(n-1))` into `[0,2^n)`, and the two maps are mutually
inverse — i.e. `b ↦ (bit j of b, b with bit j removed)` is a bijection
`{0..2^n−1} ≃ Bool × {0..2^(n−1)−1}`. -/
theorem C20_iota (n j : Nat) (hj : j < n) :
    (∀ b, b < 2 ^ n → ∀ s : Bool,
        getIota j n (if s then 1 else 0) b = some (b.testBit j == s, delBit j b))
    ∧ (∀ b, b < 2 ^ n → delBit j b < 2 ^ (n - 1))
    ∧ (∀ c r, r < 2 ^ (n - 1) → insBit j c r < 2 ^ n)
    ∧ (∀ b, insBit j (b.testBit j) (delBit j b) = b)
    ∧ (∀ c r, (insBit j c r).testBit j = c ∧ delBit j (insBit j c r) = r) :=
  ⟨fun _ hb s => getIota_eq hj hb s, fun _ hb => delBit_lt hj hb, fun c _ hr => insBit_lt c hj hr,
   fun b => insBit_delBit j b, fun c r => ⟨testBit_insBit_self j c r, delBit_insBit j c r⟩⟩

example : getIota 1 3 1 6 = some (true, 2) ∧ delBit 1 6 = 2 ∧ insBit 1 true 2 = 6 := by decide

/-- **C20 (the split is the tensor split on qubit `j`).**  Bit `i` of the squeezed label is bit `i`
of `b` below `j` and bit `i+1` from `j` on; conversely for the inverse. -/
theorem C20_iota_bits (j b i : Nat) (c : Bool) :
    (delBit j b).testBit i = b.testBit (if i < j then i else i + 1)
    ∧ (insBit j c b).testBit i = if i < j then b.testBit i else if i = j then c else b.testBit (i - 1) :=
  ⟨testBit_delBit j b i, testBit_insBit j c b i⟩

/-- **C20 (Lagrange identity).**  For complex vectors of any length `m`:
`Σ_{i<j<m} |u_i v_j − u_j v_i|² = ‖u‖²‖v‖² − |⟨u,v⟩|²`. -/
theorem C20_lagrange (m : Nat) (u v : Nat → ℂ) :
    crossSum m u v = nrm2 m u * nrm2 m v - Complex.normSq (inner m u v) :=
  lagrange m u v

example : crossSum 2 (fun i => if i = 0 then 1 else Complex.I) (fun i => if i = 0 then 2 else 0) = 4 := by
  simp [crossSum, Finset.sum_range_succ, Complex.normSq_apply]; norm_num

/-- **C20 (Meyer–Wallach, closed form).**  For every `n ≥ 1` and every array of `2^n` amplitudes
with `Σ|ψ_b|² = 1` the model of `meyer_wallach_entanglement` returns
`2·(1 − (1/n)·Σ_k Tr ρ_k²)` (and for any array of that size, normalised or not, it returns the
formula `(Σ_k D(ι_k^0 ψ, ι_k^1 ψ))·(4/n)`). -/
theorem C20_mw (n : Nat) (hn : 0 < n) (vec : Array ℂ) (hsz : vec.size = 2 ^ n) :
    mwCode vec = some (mwValue n (ampOf vec))
    ∧ (nrm2 (2 ^ n) (ampOf vec) = 1 →
        mwCode vec = some (2 * (1 - (1 / (n : ℝ)) * ∑ k ∈ range n, purity n (ampOf vec) k))) := by
  refine ⟨mwCode_eq hn vec hsz, fun h1 => ?_⟩
  rw [mwCode_eq hn vec hsz, mwValue_eq_purity hn _ h1]

/-- a non-trivial instance of the hypotheses: the unit vector (3/5,0,0,4/5) on two qubits -/
example : (#[(3/5 : ℂ), 0, 0, 4/5] : Array ℂ).size = 2 ^ 2
    ∧ nrm2 (2 ^ 2) (ampOf #[(3/5 : ℂ), 0, 0, 4/5]) = 1 := by
  refine ⟨rfl, ?_⟩
  simp [nrm2, ampOf, Finset.sum_range_succ, Complex.normSq_apply]; norm_num

/-- **C20 (range).**  On unit vectors the value lies in `[0,1]`. -/
theorem C20_mw_range (n : Nat) (hn : 0 < n) (vec : Array ℂ) (hsz : vec.size = 2 ^ n)
    (h1 : nrm2 (2 ^ n) (ampOf vec) = 1) :
    ∃ x : ℝ, mwCode vec = some x ∧ 0 ≤ x ∧ x ≤ 1 :=
  ⟨_, mwCode_eq hn vec hsz, mwValue_nonneg _ _, mwValue_le_one hn _ h1⟩

/-- **C20 (zero iff all one-qubit marginals pure).**  On unit vectors the value is `0` iff
`Tr ρ_k² = 1` for every qubit `k`. -/
theorem C20_mw_zero_iff_pure (n : Nat) (hn : 0 < n) (vec : Array ℂ) (hsz : vec.size = 2 ^ n)
    (h1 : nrm2 (2 ^ n) (ampOf vec) = 1) :
    mwCode vec = some 0 ↔ ∀ k, k < n → purity n (ampOf vec) k = 1 := by
  rw [mwCode_eq hn vec hsz, Option.some.injEq, mwValue_eq_zero_iff hn]
  constructor
  · intro h k hk; rw [purity_eq hk _ h1, h k hk]; ring
  · intro h k hk; have := h k hk; rw [purity_eq hk _ h1] at this; linarith

/-- **C20 (pure marginal iff proportional slices).**  For a unit vector, `Tr ρ_k² = 1` iff the two
ι-slices on qubit `k` are proportional (the 2 × 2^(n−1) matrix has rank ≤ 1), i.e. qubit `k`
factors out. -/
theorem C20_pure_iff_proportional (n k : Nat) (hk : k < n) (ψ : Nat → ℂ) (h1 : nrm2 (2 ^ n) ψ = 1) :
    purity n ψ k = 1 ↔ Proportional (2 ^ (n - 1)) (slice ψ k false) (slice ψ k true) := by
  rw [← crossSum_eq_zero_iff_proportional, purity_eq hk ψ h1]
  constructor <;> intro h <;> linarith

/-- **C20 (zero on product states).**  For every `n ≥ 1` and all one-qubit vectors `f k`
(normalised or not, zero amplitudes allowed) the value on `⊗_k f_k` is `0`. -/
theorem C20_mw_product_zero (n : Nat) (hn : 0 < n) (f : Nat → Bool → ℂ) (vec : Array ℂ)
    (hsz : vec.size = 2 ^ n) (hvec : ∀ b, b < 2 ^ n → vec.getD b 0 = prodState n f b) :
    mwCode vec = some 0 := by
  rw [mwCode_eq hn vec hsz, Option.some.injEq, mwValue_eq_zero_iff hn]
  intro k hk
  rw [← crossSum_prodState hk f]
  apply crossSum_congr
  · intro i hi; exact hvec _ (insBit_lt false hk hi)
  · intro i hi; exact hvec _ (insBit_lt true hk hi)

/-- a product vector with complex entries satisfying the hypothesis -/
example : ∃ (f : Nat → Bool → ℂ) (vec : Array ℂ), vec.size = 2 ^ 2
    ∧ ∀ b, b < 2 ^ 2 → vec.getD b 0 = prodState 2 f b := by
  refine ⟨fun _ c => if c then Complex.I else 2, #[4, 2 * Complex.I, 2 * Complex.I, -1], rfl, ?_⟩
  intro b hb
  have : b = 0 ∨ b = 1 ∨ b = 2 ∨ b = 3 := by omega
  rcases this with rfl | rfl | rfl | rfl <;>
    (simp [prodState, Finset.prod_range_succ, Nat.testBit, mul_comm]; try norm_num)

/-- **C20 (zero exactly on product states).**  For every `n ≥ 1` and every array of `2^n` amplitudes
(normalised or not) the model's value is `0` iff the vector is a tensor product of one-qubit
vectors `ψ_b = ∏_k f_k(bit k of b)`. -/
theorem C20_mw_zero_iff_product (n : Nat) (hn : 0 < n) (vec : Array ℂ) (hsz : vec.size = 2 ^ n) :
    mwCode vec = some 0 ↔ ∃ f : Nat → Bool → ℂ, ∀ b, b < 2 ^ n → vec.getD b 0 = prodState n f b := by
  constructor
  · intro h
    rw [mwCode_eq hn vec hsz, Option.some.injEq, mwValue_eq_zero_iff hn] at h
    exact product_of_zero hn (ampOf vec) h
  · rintro ⟨f, hf⟩
    exact C20_mw_product_zero n hn f vec hsz hf

/-- **C20 (invariance under a one-qubit unitary).**  If `vec'` is `vec` with a 2×2 matrix `U`,
`U†U = 1`, applied to qubit `q < n`, the model returns the same value for both (no normalisation
needed).  Proof: on the acted qubit the cross sum is multiplied by `|det U|² = 1`; on every other
qubit both slices are transformed by the same unitary, which preserves `‖u‖, ‖v‖, ⟨u,v⟩`. -/
theorem C20_mw_local_unitary (n : Nat) (hn : 0 < n) (U : Bool → Bool → ℂ) (hU : IsUnitary2 U)
    (q : Nat) (hq : q < n) (vec vec' : Array ℂ) (hsz : vec.size = 2 ^ n) (hsz' : vec'.size = 2 ^ n)
    (h : ∀ b, b < 2 ^ n → vec'.getD b 0 = apply1 U q (ampOf vec) b) :
    mwCode vec' = mwCode vec := by
  have e : mwValue n (ampOf vec') = mwValue n (apply1 U q (ampOf vec)) := mwValue_congr h
  rw [mwCode_eq hn vec hsz, mwCode_eq hn vec' hsz', e, mwValue_apply1 hU hq]

example : IsUnitary2 (fun r c => if r then (if c then -(3/5 : ℂ) else 4/5) else (if c then 4/5 else 3/5)) := by
  refine ⟨?_, ?_, ?_⟩ <;> simp [Complex.normSq_apply, map_ofNat] <;> norm_num

/- **C20 (invariance under qubit relabelling) — full statement, NOT proved in this form:**
   for every permutation `σ` of `{0..n-1}`, if `vec'[b] = vec[b']` where bit `i` of `b'` is bit `σ i`
   of `b` … then `mwCode vec' = mwCode vec`.
   What is proved (`_partial`): the statement for any relabelling presented slice-wise — qubit `k`
   of `vec'` is qubit `τ k` of `vec` and the remaining `n-1`-bit label is reindexed by some
   bijection `π k`.  Missing: the construction of `π k` from a bit permutation `σ` of the labels
   (pure index bookkeeping; the oracle checks random permutations for n = 2..8). -/
/-- **C20 (relabelling, partial).**  If for every qubit `k` the two slices of `vec'` on `k` are the
slices of `vec` on `τ k` with their index reindexed by a bijection `π k` of `[0,2^(n-1))`, and `τ`
permutes `[0,n)`, then the model returns the same value. -/
theorem C20_mw_relabel_partial (n : Nat) (hn : 0 < n) (vec vec' : Array ℂ) (hsz : vec.size = 2 ^ n)
    (hsz' : vec'.size = 2 ^ n) (τ : Equiv.Perm Nat) (hτ : ∀ k, τ k < n ↔ k < n)
    (π : Nat → Equiv.Perm Nat) (hπ : ∀ k r, π k r < 2 ^ (n - 1) ↔ r < 2 ^ (n - 1))
    (h : ∀ k, k < n → ∀ c r, r < 2 ^ (n - 1) →
      vec'.getD (insBit k c r) 0 = vec.getD (insBit (τ k) c (π k r)) 0) :
    mwCode vec' = mwCode vec := by
  rw [mwCode_eq hn vec hsz, mwCode_eq hn vec' hsz']
  exact congrArg some (mwValue_relabel n (ampOf vec) (ampOf vec') τ hτ π hπ h)

/-- swapping the two qubits of a 2-qubit register satisfies the hypothesis of the partial theorem -/
example (vec vec' : Array ℂ) (hv : ∀ a b : Bool,
      vec'.getD ((if a then 1 else 0) + 2 * (if b then 1 else 0)) 0
        = vec.getD ((if b then 1 else 0) + 2 * (if a then 1 else 0)) 0) :
    ∀ k, k < 2 → ∀ c r, r < 2 ^ (2 - 1) →
      vec'.getD (insBit k c r) 0 = vec.getD (insBit (Equiv.swap 0 1 k) c ((fun _ => Equiv.refl Nat) k r)) 0 := by
  intro k hk c r hr
  have hr' : r = 0 ∨ r = 1 := by omega
  have hk' : k = 0 ∨ k = 1 := by omega
  rcases hk' with rfl | rfl <;> rcases hr' with rfl | rfl <;> cases c
  all_goals first
    | simpa [insBit] using hv false false
    | simpa [insBit] using hv true false
    | simpa [insBit] using hv false true
    | simpa [insBit] using hv true true

/-- **C20 (invariance under qubit relabelling, full statement; supersedes
`C20_mw_relabel_partial`).**  For every `n ≥ 1`, every permutation `σ` of the qubits `{0..n−1}`
(a permutation of `ℕ` mapping `[0,n)` onto itself) and every array `vec` of `2^n` amplitudes: the
bit permutation `permIdx σ n` of basis-state labels moves bit `k` of a label to bit `σ k`
(`k < n`) and maps into `[0,2^n)`; and for ANY array `vec'` of `2^n` amplitudes that reads `vec`
through it (`vec'[b] = vec[permIdx σ n b]`, i.e. qubit `k` of `vec'` is qubit `σ k` of `vec`) — in
particular for the explicitly relabelled array `Array.ofFn (b ↦ vec[permIdx σ n b])` — the model
of `meyer_wallach_entanglement` returns the same value as for `vec`.  The slice bijections `π k`
required by the partial theorem are constructed from `σ` (`Ent.piEquiv`). -/
theorem C20_mw_relabel (n : Nat) (hn : 0 < n) (σ : Equiv.Perm Nat) (hσ : ∀ k, σ k < n ↔ k < n)
    (vec : Array ℂ) (hsz : vec.size = 2 ^ n) :
    (∀ b k, k < n → (permIdx σ n b).testBit (σ k) = b.testBit k)
    ∧ (∀ b, permIdx σ n b < 2 ^ n)
    ∧ (∀ vec' : Array ℂ, vec'.size = 2 ^ n →
        (∀ b, b < 2 ^ n → vec'.getD b 0 = vec.getD (permIdx σ n b) 0) → mwCode vec' = mwCode vec)
    ∧ mwCode (Array.ofFn (fun b : Fin (2 ^ n) => vec.getD (permIdx σ n b) 0)) = mwCode vec := by
  have main : ∀ vec' : Array ℂ, vec'.size = 2 ^ n →
      (∀ b, b < 2 ^ n → vec'.getD b 0 = vec.getD (permIdx σ n b) 0) → mwCode vec' = mwCode vec := by
    intro vec' hsz' h
    rw [mwCode_eq hn vec hsz, mwCode_eq hn vec' hsz']
    exact congrArg some (mwValue_permIdx n σ hσ (ampOf vec) (ampOf vec') h)
  refine ⟨fun b k hk => testBit_permIdx_apply hσ b k hk, fun b => permIdx_lt σ n b, main, ?_⟩
  apply main _ (by simp)
  intro b hb
  simp [Array.getD, hb]

/-- **C20 (relabelling, permutations of `Fin n`).**  The same for a permutation `σ` of `Fin n`,
extended to `ℕ` by the identity: the explicitly relabelled array has the same Meyer–Wallach
value. -/
theorem C20_mw_relabel_fin (n : Nat) (hn : 0 < n) (σ : Equiv.Perm (Fin n)) (vec : Array ℂ)
    (hsz : vec.size = 2 ^ n) :
    mwCode (Array.ofFn (fun b : Fin (2 ^ n) =>
      vec.getD (permIdx (σ.extendDomain Fin.equivSubtype) n b) 0)) = mwCode vec := by
  refine (C20_mw_relabel n hn (σ.extendDomain Fin.equivSubtype) ?_ vec hsz).2.2.2
  intro k
  by_cases hk : k < n
  · rw [Equiv.Perm.extendDomain_apply_subtype σ Fin.equivSubtype (b := k) hk]
    simp [hk]
  · rw [Equiv.Perm.extendDomain_apply_not_subtype σ Fin.equivSubtype (b := k) hk]

/-- Non-vacuity: the swap of qubits 0 and 1 maps `[0,2)` onto itself; under it the label `1`
(`q0 = 1`) goes to `2` (`q1 = 1`), and on the non-symmetric array `(1,2,3,4)` the relabelled array
is `(1,3,2,4)`. -/
example : (∀ k, Equiv.swap 0 1 k < 2 ↔ k < 2) ∧ permIdx (Equiv.swap 0 1) 2 1 = 2
    ∧ permIdx (Equiv.swap 0 1) 2 2 = 1 ∧ permIdx (Equiv.swap 0 1) 2 3 = 3 := by
  refine ⟨fun k => ?_, ?_, ?_, ?_⟩
  · by_cases h0 : k = 0
    · subst h0; simp
    · by_cases h1 : k = 1
      · subst h1; simp
      · rw [Equiv.swap_apply_of_ne_of_ne h0 h1]
  all_goals
    apply Nat.eq_of_testBit_eq
    intro i
    rw [testBit_permIdx]
    rcases i with _ | _ | i <;> simp [Nat.testBit_succ]

/-- **C20 (geometric measure, post-processing).**  Let `results` be what the four `tucker` calls
returned and assume the kernel's specification: every factor is a unit vector and
`core = ⟨⊗_k f_k, ψ⟩` for the unit input `ψ`.  Then what `geometric_entanglement(ψ, True, True)`
returns — `(l, ps, fs)` — satisfies: `l = 1 − |core|²` of a restart with minimal loss, `fs` are its
factors, `0 ≤ l ≤ 1` (Cauchy–Schwarz), and (when `core ≠ 0`) the product state `ps` equals
`phase · ⊗_k f_k` with `|phase| = 1`, is normalised and has fidelity `|⟨ps,ψ⟩|² = 1 − l`. -/
theorem C20_geo_post (results : List (Tucker1 ℂ)) (ψ : List ℂ) (hψ : nrm2L ψ = 1)
    (hK4 : ∀ t ∈ results, (∀ f ∈ t.factors, Complex.normSq f.1 + Complex.normSq f.2 = 1)
      ∧ ψ.length = 2 ^ t.factors.length ∧ t.core = dotL (kronAll (1 : ℂ) t.factors) ψ)
    (l : ℝ) (ps : List ℂ) (fs : List (ℂ × ℂ)) (h : geoCode results = some (l, ps, fs)) :
    ∃ t ∈ results, fs = t.factors ∧ l = 1 - Complex.normSq t.core
      ∧ (∀ t' ∈ results, l ≤ 1 - Complex.normSq t'.core)
      ∧ 0 ≤ l ∧ l ≤ 1
      ∧ (t.core ≠ 0 →
          ps = (kronAll (1 : ℂ) fs).map ((t.core / (Real.sqrt (Complex.normSq t.core) : ℂ)) * ·)
          ∧ Complex.normSq (t.core / (Real.sqrt (Complex.normSq t.core) : ℂ)) = 1
          ∧ nrm2L ps = 1 ∧ Complex.normSq (dotL ps ψ) = 1 - l) :=
  geo_post results ψ hψ hK4 l ps fs h

/-- the kernel specification is satisfiable: ψ = (3/5,4/5), factor (1,0), core 3/5 -/
example : ∃ (results : List (Tucker1 ℂ)) (ψ : List ℂ), results ≠ [] ∧ nrm2L ψ = 1 ∧
    ∀ t ∈ results, (∀ f ∈ t.factors, Complex.normSq f.1 + Complex.normSq f.2 = 1)
      ∧ ψ.length = 2 ^ t.factors.length ∧ t.core = dotL (kronAll (1 : ℂ) t.factors) ψ := by
  refine ⟨[⟨3/5, [(1, 0)]⟩], [3/5, 4/5], by simp, ?_, ?_⟩
  · simp [nrm2L]; norm_num
  · intro t ht
    simp only [List.mem_singleton] at ht
    subst ht
    refine ⟨?_, rfl, ?_⟩
    · intro f hf; simp only [List.mem_singleton] at hf; subst hf; simp
    · simp [kronAll, dotL]

end Qclib
