import QclibModel.Model.Entangle
import QclibModel.Gen.Entangle
namespace Qclib

/-- The Lean text translated from the current source of `_get_iota` is the hand model. -/
theorem C20_iota_src (j n s b : Nat) : Gen.get_iota j n s b = Ent.getIota j n s b := rfl

end Qclib
