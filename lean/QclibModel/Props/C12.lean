import QclibModel.Proofs.UcgLevel
import QclibModel.Proofs.UcgColumn
import QclibModel.Proofs.UcgPreserve
import QclibModel.Proofs.UcgModel
import QclibModel.Proofs.UcgComplex
import QclibModel.Proofs.UcgCtrl
import QclibModel.Proofs.UcgSimplify
import QclibModel.Proofs.UcgSimplifyFin
/-
  C12 — `UCGInitialize` / `UCGEInitialize`: `|t⟩ ↦ v` for every target index `t`; with
  `preserve_previous` and support on indices `≥ t` the basis states below `t` are kept up to a phase.
  Property theorems only (model: Model/Ucg.lean, ideal objects and the K4 specifications:
  Spec/Ucg.lean, proofs: Proofs/Ucg*.lean).

  Reading of the code the statements use (every item is tied to the source on every run):
  * the level with `tree_level = n - q` acts on target wire `q`, controls `q+1 … n-1`; its
    multiplexer entry `k` is built from the sibling pair `(children[2k], children[2k+1])`;
    `bit_target` is bit `q` of `t`; `r_gate = t // 2^(q+1)`;
  * amplitude vectors are functions on naturals (`i < 2^n`, wire `p` = bit `p` of `i`);
  * scalars: any field `K` with conjugation; `nrm` (`numpy.linalg.norm` of a pair) and the zero
    test are parameters with specifications `NrmSpec`, `ZeroSpec` (both hold in `ℂ`:
    `nrmSpec_complex`, `zeroSpec_complex`);
  * qiskit's `UCGate(up_to_diagonal=True)` circuit `Uc q` and `_get_diagonal()` `d q` are
    parameters with the specification `UcSpec`: `Diag(d q) · Uc q = multiplexer handed to UCGate`
    (K4, validated numerically on every run); the last level uses `circuit.unitary`, i.e. `d (n-1) = 1`.
-/
namespace Qclib
open Qclib.Ucg Finset

variable {K : Type} [Field K] [StarRing K] {nrm : K → K → K} {isZero : K → Bool}

/-- **C12 (level operator).**  For every sibling pair `(c0, c1)` and target bit, with parent
amplitude `p = nrm c0 c1`: the operator `_build_multiplexor` chooses is the identity when both
children vanish, the diagonal operator when only the `|0⟩` child vanishes, the branch operator
otherwise (decided by the code's own tests `parent != 0`, `amp_ket0 != 0`); in every case it is
unitary and sends the pair to `p · e_bit` (so the normalised pair goes to `e_bit`, and
`(0, c1) ↦ p·e_bit` with `|p| = |c1|`). -/
theorem C12_level (hN : NrmSpec nrm) (hz : ZeroSpec isZero) (bit : Bool) (c0 c1 : K) :
    IsUnitary2 (muxEntry (ringOps K nrm isZero) bit c0 c1 (nrm c0 c1))
    ∧ SendsTo (muxEntry (ringOps K nrm isZero) bit c0 c1 (nrm c0 c1)) c0 c1 (nrm c0 c1) bit
    ∧ (c0 = 0 → c1 = 0 → muxKind (ringOps K nrm isZero) c0 (nrm c0 c1) = .identity)
    ∧ (c0 = 0 → c1 ≠ 0 → muxKind (ringOps K nrm isZero) c0 (nrm c0 c1) = .diagonal)
    ∧ (c0 ≠ 0 → muxKind (ringOps K nrm isZero) c0 (nrm c0 c1) = .branch) := by
  refine ⟨(muxEntry_level hN hz bit c0 c1).1, (muxEntry_level hN hz bit c0 c1).2, ?_, ?_, ?_⟩
  · intro h0 h1
    exact muxKind_identity hz c0 _ (by rw [h0, h1, nrm_zero hN])
  · intro h0 h1
    exact muxKind_diagonal hz c0 _ (fun hp => h1 (hN.zero c0 c1 hp).2) h0
  · intro h0
    exact muxKind_branch hz c0 _ (fun hp => h0 (hN.zero c0 c1 hp).1) h0

/-- **C12 (parent norms telescope).**  The children handed to the next level
(`parent[k]·conj(phase k)`, any unit phases) have the same total squared norm as the children of
this level; hence for a unit vector every level has total squared norm 1, and the single parent
amplitude of the last level is exactly `1`. -/
theorem C12_level_norms (hN : NrmSpec nrm) (ph : Nat → Nat → K)
    (hph : ∀ q k, ph q k * star (ph q k) = 1) (v : Nat → K) (n : Nat) :
    (∀ q, q ≤ n → ∑ k ∈ range (2 ^ (n - q)), genChildren nrm ph v q k * star (genChildren nrm ph v q k)
        = ∑ i ∈ range (2 ^ n), v i * star (v i))
    ∧ (∀ a b : K, a * star a + b * star b = 1 → nrm a b = 1) :=
  ⟨gen_normsq hN ph hph v n, hN.one⟩

/-- **C12 (column `t`).**  For all `n ≥ 1`, all `t < 2^n`, every unit vector `v` (zeros allowed),
`preserve_previous` on or off: if each level's UCGate circuit meets qiskit's specification
`Diag(d q)·Uc q = (multiplexer handed to UCGate)` with unit-modulus diagonals (`UcSpec`), then the
disentangling circuit built by the level loop — per level the gate pulled out by
`_preserve_previous` (if enabled), then the UCGate circuit, the carried diagonal entering the next
level's children — maps `v` to `|t⟩` **exactly** (the carried phases are absorbed level by level,
no global phase remains); consequently any left inverse of it (`circuit.inverse()`) maps `|t⟩` to
`v`.  The children / multiplexers are those of the executable model (`childrenAt_plain`,
`levelPlan_mux_plain`).  `UCGEInitialize` is the instance where `d q` is the simplified gate's
diagonal spread over the dropped controls (`applyDiagonalE`) and `UcSpec` follows from qiskit's
specification of the simplified gate by `C12_ucge_simplify`. -/
theorem C12_column_t (hN : NrmSpec nrm) (hz : ZeroSpec isZero) (preserve : Bool) (n t : Nat)
    (hn : 1 ≤ n) (ht : t < 2 ^ n)
    (d : Nat → Nat → K) (hd : ∀ q k, d q k * star (d q k) = 1) (hlast : ∀ k, d (n - 1) k = 1)
    (v : Nat → K) (hv : ∑ i ∈ range (2 ^ n), v i * star (v i) = 1) (hv0 : ∀ i, 2 ^ n ≤ i → v i = 0)
    (Uc : Nat → Vec K → Vec K) (hU : UcSpec nrm isZero preserve n t d v Uc) :
    fwd (preGate nrm isZero preserve t d v) Uc n v = delta t
    ∧ (∀ W : Vec K → Vec K, (∀ ψ, W (fwd (preGate nrm isZero preserve t d v) Uc n ψ) = ψ) →
        W (delta t) = v)
    ∧ (∀ eqv q, q ≤ n →
        childrenAt (ringOps K nrm isZero) false eqv n t d v q = genChildren nrm (phOf t d) v q) := by
  have h := fwd_column hN hz preserve n t hn ht d hd hlast v hv hv0 Uc hU
  exact ⟨h, fun W hW => by rw [← h, hW], fun eqv q hq => childrenAt_plain eqv n t d v q hq⟩

/-- **C12 (preserve).**  For all `n`, all `t`, every `v` supported on indices `≥ t`, with
`preserve_previous`: for every `j < t` the disentangling circuit maps `|j⟩` to `z·|j⟩` with
`|z| = 1` after every number of levels (at each level the entries with control value below
`r_gate` are identities, the pulled-out entry is the identity or the diagonal operator and is
applied only to the labels that agree with `t` off the target wire, `agreesOff`); consequently
any linear left inverse (`circuit.inverse()`) maps `|j⟩` to `conj(z)·|j⟩`. -/
theorem C12_preserve (hN : NrmSpec nrm) (hz : ZeroSpec isZero) (n t j : Nat) (hj : j < t)
    (d : Nat → Nat → K) (hd : ∀ q k, d q k * star (d q k) = 1) (v : Nat → K)
    (hv : ∀ i, i < t → v i = 0)
    (Uc : Nat → Vec K → Vec K) (hU : UcSpec nrm isZero true n t d v Uc) :
    ∃ z : K, z * star z = 1 ∧
      fwd (preGate nrm isZero true t d v) Uc n (delta j) = sdelta z j ∧
      (∀ W : Vec K → Vec K, (∀ ψ, W (fwd (preGate nrm isZero true t d v) Uc n ψ) = ψ) →
        (∀ (c : K) (ψ : Vec K), W (fun i => c * ψ i) = fun i => c * W ψ i) →
        W (delta j) = sdelta (star z) j) := by
  obtain ⟨z, hz1, hf⟩ := fwd_preserve hN hz n t j hj d hd v hv Uc hU n (Nat.le_refl n)
  refine ⟨z, hz1, hf, fun W hW hlin => ?_⟩
  have h1 : W (sdelta z j) = delta j := by rw [← hf, hW]
  have h2 : (delta j : Vec K) = fun i => star z * sdelta z j i := by
    funext i
    unfold delta sdelta
    by_cases h : i = j
    · rw [if_pos h, if_pos h, mul_comm, hz1]
    · rw [if_neg h, if_neg h, mul_zero]
  rw [h2, hlin, h1]
  funext i
  unfold delta sdelta
  by_cases h : i = j
  · rw [if_pos h, if_pos h, mul_one]
  · rw [if_neg h, if_neg h, mul_zero]

/-- **C12 (preserve: `r_gate`, `ctrl_state`, wires).**  For every `n`, every target wire `q < n`
and every `t < 2^n`: `r_gate` of that level is `t // 2^(q+1)`; the `ctrl_state` string the code
assembles (`str_target[0:q][::-1]`, prefixed by `bin(r_gate)[2:].zfill(n-q-1)` when shorter than
`n-1`) has exactly `n-1` characters, and read the way qiskit reads it (last character ↔ first
control) on `out_gate_ctrl = [0..q-1] + [q+1..n-1]` it holds for a label `i < 2^n` **iff** `i`
agrees with `t` on every wire except the target — the condition `agreesOff` under which
`C12_preserve` / `C12_column_t` apply the pulled-out gate. -/
theorem C12_preserve_ctrl (n t q : Nat) (hq : q < n) (ht : t < 2 ^ n) :
    rGateAt t q = t / 2 ^ q / 2 ∧
    ∃ lits, ctrlLits (outGateCtrl n q) (ctrlState n t q (rGateAt t q) (n - q - 1)) = some lits ∧
      ∀ i, i < 2 ^ n → (ctrlOk lits (bitsOf i) = true ↔ agreesOff q t i) :=
  ⟨rGateAt_eq t q, ctrl_lits_spec n t q hq ht⟩

example : ctrlState 3 5 1 (rGateAt 5 1) 1 = [true, true] ∧ outGateCtrl 3 1 = [0, 2] := by decide

/-
  **C12 (UCGE simplification) — full statement (not proved in full):**
    for `len = 2^m`, `(dc, kept) = simplify eqv mux len n level`, `pos = ctrlQc …` the positions of
    the kept controls: `∀ k < 2^m, newMux ops mux kept (gather pos k) = mux k`
    (the simplified list, indexed by the kept controls' bits, is the original multiplexer).
  Proved below (`_partial`): every control reported in `dont_carry` is a control wire of the level
  along which the operator list is periodic, hence the multiplexer does not read it.  Missing: that
  the filtered list `[m for m in mux_cpy if m is not None]` indexed by `gather pos k` is `mux` at
  `k` with the dropped bits cleared (a rank-in-filtered-list lemma); the kept indices, kept
  controls and the resulting children are diffed against the real class on every run instead.
-/
/-- **C12 (UCGE simplification, partial).**  For every multiplexer with `2^m` entries and an
equality test that only accepts equal matrices: each control wire `x` that `_simplify` /
`_repetition_search` puts into `dont_carry` is `target + j + 1` for a control position `j < m`
along which the operator list is periodic with stride `2^j` over its whole length
(`mux k = mux (k + 2^j)` whenever bit `j` of `k` is `0`), and therefore the multiplexer acts, on
every label, exactly as the one that ignores that control (`clearBit j`): dropping the control
leaves the multiplexer unchanged. -/
theorem C12_ucge_simplify_partial {R : Type} [Add R] [Mul R] (eqv : Mat2 R → Mat2 R → Bool)
    (hs : EqvSound eqv) (mux : Nat → Mat2 R) (m n level x : Nat)
    (hx : x ∈ (simplify eqv mux (2 ^ m) n level).1) :
    ∃ j, x = (n - level) + j + 1 ∧ j < m ∧ PeriodicAt mux (2 ^ m) (2 ^ j) ∧
      ∀ (q : Nat) (ψ : Vec R) (i : Nat), i / 2 ^ q / 2 < 2 ^ m →
        muxApply mux q ψ i = muxApply (fun h => mux (clearBit j h)) q ψ i := by
  obtain ⟨j, hxj, hj, hp⟩ := simplify_dropped eqv hs mux m n level x hx
  exact ⟨j, hxj, hj, hp, fun q ψ i hi => muxApply_drop mux (2 ^ m) j q hp ψ i hi⟩

/-- entrywise equality on natural-number matrices: a sound `eqv`. -/
def c12ExEqv (a b : Mat2 Nat) : Bool := a.a == b.a && a.b == b.b && a.c == b.c && a.d == b.d

/-- Non-vacuity: `c12ExEqv` is sound, and the list `[A, B, A, B]` (equal at stride 2) makes
`_simplify` drop control 2 of a level with target 0 (`n = level = 3`), and only that one. -/
example : EqvSound c12ExEqv ∧ (simplify c12ExEqv
    (fun k => if k % 2 = 0 then ⟨1, 0, 0, 1⟩ else ⟨2, 0, 0, 1⟩) 4 3 3).1 = [2] := by
  refine ⟨?_, by decide⟩
  intro a b h
  cases a; cases b
  simp_all [c12ExEqv]

/-- the vector `(0, i)` of the non-vacuity example. -/
noncomputable def c12ExV : Nat → ℂ := fun i => if i = 1 then Complex.I else 0

/-- Non-vacuity: over `ℂ` with the true pair norm all hypotheses of `C12_column_t` /
`C12_preserve` are met by `n = 1`, `t = 1`, `v = (0, i)`, trivial diagonals and the exact
multiplexer as circuit. -/
example : ∃ (Uc : Nat → Vec ℂ → Vec ℂ),
    (∑ i ∈ range (2 ^ 1), c12ExV i * star (c12ExV i) = 1) ∧ (∀ i, i < 1 → c12ExV i = 0) ∧ c12ExV 1 ≠ 0 ∧
    UcSpec cnrm cIsZero true 1 1 (fun _ _ => 1) c12ExV Uc ∧
    fwd (preGate cnrm cIsZero true 1 (fun _ _ => 1) c12ExV) Uc 1 c12ExV = delta 1 := by
  have hsum : ∑ i ∈ range (2 ^ 1), c12ExV i * star (c12ExV i) = 1 := by
    simp [c12ExV]
  have hU : UcSpec cnrm cIsZero true 1 1 (fun _ _ => 1) c12ExV
      (fun q ψ => muxApply (usedMux cnrm cIsZero true 1 (fun _ _ => 1) c12ExV q) q ψ) := by
    intro q _ ψ i; rw [one_mul]
  refine ⟨fun q ψ => muxApply (usedMux cnrm cIsZero true 1 (fun _ _ => 1) c12ExV q) q ψ, hsum, ?_, ?_, hU, ?_⟩
  · intro i hi; simp [c12ExV]; omega
  · simp [c12ExV]
  · refine (C12_column_t nrmSpec_complex zeroSpec_complex true 1 1 (by omega) (by norm_num)
      (fun _ _ => 1) (by simp) (by simp) c12ExV hsum ?_ _ hU).1
    intro i hi; simp [c12ExV]; omega

/-- Non-vacuity of `C12_level`: in `ℂ`, the pair `(3, 4i)` has parent amplitude `5`. -/
example : cnrm 3 (4 * Complex.I) = 5 := by
  have h : Complex.normSq 3 + Complex.normSq (4 * Complex.I) = 5 * 5 := by
    simp [Complex.normSq_apply]; norm_num
  rw [cnrm, h, Real.sqrt_mul_self (by norm_num)]
  norm_num

/-- **C12 (UCGE simplification, full statement; supersedes `C12_ucge_simplify_partial`).**  For
every multiplexer list `mux` of length `2^m` handled at `tree_level = m + 1 ≤ n` (target wire
`n - level`, controls `n-level+1 … n-1`) and an equality test that only accepts equal matrices:
with `(dont_carry, kept) = _simplify(mux, level)` (the model of `_repetition_search` and of
`[m for m in mux_cpy if m is not None]`), `mult_controls = [x for x in old_controls if x not in
dont_carry]` and `ctrl_qc` the positions of the kept controls computed as in
`UCGEInitialize._apply_diagonal` (`size_required = len(dont_carry) + len(controls)`):
* `size_required` is the number `m` of controls of the level;
* the shortened list, read through the kept control bits of the control value `k` (`gather`), **is
  the original multiplexer entry**, `new_mux[gather ctrl_qc k] = mux[k]` for every `k < 2^m`;
* hence the simplified uniformly controlled gate acts on every label exactly as the original one
  (`muxApply`), for every target position `q` and every state `ψ`. -/
theorem C12_ucge_simplify {R : Type} [Add R] [Mul R] (o : COps R) (eqv : Mat2 R → Mat2 R → Bool)
    (hs : EqvSound eqv) (mux : Nat → Mat2 R) (m n level : Nat) (hlev : level = m + 1)
    (hn : level ≤ n) :
    let s := simplify eqv mux (2 ^ m) n level
    let controls := keptControls (ctrlTarg n level).1 s.1
    let pos := ctrlQc n (s.1.length + controls.length) controls
    s.1.length + controls.length = m
    ∧ (∀ k, k < 2 ^ m → newMux o mux s.2 (gather pos k) = mux k)
    ∧ (∀ (q : Nat) (ψ : Vec R) (i : Nat), i / 2 ^ q / 2 < 2 ^ m →
        muxApply (fun h => newMux o mux s.2 (gather pos h)) q ψ i = muxApply mux q ψ i) := by
  intro s controls pos
  obtain ⟨_, hlen, hg⟩ := simplify_gather o eqv hs mux m n level hlev hn
  refine ⟨hlen, hg, fun q ψ i hi => ?_⟩
  have e : newMux o mux s.2 (gather pos (i / 2 ^ q / 2)) = mux (i / 2 ^ q / 2) := hg _ hi
  unfold muxApply
  simp only [e]

/-- **C12 (UCGE simplification at a level of the loop).**  For every level `1 ≤ level ≤ n` of
`UCGEInitialize` (any `n`, `t`, children vector): the plan the executable model computes —
`dont_carry`, kept indices, kept controls — satisfies `new_mux[gather ctrl_qc k] = mux[k]` for
every control value `k` of the level's multiplexer. -/
theorem C12_ucge_simplify_level {R : Type} [Add R] [Mul R] (o : COps R) (eqv : Mat2 R → Mat2 R → Bool)
    (hs : EqvSound eqv) (n t level : Nat) (h1 : 1 ≤ level) (hn : level ≤ n) (children : Nat → R) :
    let p := levelPlan o true eqv n t level children
    ∀ k, k < p.muxLen →
      newMux o p.mux p.kept (gather (ctrlQc n (p.dontCarry.length + p.controls.length) p.controls) k)
        = p.mux k := by
  intro p k hk
  exact (C12_ucge_simplify o eqv hs (buildMux o (bitTarget n t level) children) (level - 1) n level
    (by omega) hn).2.1 k hk

/-- Non-vacuity: for `[A, B, A, B]` at `n = level = 3` control wire 2 is dropped, the kept indices
are `[0, 1]`, the kept control 1 sits at position 0 of the carried diagonal, and the control value
`k = 3` is read as entry `1` of the shortened list. -/
example :
    let mux : Nat → Mat2 Nat := fun k => if k % 2 = 0 then ⟨1, 0, 0, 1⟩ else ⟨2, 0, 0, 1⟩
    let s := simplify c12ExEqv mux 4 3 3
    s.1 = [2] ∧ s.2 = [0, 1] ∧ keptControls (ctrlTarg 3 3).1 s.1 = [1]
      ∧ ctrlQc 3 (s.1.length + (keptControls (ctrlTarg 3 3).1 s.1).length)
          (keptControls (ctrlTarg 3 3).1 s.1) = [0]
      ∧ gather [0] 3 = 1 := by decide

end Qclib
