import QclibModel.Model.Mcx
