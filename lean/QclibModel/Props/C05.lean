import QclibModel.Proofs.McxLinear
import QclibModel.Proofs.McxReal
import QclibModel.Proofs.McxAoLinear
/-
  C05 — multi-controlled X gates of qclib/gates/mcx.py, toffoli.py, util.py are exact permutations
  that restore every borrowed qubit, whatever state it is in.
  Property theorems only; helper lemmas live in Proofs/Mcx*.lean.  (The majority gate is in
  Props/C05Majority.lean.)

  Semantics: a state is an amplitude function `ψ : (Nat → Bool) → R`; circuits are equal when they
  agree on *every* `ψ`, so every computational-basis and every superposed state of the borrowed
  qubits (and of all spectators) is covered.  `R` is any commutative ring with
  `c = cs (π/4)`, `s = sn (π/4)` satisfying `c² + s² = 1`, `c² - s² = 2cs` (`Pi8`); the instance
  `cos(π/8)`, `sin(π/8)` over `ℂ` is `pi8_real` (from Mathlib).
-/
namespace Qclib
open RotSem

variable {Θ R : Type} [CommRing R] [RotSem Θ R]

/-- **C05 (relative-phase Toffoli).** `Toffoli()` of toffoli.py on wires `[c0, c1, t]`
(`u(-π/4) cx u(-π/4) cx u(π/4) cx u(π/4)`) applies to `t` the matrix
`c1 ? (c0 ? X : -Z) : I`, on every state. -/
theorem C05_toffoli_relphase (o : McxAngles Θ) (hp : Pi8 R o) (c0 c1 t : Nat) (h0 : c0 ≠ t)
    (h1 : c1 ≠ t) (ψ : State R) :
    sem (toffoli o .none c0 c1 t) ψ
      = applyFam (fun b => (relTofMat (b c1) (b c0) : Mat2 R)) t ψ :=
  toffoli_relphase o hp c0 c1 t h0 h1 ψ

/-- **C05 (conjugation by the two halves).** Let `W = sp σ π` be a signed relabelling
(`(W ψ) b = σ b * ψ (π b)`) denoted by `body` that does not see wire `t`, keeps wire `c0`, and
flips wire `a` exactly where `P` holds.  Then `Toffoli(cancel='right')(c0, a; t) ; body ;
Toffoli(cancel='left')(c0, a; t)` equals the relative-phase Toffoli family
`P ? (c0 ? X : -Z) : I` on `t` followed by `W`. -/
theorem C05_halves (o : McxAngles Θ) (hp : Pi8 R o) (c0 a t : Nat) (σ : Bits → R) (π : Bits → Bits)
    (P : Bits → Bool) (body : Circ Θ) (hbody : ∀ ψ : State R, sem body ψ = sp σ π ψ)
    (hct : c0 ≠ t) (hat : a ≠ t) (hf : FreeAt t σ π) (hc0 : ∀ b, (π b) c0 = b c0)
    (ha : ∀ b, (π b) a = xor (b a) (P b)) (hP : ∀ b, P (π b) = P b)
    (hPt : ∀ b v, P (setBit b t v) = P b) (ψ : State R) :
    sem (toffoli o .right c0 a t ++ body ++ toffoli o .left c0 a t) ψ
      = sp σ π (applyFam (fun b => (relTofMat (P b) (b c0) : Mat2 R)) t ψ) :=
  halves o hp c0 a t σ π P body hbody hct hat hf hc0 ha hP hPt ψ

/-- **C05 (dirty-ancilla V-chain, exact mode).** For every number of controls `k ≥ 1`, every number
of targets `nt ≥ 1`, every `ctrl_state` the code accepts, and every assignment of pairwise
distinct wires to the `k` controls, `k-2` borrowed qubits and `nt` targets, the circuit
`McxVchainDirty(k, nt, ctrl_state).definition` (all branches: `k = 1, 2, 3` and the general ladder)
maps every state `ψ` to `ψ ∘ (flip all targets iff the controls match the pattern)`: it is that
classical permutation and the identity on every borrowed qubit in any (superposed) state. -/
theorem C05_vchain (o : McxAngles Θ) (hp : Pi8 R o) (k nt : Nat) (c a t : Nat → Nat)
    (L : VLayout k nt c a t) (cs : Option (List Bool)) (circ : Circ Θ)
    (h : vchainW o k nt c a t cs false false = some circ) (ψ : State R) :
    sem circ ψ = mcxIdeal (patLits k c cs) ((List.range nt).map t) ψ := by
  simp only [vchainW] at h
  split at h
  · exact absurd h (by simp)
  · rename_i hk
    split at h
    · exact absurd h (by simp)
    · rename_i xs hxs
      simp only [Option.some.injEq] at h
      subst h
      exact ctrl_exact k c cs _ xs _ hxs L.hcc
        (fun φ => body_exact o hp k nt (by omega) (by omega) c a t L false (Or.inl rfl) φ) ψ

/-- **C05 (V-chain, relative-phase mode, one target, `k ≥ 3`).** The circuit equals the same
permutation times the explicit diagonal `relSign` of signs `±1` (unit modulus): `-1` exactly where
the first `k-1` controls match, the last does not, and the target reads 0.  Borrowed qubits are
restored for every state.  (For `k ≤ 2` the flag has no effect; see
`C05_vchain_relphase_small`.) -/
theorem C05_vchain_relphase (o : McxAngles Θ) (hp : Pi8 R o) (k : Nat) (hk : 3 ≤ k)
    (c a t : Nat → Nat) (L : VLayout k 1 c a t) (cs : Option (List Bool)) (circ : Circ Θ)
    (h : vchainW o k 1 c a t cs true false = some circ) (ψ : State R) :
    sem circ ψ = fun b => relSign k c cs (t 0) b * mcxIdeal (patLits k c cs) [t 0] ψ b := by
  simp only [vchainW] at h
  split at h
  · exact absurd h (by simp)
  · split at h
    · exact absurd h (by simp)
    · rename_i xs hxs
      simp only [Option.some.injEq] at h
      subst h
      exact ctrl_relphase k (by omega) c cs (t 0) xs _ hxs L.hcc
        (fun i hi => L.hct i 0 hi (by omega))
        (fun φ => body_relphase o hp k 1 hk (by omega) c a t L φ) ψ

/-- With one or two controls the `relative_phase` flag changes nothing: the gate is exact. -/
theorem C05_vchain_relphase_small (o : McxAngles Θ) (hp : Pi8 R o) (k nt : Nat) (hk : k ≤ 2)
    (c a t : Nat → Nat) (L : VLayout k nt c a t) (cs : Option (List Bool)) (circ : Circ Θ)
    (h : vchainW o k nt c a t cs true false = some circ) (ψ : State R) :
    sem circ ψ = mcxIdeal (patLits k c cs) ((List.range nt).map t) ψ := by
  simp only [vchainW] at h
  split at h
  · exact absurd h (by simp)
  · rename_i hk0
    split at h
    · exact absurd h (by simp)
    · rename_i xs hxs
      simp only [Option.some.injEq] at h
      subst h
      exact ctrl_exact k c cs _ xs _ hxs L.hcc
        (fun φ => body_exact o hp k nt (by omega) (by omega) c a t L true (Or.inr hk) φ) ψ

/-- **C05 (single-ancilla LinearMcx).** For every `k ≥ 1` controls (wires `0..k-1`, target `k`,
dirty ancilla `k+1`) and every accepted `ctrl_state`, `LinearMcx(k, ctrl_state).definition` — the
hard-coded branches for `k ≤ 5` and the split into two alternating V-chains for `k ≥ 6` — maps
every state `ψ` to `ψ ∘ (flip the target iff the controls match)`: the ancilla and all controls
(which the sub-chains borrow) are restored, whatever state they are in. -/
theorem C05_linear (o : McxAngles Θ) (hp : Pi8 R o) (k : Nat) (cs : Option (List Bool))
    (circ : Circ Θ) (h : linearMcx o k cs false = some circ) (ψ : State R) :
    sem circ ψ = mcxIdeal (patLits k (fun i => i) cs) [k] ψ := by
  simp only [linearMcx] at h
  split at h
  · exact absurd h (by simp)
  · rename_i hk
    split at h
    · exact absurd h (by simp)
    · rename_i xs hxs
      simp only [Option.some.injEq] at h
      subst h
      exact ctrl_exact k (fun i => i) cs [k] xs _ hxs (fun i j _ _ e => e)
        (fun φ => linear_body o hp k (by omega) φ) ψ

/-- **C05 (`apply_ctrl_state`).** For every pattern string the code accepts: if `body` flips the
wires `ts` exactly when all `k` controls read 1, then `x`-layer `; body ;` `x`-layer (an `x` on
control `i` for every `'0'` at position `i` of the *reversed* string) flips `ts` exactly when
control `i` reads the `i`-th character of the reversed string, for all `i`. -/
theorem C05_ctrl_state (k : Nat) (c : Nat → Nat) (cs : Option (List Bool)) (ts : List Nat)
    (xs body : Circ Θ) (hxs : ctrlXs k c cs = some xs)
    (hcc : ∀ i j, i < k → j < k → c i = c j → i = j)
    (hbody : ∀ ψ : State R, sem body ψ = mcxIdeal (patLits k c none) ts ψ) (ψ : State R) :
    sem (xs ++ body ++ xs) ψ = mcxIdeal (patLits k c cs) ts ψ := by
  refine ctrl_exact k c cs ts xs body hxs hcc (fun φ => ?_) ψ
  rw [hbody]
  funext b
  have := all1_fl k c none (fun i hi => by simp [csBit] at hi) hcc b k (Nat.le_refl k)
  simp only [csFlips, flipAll_nil] at this
  simp only [mcxIdeal, condFlipAll, this]

/-! ### Non-vacuity -/

/-- The hypothesis `Pi8` holds for the real gate parameters `π/4, -π/4, 0` over `ℂ`. -/
example : Pi8 ℂ realAngles := pi8_real

/-- The register layout of the definition (controls, borrowed qubits, targets) is a `VLayout`. -/
theorem vlayout_std (k nt : Nat) :
    VLayout k nt (fun i => i) (fun i => k + i) (fun i => k + (k - 2) + i) := by
  constructor <;> intros <;> omega

/-- The model accepts every `ctrl_state` string of length at most `k` (in particular all `2^k`
patterns of length `k`), so the theorems above are not vacuous for any of them. -/
theorem ctrlXs_defined (k : Nat) (c : Nat → Nat) (p : List Bool) (hp : p.length ≤ k) :
    ∃ xs : Circ Θ, ctrlXs k c (some p) = some xs := by
  simp only [ctrlXs]
  rw [if_pos]
  · exact ⟨_, rfl⟩
  · rw [List.all_eq_true]
    intro i hi
    have := List.mem_range.mp hi
    rw [List.length_reverse] at this
    simp only [Bool.or_eq_true, decide_eq_true_eq]
    right
    omega

theorem vchainW_defined (o : McxAngles Θ) (k nt : Nat) (hk : 1 ≤ k) (hnt : 1 ≤ nt)
    (c a t : Nat → Nat) (p : List Bool) (hp : p.length ≤ k) (rp ao : Bool) :
    ∃ circ, vchainW o k nt c a t (some p) rp ao = some circ := by
  obtain ⟨xs, hxs⟩ := ctrlXs_defined (Θ := Θ) k c p hp
  have h0 : ¬ (k = 0 ∨ nt = 0) := by omega
  simp only [vchainW, if_neg h0, hxs]
  exact ⟨_, rfl⟩

theorem linearMcx_defined (o : McxAngles Θ) (k : Nat) (hk : 1 ≤ k) (p : List Bool)
    (hp : p.length ≤ k) (ao : Bool) : ∃ circ, linearMcx o k (some p) ao = some circ := by
  obtain ⟨xs, hxs⟩ := ctrlXs_defined (Θ := Θ) k (fun i => i) p hp
  have h0 : ¬ (k = 0) := by omega
  simp only [linearMcx, if_neg h0, hxs]
  exact ⟨_, rfl⟩

/-- Seven controls with pattern `1011010`, five borrowed qubits, three targets, over `ℂ` with the
real angles: the circuit exists and denotes the ideal permutation. -/
example (ψ : State ℂ) :
    ∃ circ, vchain realAngles 7 3 (some (parseCs "1011010")) false false = some circ ∧
      sem circ ψ = mcxIdeal (patLits 7 (fun i => i) (some (parseCs "1011010"))) [12, 13, 14] ψ := by
  refine ⟨_, rfl, ?_⟩
  exact C05_vchain realAngles pi8_real 7 3 _ _ _ (vlayout_std 7 3) _ _ rfl ψ

/-- Relative-phase mode, five controls. -/
example (ψ : State ℂ) :
    ∃ circ, vchain realAngles 5 1 none true false = some circ ∧
      sem circ ψ = fun b => relSign 5 (fun i => i) none 8 b
        * mcxIdeal (patLits 5 (fun i => i) none) [8] ψ b := by
  refine ⟨_, rfl, ?_⟩
  exact C05_vchain_relphase realAngles pi8_real 5 (by omega) _ _ _ (vlayout_std 5 1) _ _ rfl ψ

/-- `LinearMcx` with nine controls (split branch) and a pattern. -/
example (ψ : State ℂ) :
    ∃ circ, linearMcx realAngles 9 (some (parseCs "110100101")) false = some circ ∧
      sem circ ψ = mcxIdeal (patLits 9 (fun i => i) (some (parseCs "110100101"))) [9] ψ := by
  refine ⟨_, rfl, ?_⟩
  exact C05_linear realAngles pi8_real 9 _ _ rfl ψ

/-! ### `action_only=True`

With `action_only=True` the V-chain stops after its first pass: the targets are flipped correctly
but the borrowed qubits are left "dirty".  The theorems below say exactly what is left: the ideal
MCX followed (in time) by a signed relabelling `S = sp σ π` (`(S ψ) b = σ b · ψ (π b)`) that is an
involution, changes only the borrowed wires and reads only the first `k-1` controls — it is the
sweep `W` of the proof of `C05_vchain`.  qiskit's `.inverse()` of the circuit (`Circ.inv`: reversed
list, `u(θ,φ,λ) ↦ u(-θ,-λ,-φ)`) is `S` followed by the ideal MCX, so a pair
`chain ; G ; chain.inverse()` around any `G` that commutes with `S` (any gate on wires `S` does not
see: the last control, the targets, spectators) is the pair of ideal MCX gates around `G`
(`C05_action_only_bracket`).  This is how `Ldmcsu` (eigenbasis path), `LdMcSpecialUnitary` and
`Qdmcu` use the flag (C04). -/

section actionOnly
variable [AddCommGroup Θ] [RotLaws Θ R]

/-- **C05_vchain_action_only** (`McxVchainDirty(k, nt, ctrl_state, action_only=True)`, every
`k ≥ 1`, `nt ≥ 1`, every accepted pattern, every injective wire layout, every state).  There is a
signed relabelling `S = sp σ π` with
* `⟦circuit⟧ ψ = S (MCX ψ)` and `⟦circuit.inverse()⟧ ψ = MCX (S ψ)` (`MCX` = the ideal
  multi-target multi-controlled X of `C05_vchain`);
* `S` is an involution (`Invol`: `π ∘ π = id`, `σ b · σ (π b) = 1`);
* `S` neither reads nor writes any wire other than the controls `c 0 … c (k-2)` and the borrowed
  qubits `a 0 … a (k-3)` (`FreeAt`) — the last control, all targets and all spectators are free;
* `π` changes no wire other than the borrowed qubits.
For `k ≤ 2` and `k = 3, nt = 1` the code ignores the flag and `S` is the identity. -/
theorem C05_vchain_action_only (o : McxAngles Θ) (hp : Pi8 R o) (k nt : Nat) (c a t : Nat → Nat)
    (L : VLayout k nt c a t) (cs : Option (List Bool)) (circ : Circ Θ)
    (h : vchainW o k nt c a t cs false true = some circ) :
    ∃ (σ : Bits → R) (π : Bits → Bits),
      (∀ ψ : State R, sem circ ψ
        = sp σ π (mcxIdeal (patLits k c cs) ((List.range nt).map t) ψ))
      ∧ (∀ ψ : State R, sem (Circ.inv circ) ψ
        = mcxIdeal (patLits k c cs) ((List.range nt).map t) (sp σ π ψ))
      ∧ Invol σ π
      ∧ (∀ q, (∀ i, i < k - 1 → c i ≠ q) → (∀ i, i < k - 2 → a i ≠ q) → FreeAt q σ π)
      ∧ (∀ b q, (∀ i, i < k - 2 → a i ≠ q) → (π b) q = b q) :=
  vchain_action_only o hp k nt c a t L cs circ h

/-- **C05_action_only_bracket.**  `chain(action_only) ; mid ; chain(action_only).inverse()` equals
`MCX ; mid ; MCX` with the ideal MCX, for every middle circuit that commutes with the leftover
relabelling `S` — in particular (`C05_sp_comm`) for every multi-controlled one-qubit gate whose
target and controls are wires `S` does not see. -/
theorem C05_action_only_bracket (o : McxAngles Θ) (hp : Pi8 R o) (k nt : Nat)
    (c a t : Nat → Nat) (L : VLayout k nt c a t) (cs : Option (List Bool)) (circ : Circ Θ)
    (h : vchainW o k nt c a t cs false true = some circ) :
    ∃ (σ : Bits → R) (π : Bits → Bits),
      (∀ q, (∀ i, i < k - 1 → c i ≠ q) → (∀ i, i < k - 2 → a i ≠ q) → FreeAt q σ π)
      ∧ ∀ (mid : Circ Θ), (∀ φ : State R, sem mid (sp σ π φ) = sp σ π (sem mid φ)) →
        ∀ ψ : State R, sem (circ ++ mid ++ Circ.inv circ) ψ
          = mcxIdeal (patLits k c cs) ((List.range nt).map t)
              (sem mid (mcxIdeal (patLits k c cs) ((List.range nt).map t) ψ)) :=
  vchain_action_only_bracket o hp k nt c a t L cs circ h

omit [RotSem Θ R] [AddCommGroup Θ] [RotLaws Θ R] in
/-- A multi-controlled one-qubit gate on wires a signed relabelling does not see commutes with
it. -/
theorem C05_sp_comm (σ : Bits → R) (π : Bits → Bits) (lits : List (Nat × Bool)) (M : Mat2 R)
    (t : Nat) (ht : FreeAt t σ π) (hl : ∀ cv ∈ lits, FreeAt cv.1 σ π) (ψ : State R) :
    applyMcu lits M t (sp σ π ψ) = sp σ π (applyMcu lits M t ψ) :=
  applyMcu_sp_comm σ π lits M t ht hl ψ

/-- **C05_linear_action_only** (`LinearMcx(k, ctrl_state, action_only=True)`, every `k ≥ 1`, every
accepted pattern, every state): the circuit is the ideal MCX followed by an involutive signed
relabelling `S` that does not see the target `k`, the ancilla `k+1` or any wire above (for
`k ≥ 6` it is the sweep of the last of the four sub-chains, on borrowed *control* wires; for
`k ≤ 5` the identity), and its `.inverse()` is `S` followed by the ideal MCX. -/
theorem C05_linear_action_only (o : McxAngles Θ) (hp : Pi8 R o) (k : Nat)
    (cs : Option (List Bool)) (circ : Circ Θ) (h : linearMcx o k cs true = some circ) :
    ∃ (σ : Bits → R) (π : Bits → Bits),
      (∀ ψ : State R, sem circ ψ = sp σ π (mcxIdeal (patLits k (fun i => i) cs) [k] ψ))
      ∧ (∀ ψ : State R, sem (Circ.inv circ) ψ
          = mcxIdeal (patLits k (fun i => i) cs) [k] (sp σ π ψ))
      ∧ Invol σ π ∧ ∀ q, k ≤ q → FreeAt q σ π :=
  linear_action_only o hp k cs circ h

end actionOnly

/-- Non-vacuity of `C05_vchain_action_only`: seven controls with pattern `1011010`, five borrowed
qubits, three targets, over `ℂ` with the real angles (general branch: `S` is the genuine sweep).
The last control (wire 6), the targets (12, 13, 14) and a spectator (99) are free. -/
example : ∃ circ, vchain realAngles 7 3 (some (parseCs "1011010")) false true = some circ ∧
    ∃ (σ : Bits → ℂ) (π : Bits → Bits),
      (∀ ψ : State ℂ, sem circ ψ
        = sp σ π (mcxIdeal (patLits 7 (fun i => i) (some (parseCs "1011010"))) [12, 13, 14] ψ))
      ∧ (∀ ψ : State ℂ, sem (Circ.inv circ) ψ
        = mcxIdeal (patLits 7 (fun i => i) (some (parseCs "1011010"))) [12, 13, 14] (sp σ π ψ))
      ∧ Invol σ π ∧ FreeAt 6 σ π ∧ FreeAt 12 σ π ∧ FreeAt 99 σ π := by
  refine ⟨_, rfl, ?_⟩
  obtain ⟨σ, π, h1, h2, h3, h4, -⟩ :=
    C05_vchain_action_only (R := ℂ) realAngles pi8_real 7 3 _ _ _ (vlayout_std 7 3)
      (some (parseCs "1011010")) _ rfl
  exact ⟨σ, π, h1, h2, h3, h4 6 (by intros; omega) (by intros; omega),
    h4 12 (by intros; omega) (by intros; omega), h4 99 (by intros; omega) (by intros; omega)⟩

/-- Non-vacuity of `C05_linear_action_only`: nine controls (split branch) with a pattern. -/
example : ∃ circ, linearMcx realAngles 9 (some (parseCs "110100101")) true = some circ ∧
    ∃ (σ : Bits → ℂ) (π : Bits → Bits),
      (∀ ψ : State ℂ, sem circ ψ
        = sp σ π (mcxIdeal (patLits 9 (fun i => i) (some (parseCs "110100101"))) [9] ψ))
      ∧ Invol σ π ∧ ∀ q, 9 ≤ q → FreeAt q σ π := by
  refine ⟨_, rfl, ?_⟩
  obtain ⟨σ, π, h1, -, h3, h4⟩ :=
    C05_linear_action_only (R := ℂ) realAngles pi8_real 9 (some (parseCs "110100101")) _ rfl
  exact ⟨σ, π, h1, h3, h4⟩

end Qclib
