import QclibModel.Proofs.IsometryCcdComplex
import QclibModel.Proofs.IsometryLemma2
import QclibModel.Proofs.IsometryKnill
import QclibModel.Proofs.IsometryExtend
import QclibModel.Proofs.IsometryFullCcd
import QclibModel.Proofs.IsometryFullKnill
import QclibModel.Proofs.IsometryFullCsd
import QclibModel.Proofs.UnitaryFullEx
/-
  C03 — isometry decomposition (`qclib/isometry.py`).  Property theorems only; proofs live in
  Proofs/Isometry*.lean.  PARTIAL by nature: scipy `schur` / `null_space` / `cossin`, qiskit
  `UCGate(up_to_diagonal)` / `DiagonalGate` / `UnitaryGate` / `mcp`, `LowRankInitialize` (C01) and
  `qclib.unitary.unitary` (C02) are specified, not verified.

  Full statement of the property (quantifies over the kernels, hence not a closed theorem):
    ∀ n ≥ 1, 0 ≤ m ≤ n, V ∈ ℂ^{2^n × 2^m} with V†V = I, scheme ∈ {ccd, csd, knill (n ≥ 2)}:
      Operator(decompose(V, scheme))[:, :2^m] = V.
-/
namespace Qclib
open Qclib.Iso Matrix

/-! ### Lemma 2 (`_unitary`) -/

/-- **C03 (Lemma 2).**  Over any commutative `*`-ring: `_unitary([[a],[b]], basis)` — the identity
when the pair is zero (`isZero`), otherwise `s·[[ā, b̄], [-b, a]]` (`basis = 0`) or its row swap
(`basis ≠ 0`) with `s = 1/‖(a,b)‖` self-adjoint, `s²(aā + bb̄) = 1` — is unitary on both sides, its
product with `(a, b)ᵀ` has the non-`basis` component `0`, and for a non-zero pair it sends the
normalised vector `(s·a, s·b)` to `e_basis`. -/
theorem C03_lemma2 {R : Type} [CommRing R] [StarRing R] (s a b : R) (basis : Nat) (isZero : Bool)
    (hz : isZero = true → a = 0 ∧ b = 0) (hs : isZero = false → star s = s)
    (hn : isZero = false → s * s * (a * star a + b * star b) = 1) :
    let M := L2.unitary2 star s a b basis isZero
    (Mat2.mul M M.dagger = Mat2.one ∧ Mat2.mul M.dagger M = Mat2.one) ∧
    (if basis = 0 then M.c * a + M.d * b else M.a * a + M.b * b) = 0 ∧
    (isZero = false →
      M.a * (s * a) + M.b * (s * b) = (if basis = 0 then 1 else 0) ∧
      M.c * (s * a) + M.d * (s * b) = (if basis = 0 then 0 else 1)) :=
  L2.unitary2_spec s a b basis isZero hz hs hn

/-- Non-vacuity over `ℂ`: for every non-zero pair the exact normalisation `1/√(|a|²+|b|²)` meets the
hypotheses, so the Lemma-2 matrix is unitary, maps `(a,b)/‖(a,b)‖` to `e_basis` and zeroes the other
component. -/
example (a b : ℂ) (h : a ≠ 0 ∨ b ≠ 0) (basis : Nat) :
    let s := L2.invNorm a b
    let M := lemma2 star s a b basis
    (Mat2.mul M M.dagger = Mat2.one ∧ Mat2.mul M.dagger M = Mat2.one) ∧
    (M.a * (s * a) + M.b * (s * b) = (if basis = 0 then 1 else 0) ∧
     M.c * (s * a) + M.d * (s * b) = (if basis = 0 then 0 else 1)) ∧
    (if basis = 0 then M.c * a + M.d * b else M.a * a + M.b * b) = 0 :=
  L2.lemma2_complex a b h basis

/-! ### Knill -/

/-- **C03 (Knill's product).**  Over any commutative `*`-ring, for vectors `w_i` that are
ORTHONORMAL (`⟨w_i|w_j⟩ = δ_ij` — what the complex Schur form of a normal matrix guarantees and
`np.linalg.eig` did not on repeated eigenvalues) and complete (`Σ|w_i⟩⟨w_i| = 1`), for ANY
duplicate-free enumeration `l` of the indices (any order of the circuit blocks) and any rule `keep`
that drops only eigenvalues equal to `1` (the code drops `|arg| ≤ 1e-7`): the ordered product of the
retained factors `1 + (λ_i - 1)|w_i⟩⟨w_i|` equals the spectral form `Σ λ_i |w_i⟩⟨w_i|`; and before
completeness is used, the product over any duplicate-free list is `1 + Σ (λ_i - 1)|w_i⟩⟨w_i|`. -/
theorem C03_knill {ι κ R : Type} [CommRing R] [StarRing R] [Fintype ι] [DecidableEq ι]
    [DecidableEq κ] [Fintype κ] (w : κ → ι → R) (lam : κ → R)
    (horth : ∀ i j, star (w i) ⬝ᵥ w j = if i = j then 1 else 0) :
    (∀ l : List κ, l.Nodup →
      (l.map (fun i => 1 + (lam i - 1) • Knill.proj (w i))).prod
        = 1 + (l.map (fun i => (lam i - 1) • Knill.proj (w i))).sum) ∧
    (∑ i, Knill.proj (w i) = 1 → ∀ (keep : κ → Bool), (∀ i, keep i = false → lam i = 1) →
      ∀ l : List κ, l.Nodup → (∀ i, i ∈ l) →
      ((l.filter keep).map (fun i => 1 + (lam i - 1) • Knill.proj (w i))).prod
        = ∑ i, lam i • Knill.proj (w i)) :=
  ⟨Knill.knill_product w lam horth,
   fun hcomp keep hkeep l hnd hall => Knill.knill_kept_complete w lam horth hcomp keep hkeep l hnd hall⟩

/-- Non-vacuity: the standard basis of `ℤ²` is orthonormal. -/
example : ∀ i j : Fin 2, star ((fun (i : Fin 2) (x : Fin 2) => if x = i then (1 : ℤ) else 0) i)
    ⬝ᵥ (fun (i : Fin 2) (x : Fin 2) => if x = i then (1 : ℤ) else 0) j = if i = j then 1 else 0 := by
  decide

/-- **C03 (Knill's circuit factor).**  (a) If `A` (the state preparation) is unitary with column
`i0 = |0…0⟩` equal to `w`, then `A · diag(z at i0, 1 elsewhere) · A† = 1 + (z - 1)|w⟩⟨w|` — the block
`prep† ; X^{⊗n} ; MCP ; X^{⊗n} ; prep` the code emits.  (b) In the amplitude semantics, for all
`n ≥ 1`: X on wires `0 … n-1`, the phase `z` on wire `n-1` controlled on wires `0 … n-2`, X on all
wires again multiplies the amplitude by `z` exactly on the labels whose wires `0 … n-1` are all `0`. -/
theorem C03_knill_factor {ι R : Type} [CommRing R] [StarRing R] [Fintype ι] [DecidableEq ι]
    (A : Matrix ι ι R) (w : ι → R) (i0 : ι) (z : R) (hA : A * Aᴴ = 1) (hcol : ∀ x, A x i0 = w x) :
    A * Matrix.diagonal (fun x => if x = i0 then z else 1) * Aᴴ = 1 + (z - 1) • Knill.proj w ∧
    ∀ (n : Nat), 1 ≤ n → ∀ (ψ : State R) (b : Bits),
      Knill.xAll n (Knill.mcp n z (Knill.xAll n ψ)) b = (if Knill.allFalse n b then z else 1) * ψ b :=
  ⟨Knill.knill_factor A w i0 z hA hcol, fun n hn ψ b => Knill.knill_sandwich n hn z ψ b⟩

example : (1 : Matrix (Fin 2) (Fin 2) ℤ) * (1 : Matrix (Fin 2) (Fin 2) ℤ)ᴴ = 1 := by simp

/-! ### extension to a unitary -/

/-- **C03 (`_extend_to_unitary`).**  Given the null-space specification (`Vᵀ N = 0`, `N†N = 1`, and
`|rows| = |cols V| + |cols N|`) and `V†V = 1`: the matrix `[V | conj(N)]` the code builds has
`V† conj(N) = 0`, orthonormal columns, and is unitary on both sides. -/
theorem C03_extend {ι μ ν R : Type} [CommRing R] [StarRing R] [Fintype ι] [DecidableEq ι]
    [Fintype μ] [Fintype ν] [DecidableEq μ] [DecidableEq ν] (V : Matrix ι μ R) (Nsp : Matrix ι ν R)
    (hV : Vᴴ * V = 1) (hnull : Vᵀ * Nsp = 0) (hiso : Nspᴴ * Nsp = 1)
    (hcard : Fintype.card ι = Fintype.card μ + Fintype.card ν) :
    Vᴴ * Extend.conjM Nsp = 0 ∧
    (Extend.extend V Nsp)ᴴ * Extend.extend V Nsp = 1 ∧
    Extend.extend V Nsp * (Extend.extend V Nsp)ᴴ = 1 :=
  ⟨Extend.extend_orth V Nsp hnull, (Extend.extend_unitary V Nsp hV hnull hiso hcard).1,
   (Extend.extend_unitary V Nsp hV hnull hiso hcard).2⟩

/-- Non-vacuity, and why the conjugation matters: `V = (3/5, 4i/5)ᵀ`, `N = (4/5, 3i/5)ᵀ` over `ℂ`
meet the whole specification, yet WITHOUT the conjugation `V†N = 24/25 ≠ 0`. -/
example : Extend.exVᴴ * Extend.exV = 1 ∧ Extend.exVᵀ * Extend.exN = 0 ∧ Extend.exNᴴ * Extend.exN = 1
    ∧ Extend.exVᴴ * Extend.exN ≠ 0 :=
  ⟨Extend.ex_spec.1, Extend.ex_spec.2.1, Extend.ex_spec.2.2.1, Extend.ex_unconjugated⟩

/-! ### column-by-column decomposition: the schedule -/

/-- **C03 (index arithmetic of `_g_k`).**  For all `n`, `i < n`, `k < 2^n`: `_b` is the remainder,
`_a` the quotient, `_k_s` the bit; when the MCG is scheduled (`k_s = 0 ∧ b ≠ 0`) bit `i` of `k` is `0`
and the low `i` bits of `k` are not all zero; `_mc_unitary` pairs the rows `(k, k + 2^i)`;
`_uc_unitaries` pairs `(j·2^(i+1) + k mod 2^i, … + 2^i)`; `start` is `⌈k / 2^(i+1)⌉`, so every row a
non-identity UCG block touches, and every row the MCG's controls select, has its bit-`i`-cleared
partner `≥ k`. -/
theorem C03_ccd_index (n k i : Nat) (hi : i < n) (hk : k < 2 ^ n) :
    bFn k i = k % 2 ^ i ∧ aFn k i = k / 2 ^ i ∧ kS k i = (if k.testBit i then 1 else 0) ∧
    (hasMcg k i = true → k.testBit i = false ∧ k % 2 ^ i ≠ 0) ∧
    mcIdx k i = (k, k + 2 ^ i) ∧
    (∀ j, ucIdx k i j = (j * 2 ^ (i + 1) + k % 2 ^ i, j * 2 ^ (i + 1) + 2 ^ i + k % 2 ^ i)) ∧
    ucStart k i = (if k % 2 ^ (i + 1) = 0 then k / 2 ^ (i + 1) else k / 2 ^ (i + 1) + 1) ∧
    k ≤ ucStart k i * 2 ^ (i + 1) ∧
    (∀ r, ucStart k i ≤ r / 2 ^ (i + 1) → k ≤ row0 i r) ∧
    (hasMcg k i = true → ∀ r, mcActive n k i r = true → k ≤ row0 i r) :=
  ccd_index_facts n k i hi hk

example : hasMcg 1 1 = true ∧ mcIdx 1 1 = (1, 3) ∧ ucStart 1 1 = 1 ∧ mcCtrls 2 1 1 = [1] := by decide

/-- **C03 (`G_k` leaves the processed columns alone).**  For all `n`, `k < 2^n`, ANY 2×2 matrices
(any chooser) and any number `s ≤ n` of steps: a column that vanishes on all rows `≥ k` — in
particular `φ·e_{k'}` for `k' < k`, the columns already processed — is unchanged by the scheduled
gates of `G_k` (MCG with the `1`-bits of `k` as controls, UCG with identity padding below `start`). -/
theorem C03_ccd_preserves {R : Type} [Semiring R] (ch : Chooser R) (n k s : Nat) (hs : s ≤ n)
    (hk : k < 2 ^ n) (u : Nat → R) (hu : ∀ r, k ≤ r → u r = 0) : gkCol ch n k s u = u :=
  ccd_preserves_gk ch n k s hs hk u hu

/-- **C03 (`G_k` zeroes column `k` off the pivot).**  For all `n`, `k < 2^n`: if every 2×2 matrix the
chooser picks zeroes its pair the way Lemma 2 does (`Chooser.Zeroing`: MCG zeroes row `k + 2^i`; UCG
block `j ≥ start` zeroes the row of its pair other than `basis = k_s`) — nothing else is assumed about
the matrices — then for every column `v` that vanishes on the rows `< k` (orthogonality to the
processed columns) `G_k v` vanishes on every row `r < 2^n`, `r ≠ k`.  The invariant behind it: after
`s` steps the column is supported on rows `r ≥ k`, `r ≡ k (mod 2^s)` — although the UCG is not
controlled on the low bits. -/
theorem C03_ccd_schedule {R : Type} [Semiring R] (ch : Chooser R) (n k : Nat) (hk : k < 2 ^ n)
    (hch : ch.Zeroing n k) (v : Nat → R) (hv : ∀ r, r < k → v r = 0) :
    (∀ s, s ≤ n → Supp n k s (gkCol ch n k s v)) ∧
    (∀ r, r < 2 ^ n → r ≠ k → gkCol ch n k n v r = 0) :=
  ⟨fun s hs => ccd_gk_support ch n k hk hch v hv s hs, ccd_zeroes_column ch n k hk hch v hv⟩

/-- Non-vacuity: the chooser the code uses (Lemma 2 on the index pairs of `_mc_unitary` /
`_uc_unitaries`, identity on a zero pair) satisfies `Zeroing` over every commutative ring, for any
conjugation and normalisation. -/
example {R : Type} [CommRing R] (conj : R → R) (s : R → R → R) (z : R → R → Bool)
    (hz : ∀ a b, z a b = true → a = 0 ∧ b = 0) (n k : Nat) : (codeChooser conj s z).Zeroing n k :=
  codeChooser_zeroing conj s z hz n k

/-- **C03 (the whole sweep over `ℂ`).**  If the columns `F 0 … F (K-1)`, `K ≤ 2^n`, are orthonormal,
the sweep `G_{K-1} ⋯ G_0` with the exact Lemma-2 matrices (each `G_k` chosen from the current column
`k` and applied to all columns) maps every column `c < K` to `φ_c·e_c` with `|φ_c|² = 1` — the phases
the closing `DiagonalGate(exp(-i·angle))` removes. -/
theorem C03_ccd_sweep (n K : Nat) (hK : K ≤ 2 ^ n) (F : Nat → Nat → ℂ)
    (horth : ∀ c c', c < c' → c' < K → ip (starRingEnd ℂ) n (F c) (F c') = 0)
    (hnorm : ∀ c, c < K → ip (starRingEnd ℂ) n (F c) (F c) = 1) :
    ∀ c, c < K → (∀ r, r < 2 ^ n → r ≠ c → sweep complexChooser n K F c r = 0) ∧
      (starRingEnd ℂ) (sweep complexChooser n K F c c) * sweep complexChooser n K F c c = 1 :=
  ccd_sweep_complex n K hK F horth hnorm

/-! ### whole-circuit assembly, with the per-gate specifications as hypotheses -/

/-- **C03 (the whole column-by-column circuit, `UCGate(up_to_diagonal=True)` included).**  Over any
commutative ring with a conjugation `conj`.  The run of `_ccd(iso, n, m)` is described by its data
`D` (the 2×2 matrix of every scheduled MCG / UCG block, the unknown diagonal every
`UCGate(…, up_to_diagonal=True)` leaves behind — after the MCG and after the UCG of every step
`(k, i)` — and the closing `DiagonalGate`); `sweepD D n K` is `G_{K-1} ⋯ G_0` with those diagonals,
`ccdCircuit D n m` the whole circuit before `inverse()` (closing diagonal on the wires `0 … m-1`,
only if `m > 0`), acting on a column (rows are numbers, bit `i` = wire `i`).  IF
* the columns `F 0 … F (2^m - 1)` are orthonormal (`m ≤ n`),
* every 2×2 matrix meets Lemma 2 on the column of the working isometry it was computed from
  (`Lemma2Spec` — what `C03_lemma2` / `codeChooser_zeroing` give for `_unitary`, see
  `lemma2Spec_of_chooser`), all of them are unitary and all step diagonals unimodular (`UnitarySpec`),
THEN (1) after all `G_k` column `c` of the working isometry is `φ_c·e_c` with `conj φ_c · φ_c = 1` —
the schedule theorems `C03_ccd_schedule` / `C03_ccd_sweep` survive the diagonals; (2) if the closing
diagonal holds `conj φ_c` (`exp(-i·angle φ_c)`), the circuit maps column `c` to EXACTLY `e_c` when
`m > 0` (for `m = 0` nothing is emitted and column `0` goes to `φ_0·e_0`); (3) the circuit preserves
all inner products (it is unitary) when the closing diagonal is unimodular; (4) consequently any
left inverse of the circuit on the rows `< 2^n` that respects equality on those rows — what
`circuit.inverse()` is — maps `e_c` (`|c⟩` on the `m` low wires, `0` elsewhere) to column `c` of the
isometry, phases included. -/
theorem C03_ccd_full {R : Type} [CommRing R] (conj : R →+* R) (D : CcdData R) (n m : Nat)
    (hm : m ≤ n) (F : Nat → Nat → R) (hD : UnitarySpec conj D) (hspec : Lemma2Spec D n (2 ^ m) F)
    (horth : ∀ c c', c < c' → c' < 2 ^ m → ip conj n (F c) (F c') = 0)
    (hnorm : ∀ c, c < 2 ^ m → ip conj n (F c) (F c) = 1) :
    (∀ c, c < 2 ^ m → (∀ r, r < 2 ^ n → r ≠ c → sweepD D n (2 ^ m) (F c) r = 0) ∧
      conj (sweepD D n (2 ^ m) (F c) c) * sweepD D n (2 ^ m) (F c) c = 1) ∧
    ((∀ c, c < 2 ^ m → D.dz c = conj (sweepD D n (2 ^ m) (F c) c)) →
      ∀ c, c < 2 ^ m → ∀ r, r < 2 ^ n →
        ccdCircuit D n m (F c) r
          = if r = c then (if 0 < m then 1 else sweepD D n (2 ^ m) (F c) c) else 0) ∧
    ((∀ c, c < 2 ^ m → conj (D.dz c) * D.dz c = 1) →
      ∀ u v, ip conj n (ccdCircuit D n m u) (ccdCircuit D n m v) = ip conj n u v) ∧
    ((∀ c, c < 2 ^ m → D.dz c = conj (sweepD D n (2 ^ m) (F c) c)) → 0 < m →
      ∀ Winv : (Nat → R) → (Nat → R),
        (∀ v r, r < 2 ^ n → Winv (ccdCircuit D n m v) r = v r) →
        (∀ u u' : Nat → R, (∀ r, r < 2 ^ n → u r = u' r) → ∀ r, r < 2 ^ n → Winv u r = Winv u' r) →
        ∀ c, c < 2 ^ m → ∀ r, r < 2 ^ n → Winv (fun r' => if r' = c then 1 else 0) r = F c r) := by
  obtain ⟨h1, h2, h3⟩ := ccd_full conj D n m hm F hD hspec horth hnorm
  refine ⟨h1, h2, h3, fun hdz hm0 Winv hinv hcongr c hc r hr => ?_⟩
  refine ccd_inverse n (ccdCircuit D n m) Winv _ (F c) (fun r hr => hinv _ r hr) hcongr
    (fun r' hr' => ?_) r hr
  rw [h2 hdz c hc r' hr', if_pos hm0]

/-- non-vacuity of `C03_ccd_full`: one qubit, `m = 1`, the unitary `[[0,-1],[1,0]]` over `ℤ`; the run
`exD` (Lemma-2 matrix `[[0,1],[-1,0]]`, after which the `UCGate` leaves the NON-trivial diagonal
`(1,-1)`; closing diagonal `(1,-1)`) meets both specifications, the sweep ends with `-e_1` in column
`1`, and the closing diagonal restores `e_1`. -/
example : UnitarySpec (RingHom.id Int) exD ∧ Lemma2Spec exD 1 (2 ^ 1) exF ∧
    (List.range 2).map (sweepD exD 1 2 (exF 1)) = [0, -1] ∧
    (List.range 2).map (ccdCircuit exD 1 1 (exF 1)) = [0, 1] :=
  ⟨exD_unitary, exD_lemma2, exD_result.2.1, exD_result.2.2⟩

/-- **C03 (the run of `_ccd` over `ℂ`, unconditional in the matrices).**  `sweepFam ch dm du n K F`
is the code's loop on the whole working isometry: at step `(k, i)` the MCG matrix is `_unitary` of
the pair `(k, k+2^i)` of the CURRENT column `k`, the gate and the diagonal `dm k i` its
`UCGate(up_to_diagonal=True)` leaves are applied to every column (`_update_isometry`), then the UCG
blocks are `_unitary` of the pairs of the updated column `k`, applied with their diagonal `du k i`.
For EVERY isometry (orthonormal columns `F 0 … F (2^m-1)`, `m ≤ n`), with the exact Lemma-2 matrices
(`complexChooser`) and ANY unimodular diagonals: after all `G_k` column `c` is `φ_c·e_c` with
`|φ_c|² = 1`, and multiplying row `r` by `conj φ_{r mod 2^m}` — the closing
`DiagonalGate(exp(-i·angle(diag)))` on the wires `0 … m-1` — gives exactly `e_c`.  The only
assumption left about `UCGate` is its specification "the multiplexer times SOME unimodular
diagonal". -/
theorem C03_ccd_code (n m : Nat) (hm : m ≤ n) (dm du : Nat → Nat → Nat → ℂ)
    (hdm : ∀ k i r, (starRingEnd ℂ) (dm k i r) * dm k i r = 1)
    (hdu : ∀ k i r, (starRingEnd ℂ) (du k i r) * du k i r = 1) (F : Nat → Nat → ℂ)
    (horth : ∀ c c', c < c' → c' < 2 ^ m → ip (starRingEnd ℂ) n (F c) (F c') = 0)
    (hnorm : ∀ c, c < 2 ^ m → ip (starRingEnd ℂ) n (F c) (F c) = 1) :
    (∀ c, c < 2 ^ m →
      (∀ r, r < 2 ^ n → r ≠ c → sweepFam complexChooser dm du n (2 ^ m) F c r = 0) ∧
      (starRingEnd ℂ) (sweepFam complexChooser dm du n (2 ^ m) F c c)
        * sweepFam complexChooser dm du n (2 ^ m) F c c = 1) ∧
    (∀ c, c < 2 ^ m → ∀ r, r < 2 ^ n →
      (starRingEnd ℂ) (sweepFam complexChooser dm du n (2 ^ m) F (r % 2 ^ m) (r % 2 ^ m))
        * sweepFam complexChooser dm du n (2 ^ m) F c r = if r = c then 1 else 0) := by
  have h := ccd_code_run (starRingEnd ℂ) complexChooser n m hm
    (fun k _ => complexChooser_zeroing n k) complexChooser_unitary dm du hdm hdu F horth hnorm
  refine ⟨h, fun c hc r hr => ?_⟩
  by_cases hrc : r = c
  · subst hrc
    rw [if_pos rfl, Nat.mod_eq_of_lt hc]
    exact (h r hc).2
  · rw [if_neg hrc, (h c hc).1 r hr hrc, mul_zero]

/-- non-vacuity of `C03_ccd_code`: the alternating-sign diagonals `(-1)^r` are unimodular (and not
trivial); orthonormal columns as in the example of `C03_ccd_sweep`. -/
example : ∀ k i r : Nat, (starRingEnd ℂ) ((fun _ _ r => if r % 2 = 1 then (-1 : ℂ) else 1) k i r)
    * (fun _ _ r => if r % 2 = 1 then (-1 : ℂ) else 1) k i r = 1 := by
  intro k i r
  by_cases h : r % 2 = 1 <;> simp [h]

/-- **C03 (Knill's decomposition at circuit level).**  `n ≥ 1` qubits, amplitude semantics, every
state `ψ` (spectators included).  For each eigen-index `i` let `prep i` be a transformer denoting a
unitary matrix `A i` on the wires `0 … n-1` (little-endian `applyMat`, Proofs/UnitaryFullMat.lean)
whose column `|0…0⟩` is the eigenvector `w i` (the specification of `LowRankInitialize`, C01) and
`prepInv i` one denoting `(A i)†` (`gate.inverse()`, C15).  If the `w i` are orthonormal and complete
(Schur specification), every dropped eigenvalue is `1`, and `l` is the duplicate-free enumeration
the loop runs through, then the circuit `_knill` emits — for each retained `i`, in loop order,
`prep i† ; X on wires 0…n-1 ; MCP(λ_i) on (0…n-2 → n-1) ; X on all ; prep i` — denotes
`Σ_i λ_i |w_i⟩⟨w_i|`, i.e. the extended unitary; and it maps `|j0⟩ ⊗ φ` (low wires in basis state
`j0`, any state `φ` of the other wires) to (column `j0` of that unitary) `⊗ φ`. -/
theorem C03_knill_full {R κ : Type} [CommRing R] [StarRing R] [Fintype κ] [DecidableEq κ]
    (n : Nat) (hn : 1 ≤ n) (w : κ → Uni.QI n → R) (lam : κ → R)
    (A : κ → Matrix (Uni.QI n) (Uni.QI n) R) (prep prepInv : κ → State R → State R)
    (hp : ∀ i ψ, prep i ψ = Uni.applyMat n (A i) ψ)
    (hpi : ∀ i ψ, prepInv i ψ = Uni.applyMat n (A i)ᴴ ψ)
    (hA : ∀ i, A i * (A i)ᴴ = 1) (hcol : ∀ i x, A i x (Knill.zeroIdx n) = w i x)
    (horth : ∀ i j, star (w i) ⬝ᵥ w j = if i = j then 1 else 0)
    (hcomp : ∑ i, Knill.proj (w i) = 1) (keep : κ → Bool) (hkeep : ∀ i, keep i = false → lam i = 1)
    (l : List κ) (hnd : l.Nodup) (hall : ∀ i, i ∈ l) :
    (∀ ψ : State R,
      Knill.run (fun i => Knill.block n (prep i) (prepInv i) (lam i)) (l.filter keep) ψ
        = Uni.applyMat n (∑ i, lam i • Knill.proj (w i)) ψ) ∧
    (∀ (j0 : Uni.QI n) (φ : State R), (∀ j b, φ (Uni.over n j b) = φ b) → ∀ b : Bits,
      Knill.run (fun i => Knill.block n (prep i) (prepInv i) (lam i)) (l.filter keep)
          (Knill.ket n j0 φ) b
        = (∑ i, lam i • Knill.proj (w i)) (Uni.enc n b) j0 * φ b) := by
  have h := Knill.knill_full n hn w lam A prep prepInv hp hpi hA hcol horth hcomp keep hkeep l hnd hall
  exact ⟨h, fun j0 φ hφ b => by rw [h, Knill.applyMat_ket n _ j0 φ hφ b]⟩

/-- non-vacuity of `C03_knill_full` (one qubit over `ℤ`, trivial conjugation): eigenvectors
`e_0, e_1`, preparations `1` and `X` (their column `|0⟩` is the eigenvector, both unitary), which as
transformers are `applyMat 1 (A i)` — all hypotheses hold, with `λ = (1, -1)` so that one eigenvalue is
dropped and one retained. -/
example :
    let w : Uni.QI 1 → Uni.QI 1 → ℤ := fun i x => if x = i then 1 else 0
    let A : Uni.QI 1 → Matrix (Uni.QI 1) (Uni.QI 1) ℤ :=
      fun i => if i = Knill.zeroIdx 1 then 1 else fromBlocks 0 1 1 0
    (∀ i, A i * (A i)ᴴ = 1) ∧ (∀ i x, A i x (Knill.zeroIdx 1) = w i x) ∧
    (∀ i j, star (w i) ⬝ᵥ w j = if i = j then 1 else 0) ∧ ∑ i, Knill.proj (w i) = 1 := by
  decide

/-- **C03 (scheme `'csd'` as a whole).**  `_csd(iso, n, m)` is `unitary(U, "qsd", iso = n-m)` for the
extension `U = [V | conj(null(Vᵀ))]` (`C03_extend`: `U` is unitary and its leading columns are `V`).
IF `tape`/`leaves` are the record of a run of `build_unitary(U, "qsd", iso)` whose kernel outputs
all meet their specifications (`Uni.QsdSynth`, see `C02_qsd_full`), THEN for every column index `j0`
whose top `iso` qubits read `0` (the isometry's inputs) and every state `φ` of the other wires, the
model's whole gate list maps `|j0⟩ ⊗ φ` to (column `j0` of `U`, i.e. of `V`) `⊗ φ`.  (The A.2 pass
`_apply_a2` that `unitary` runs afterwards is a trusted qiskit kernel.) -/
theorem C03_csd_full {Θ R : Type} [AddCommGroup Θ] [CommRing R] [StarRing R] [RotSem Θ R]
    [RotLaws Θ R] (half : Θ → Θ) (negl : Θ → Bool)
    (hhalf : ∀ a, half a + half a = a) (hadd : ∀ a b, half (a + b) = half a + half b)
    (hnegl : ∀ a, negl a = true → a = 0) (hex : ∀ a : Θ, star (RotSem.ex a : R) = RotSem.ex (-a))
    {n iso : Nat} {U : Matrix (Uni.QI n) (Uni.QI n) R} {tape : Uni.Tape Θ}
    {leaves : List (Uni.Leaf R)} (h : Uni.QsdSynth (.one n iso U) tape leaves)
    (j0 : Uni.QI n) (hj0 : Uni.TopZero n iso j0) (φ : State R)
    (hφ : ∀ j b, φ (Uni.over n j b) = φ b) (b : Bits) :
    (Uni.runUG (Uni.buildUnitary (Uni.stdUOps half negl) Uni.Dec.qsd n iso tape).1 leaves
        (Knill.ket n j0 φ)).1 b = U (Uni.enc n b) j0 * φ b :=
  iso_csd_full half negl hhalf hadd hnegl hex h j0 hj0 φ hφ b

/-- non-vacuity of `C03_csd_full`: the `ℝ → ℂ` instance, `n = 3`, `iso = 1` (an isometry from 2 to 3
qubits: the four leading columns of `CZ(1,2)`), with the valid record `synth_cz3_iso`. -/
example : ∃ (tape : Uni.Tape ℝ) (leaves : List (Uni.Leaf ℂ)),
    Uni.QsdSynth (.one 3 1 (Uni.CZtop 1 : Matrix (Uni.QI 3) (Uni.QI 3) ℂ)) tape leaves ∧
    (∀ a : ℝ, star (RotSem.ex a : ℂ) = RotSem.ex (-a)) := by
  obtain ⟨tape, leaves, hs, _, _⟩ := Uni.synth_cz3_iso
  exact ⟨tape, leaves, hs, Uni.hex_real⟩

end Qclib
