import QclibModel.Proofs.TreeAlloc
import QclibModel.Proofs.TreeRoute
import QclibModel.Proofs.TreeAngles
import QclibModel.Proofs.TreeTopDown
import QclibModel.Proofs.TreeDcsp
import QclibModel.Proofs.TreeBdsp
import QclibModel.Proofs.TreeSEqN
import QclibModel.Proofs.PyLemmas
import QclibModel.Gen.TreeWidth
/-
  C11 — ancilla-tree state preparation (BdspInitialize / DcspInitialize): widths, allocation,
  output marginals.  Property theorems only; proofs live in Proofs/Tree*.lean.

  Conventions: `n` = number of levels of the angle tree = number of output qubits (`len = 2^n`
  amplitudes), `s` = split, `start_level = n - s`.  The angle tree of the code is always the
  complete tree with `n` levels (`angleTree_complete`), so the theorems quantify over complete
  trees with arbitrary angles (zero angles / zero sub-trees included).
-/
namespace Qclib

/-- **C11 (source tie, default split).**  `Gen.TreeWidth.bdsp_split` is re-translated on every run
from the statements of `BdspInitialize.__init__` that set `self.split` (`opt_params is None`,
`opt_params.get("split")` as parameters, `len(params)` as an integer).  For every `n`, on `2^n`
amplitudes it is the hand model's `split.getD (bdspDefaultSplit len)`: the requested split when
`opt_params` is a dictionary whose `"split"` entry is not `None`, else the default
`int(ceil(log2(len)/2))`.  An edit of the rounding, the divisor, or the `None` handling in the
source breaks this proof. -/
theorem C11_split_src (n : Nat) (optNone : Bool) (s : Option Nat) :
    Gen.TreeWidth.bdsp_split ((2 ^ n : Nat) : Int) optNone (s.map Int.ofNat)
      = ((((if optNone then none else s).getD (bdspDefaultSplit (2 ^ n)) : Nat)) : Int) := by
  have hd : Py.pyCeilDiv (Py.pyLog2Ceil ((2 ^ n : Nat) : Int)) 2
      = ((bdspDefaultSplit (2 ^ n) : Nat) : Int) := by
    rw [Py.pyLog2Ceil_two_pow, Py.pyCeilDiv_two, bdspDefaultSplit, Nat.log2_two_pow]
  generalize ((2 ^ n : Nat) : Int) = L at hd
  generalize bdspDefaultSplit (2 ^ n) = d at hd
  unfold Gen.TreeWidth.bdsp_split
  cases optNone <;> cases s <;> simp [hd]

/-- **C11 (source tie, declared width of BDSP).**  The translation of the current source of
`BdspInitialize._get_num_qubits` equals the hand model `bdspDeclared` for every number of
amplitudes `len` and every split `s` (`(s+1)·2^(⌊log2 len⌋ − s) − 1`; for `s > ⌊log2 len⌋`, where
Python's `**` would leave the integers, both sides use exponent 0 — outside the property). -/
theorem C11_declared_src (len s : Nat) :
    Gen.TreeWidth.bdsp_num_qubits (s : Int) (len : Int) = ((bdspDeclared len s : Nat) : Int) := by
  unfold Gen.TreeWidth.bdsp_num_qubits bdspDeclared
  simp only [Py.pyLog2Floor_cast]
  have e : Py.pyPow 2 ((Nat.log2 len : Int) - (s : Int)) = ((2 ^ (Nat.log2 len - s) : Nat) : Int) := by
    have : ((Nat.log2 len : Int) - (s : Int)).toNat = Nat.log2 len - s := by omega
    simp [Py.pyPow, this]
  rw [e]
  have hp : 1 ≤ 2 ^ (Nat.log2 len - s) := Nat.one_le_two_pow
  generalize 2 ^ (Nat.log2 len - s) = p at hp ⊢
  have : 1 ≤ (s + 1) * p := Nat.mul_pos (by omega) hp
  rw [Int.natCast_sub this]
  simp

/-- **C11 (source tie, declared width of DCSP).**  The translation of the current source of
`DcspInitialize._get_num_qubits` is `len − 1` = the hand model `dcspDeclared` (for `len ≥ 1`). -/
theorem C11_dcsp_src (len : Nat) (h : 1 ≤ len) :
    Gen.TreeWidth.dcsp_num_qubits (len : Int) = ((dcspDeclared len : Nat) : Int) := by
  show (len : Int) - 1 = ((len - 1 : Nat) : Int)
  omega

/-- Non-vacuity: 32 amplitudes — default split 3 (with `opt_params=None` and with `{}`), requested
split 2 gives width 23, DCSP declares 31. -/
example : Gen.TreeWidth.bdsp_split 32 true none = 3 ∧ Gen.TreeWidth.bdsp_split 32 false none = 3
    ∧ Gen.TreeWidth.bdsp_split 32 false (some 2) = 2
    ∧ Gen.TreeWidth.bdsp_num_qubits 2 32 = 23 ∧ Gen.TreeWidth.dcsp_num_qubits 32 = 31 := by decide

/-- **C11 (width).**  For every `n`, every split `1 ≤ s ≤ n`, every vector (`leaves`) and any
number type: the model of `BdspInitialize` does not reject, the qubit count computed by
`add_register` (`nqubits`), the width of the circuit and the declared width of
`_get_num_qubits` all equal `(s+1)·2^(n-s) − 1`, there are `n` output qubits, `_add_register`
consumes the qubit list exactly; the default split is `⌈n/2⌉ = (n+1)/2`; `DcspInitialize`
declares and uses `2^n − 1`.

Modelled float idioms: `log2(len)` of a power of two is exact, hence `int(log2(2^n)) = n`
(`Nat.log2`), `int(ceil(n/2)) = (n+1)/2`; `2 ** (n - s)` is an integer power because `s ≤ n`. -/
theorem C11_width {F : Type} (o : TOps F) (n s : Nat) (hs : 1 ≤ s) (hn : s ≤ n)
    (leaves : Nat → SV F) :
    (∃ out, bdsp o (2^n) leaves (some s) = some out
        ∧ out.declared + 1 = (s + 1) * 2^(n - s)
        ∧ out.alloc.nqubits = out.declared ∧ out.alloc.circWidth = out.declared
        ∧ out.alloc.noutput = n ∧ out.alloc.rest = []
        ∧ (allocWires out.alloc.tree).length = out.declared)
    ∧ bdsp o (2^n) leaves none = bdsp o (2^n) leaves (some ((n + 1) / 2))
    ∧ (∃ out, dcsp o (2^n) leaves = some out
        ∧ out.declared + 1 = 2^n
        ∧ out.alloc.nqubits = out.declared ∧ out.alloc.circWidth = out.declared
        ∧ out.alloc.noutput = n ∧ out.alloc.rest = []
        ∧ (allocWires out.alloc.tree).length = out.declared) := by
  obtain ⟨m, rfl⟩ : ∃ m, n = m + 1 := ⟨n - 1, by omega⟩
  have hc := angleTree_complete o m leaves
  refine ⟨?_, ?_, ?_⟩
  · obtain ⟨a, ha, hq, hno, hw, hr, hws, -⟩ := addRegister_complete (m+1) s hs hn _ hc
    have hpos : 1 ≤ (s + 1) * 2^(m + 1 - s) := Nat.mul_pos (by omega) (Nat.pow_pos (by omega))
    have hdecl : bdspDeclared (2^(m+1)) s = a.nqubits := by
      simp only [bdspDeclared, Nat.log2_two_pow]; omega
    refine ⟨⟨s, bdspDeclared (2^(m+1)) s, a, m + 1 - s,
      topDown o (m + 1 - s) 0 a.tree ++ bottomUp o (m + 1 - s) 0 a.tree⟩, ?_, ?_, hdecl.symm, ?_, hno, hr, ?_⟩
    · simp only [bdsp, Nat.log2_two_pow, Option.getD_some, ha]
      rw [if_neg (by omega)]
    · show bdspDeclared (2^(m+1)) s + 1 = _
      rw [hdecl, hq]
    · show a.circWidth = bdspDeclared (2^(m+1)) s
      rw [hw, hdecl]
    · show (allocWires a.tree).length = bdspDeclared (2^(m+1)) s
      rw [hws, qubitOrder_length _ _ (by
        have := width_ge (m+1) s hn
        omega), hdecl]
  · simp [bdsp, bdspDefaultSplit, Nat.log2_two_pow]
  · obtain ⟨a, ha, hq, hno, hw, hr, hws, -⟩ := addRegister_complete (m+1) 1 (by omega) (by omega) _ hc
    have hdecl : dcspDeclared (2^(m+1)) = a.nqubits := by
      simp only [dcspDeclared]
      rw [show m + 1 - 1 = m by omega] at hq
      rw [Nat.pow_succ]; omega
    refine ⟨⟨1, dcspDeclared (2^(m+1)), a, m + 1, bottomUp o (m + 1) 0 a.tree⟩, ?_, ?_, hdecl.symm, ?_, hno, hr, ?_⟩
    · simp only [dcsp, Nat.log2_two_pow, ha]
      rw [if_neg (by omega)]
    · show dcspDeclared (2^(m+1)) + 1 = _
      simp only [dcspDeclared]
      have := Nat.pow_pos (n := m+1) (show 0 < 2 by omega)
      omega
    · show a.circWidth = dcspDeclared (2^(m+1))
      rw [hw, hdecl]
    · show (allocWires a.tree).length = dcspDeclared (2^(m+1))
      rw [hws, qubitOrder_length _ _ (by
        have := two_pow_ge m
        rw [show m + 1 - 1 = m by omega] at hq
        omega), hdecl]

example : ∃ out, bdsp (F := Nat) ⟨0, 1, 2, 3, id, (·+·), (·-·), (·*·), (·/·), id, id, id,
      (fun a b => decide (a < b)), (fun a => decide (a ≠ 0)), ⟨(·+·), (·-·), (·/2), (fun a => decide (a = 0))⟩⟩
    (2^3) (fun k => ⟨k, 0⟩) (some 2) = some out ∧ out.declared + 1 = (2 + 1) * 2^(3 - 2) :=
  let ⟨out, h, h2, _⟩ := (C11_width _ 3 2 (by omega) (by omega) _).1
  ⟨out, h, h2⟩

/-- **C11 (allocation).**  For every complete angle tree with `n` levels and every split
`1 ≤ s ≤ n`, `add_register` succeeds and
* is injective: the wires it assigns (pre-order) are pairwise distinct and are exactly
  `0 … (s+1)·2^(n-s) − 2`, each used once, in the order `n-1, …, 0, nq-1, …, n`
  (output register reversed, then ancilla register reversed);
* the output wires are `n-1, n-2, …, 0` down the left spine (root = most significant bit);
* every `.qubit` that `bottom_up` / `_apply_cswaps` / `top_down` read belongs to a node that
  received one (`readsOk`), angles are untouched, the shape is unchanged;
* `top_down` starts one chain walk per node of the split level (`levelNodes (n-s)`), each such
  sub-tree is complete with `s` levels, and in it the level-`d` multiplexer (`d < s`) gets as
  controls the first `d` wires of the sub-tree's left spine — the chain ancestors of the target —
  as target the `d`-th spine wire (the wire of `targets[0]`), and acts on `2^d` angles. -/
theorem C11_alloc {F : Type} (o : TOps F) (n s : Nat) (hs : 1 ≤ s) (hn : s ≤ n) (t : BT (AV F))
    (ht : complete n t) :
    ∃ a, addRegister t (n - s) = some a
      ∧ (allocWires a.tree).Nodup
      ∧ (∀ w, w ∈ allocWires a.tree ↔ w + 1 < (s + 1) * 2^(n - s))
      ∧ allocWires a.tree = qubitOrder n a.nqubits
      ∧ leftSpine a.tree = (List.range n).reverse
      ∧ readsOk (n - s) 0 a.tree = true
      ∧ angles a.tree = t ∧ complete n a.tree
      ∧ topDown o (n - s) 0 a.tree
          = (levelNodes (n - s) [a.tree]).flatMap (fun t => topDownChain o t [] [t])
      ∧ ∀ t' ∈ levelNodes (n - s) [a.tree], complete s t'
          ∧ topDownChain o t' [] [t']
              = (List.range s).flatMap
                  (fun d => levelMux o ((leftSpine t').take d) (levelNodes d [t']))
          ∧ ∀ d, d < s →
              (∃ rest, levelNodes d [t'] = BT.leftDesc d t' :: rest)
              ∧ (levelNodes d [t']).length = 2^d
              ∧ ((leftSpine t').take d).length = d
              ∧ (leftSpine t')[d]?
                  = some (wire ((BT.leftDesc d t').valD ⟨o.zero, o.zero, none⟩).q) := by
  obtain ⟨a, ha, hq, hno, hw, hr, hws, spec⟩ := addRegister_complete n s hs hn t ht
  have hle : n ≤ a.nqubits := by
    have := width_ge n s hn
    omega
  have hsh : complete ((s - 1) + (n - s) + 1) a.tree := by
    rw [show s - 1 + (n - s) + 1 = n by omega]; exact spec.shape
  refine ⟨a, ha, ?_, ?_, hws, ?_, spec.reads, spec.angles_eq, spec.shape, ?_, ?_⟩
  · rw [hws]; exact qubitOrder_nodup _ _
  · intro w
    rw [hws, mem_qubitOrder _ _ hle]; omega
  · rw [spec.spineW, qubitOrder_take]
  · exact topDown_eq_flatMap o (n - s) (n - s) 0 (s - 1) a.tree (by omega) hsh
  · intro t' ht'
    obtain ⟨-, -, hall⟩ := levelNodes_complete (n - s) (s - 1) a.tree []
      (by intro x hx; rw [List.mem_singleton.1 hx]; exact hsh)
    have hct : complete ((s - 1) + 1) t' := hall t' ht'
    obtain ⟨h1, h2⟩ := topDownChain_spec o (s - 1) t' hct
    rw [show s - 1 + 1 = s by omega] at hct h1
    exact ⟨hct, h1, fun d hd => h2 d (by omega)⟩

example : complete 2 (BT.node (⟨1, 0⟩ : AV Nat) (.node ⟨0, 0⟩ .nil .nil) (.node ⟨2, 0⟩ .nil .nil)) :=
  ⟨⟨trivial, trivial⟩, ⟨trivial, trivial⟩⟩

/-- **C11 (s = n).**  With split `s = n` (`start_level = 0`) no ancilla is allocated — declared
width, circuit width and the number of assigned wires are all `n`, the wires are `n-1, …, 0` —
`bottom_up` emits nothing and the gate list is exactly the top-down walk from the root (the
multiplexer cascade of `TopDownInitialize`, C01, without its global phase; that this cascade
prepares the vector up to a global phase is `C11_s_eq_n_state` below). -/
theorem C11_s_eq_n {F : Type} (o : TOps F) (n : Nat) (hn : 1 ≤ n) (leaves : Nat → SV F) :
    ∃ out, bdsp o (2^n) leaves (some n) = some out
      ∧ out.declared = n ∧ out.alloc.circWidth = n ∧ out.alloc.nqubits = n
      ∧ allocWires out.alloc.tree = (List.range n).reverse
      ∧ bottomUp o 0 0 out.alloc.tree = []
      ∧ out.gates = topDownChain o out.alloc.tree [] [out.alloc.tree] := by
  obtain ⟨⟨out, hout, hd, hnq, hcw, -, -, -⟩, -, -⟩ := C11_width o n n hn (Nat.le_refl n) leaves
  rw [Nat.sub_self, Nat.pow_zero, Nat.mul_one] at hd
  have hdn : out.declared = n := by omega
  obtain ⟨m, rfl⟩ : ∃ m, n = m + 1 := ⟨n - 1, by omega⟩
  have hc := angleTree_complete o m leaves
  obtain ⟨a, ha, -, -, hws, -, -, -, hshape, -, -⟩ := C11_alloc o (m+1) (m+1) hn (Nat.le_refl _) _ hc
  rw [Nat.sub_self] at ha
  have hb : bdsp o (2^(m+1)) leaves (some (m+1))
      = some ⟨m+1, bdspDeclared (2^(m+1)) (m+1), a, 0, topDown o 0 0 a.tree ++ bottomUp o 0 0 a.tree⟩ := by
    simp only [bdsp, Nat.log2_two_pow, Option.getD_some, Nat.sub_self, ha]
    rw [if_neg (by omega)]
  rw [hb] at hout
  cases hout
  obtain ⟨v, l, r, htree, -, -⟩ := (complete_succ_iff m a.tree).1 hshape
  have hbu : bottomUp o 0 0 a.tree = [] := by rw [htree]; simp [bottomUp]
  refine ⟨_, hb, hdn, by rw [hcw]; exact hdn, by rw [hnq]; exact hdn, ?_, hbu, ?_⟩
  · show allocWires a.tree = _
    have h1 : a.nqubits = m + 1 := by
      show a.nqubits = m + 1
      exact hnq.trans hdn
    rw [hws, h1]
    simp [qubitOrder]
  · show topDown o 0 0 a.tree ++ bottomUp o 0 0 a.tree = topDownChain o a.tree [] [a.tree]
    rw [hbu, List.append_nil, htree]
    simp [topDown]

example : (1 : Nat) ≤ 3 := by omega

/-- **C11 (marginal, DcspInitialize — full).**  For every `n ≥ 1`, every unit vector
`a : ℕ → ℂ` (entries `0 … 2^n − 1`; zeros, complex phases, whole zero sub-trees included — the
leaf values handed to the model are `(‖a_k‖, arg a_k)`), and every input state `ψ` in which the
`2^n − 1` wires of the circuit are `|0⟩` (any further spectator wires in an arbitrary, possibly
superposed state): after the gate list of the model of `DcspInitialize`, summing the squared
modulus of the amplitude over all assignments of the ancilla wires `n … 2^n − 2` gives
`|a_k|²` times the squared modulus of the input amplitude on the spectators, where `k` is the
number read on the output wires `0 … n−1` (wire `i` = bit `i`).  With `ψ = |0…0⟩` this is
"measuring the `n` output qubits yields `k` with probability `|a_k|²`".
Exact real/complex arithmetic; the tests `angle != 0.0` are exact comparisons. -/
theorem C11_marginal_dcsp (n : Nat) (hn : 1 ≤ n) (a : Nat → ℂ)
    (hunit : sumSq n (leavesOf a) = 1)
    (out : TreeOut ℝ) (hout : dcsp realTOps (2^n) (leavesOf a) = some out)
    (ψ : State ℂ) (hψ : ZeroOn (List.range (2^n - 1)) ψ) (b : Bits) :
    sumOver (List.range' n (2^n - 1 - n)) (fun x => Complex.normSq (sem out.gates ψ x)) b
      = Complex.normSq (a (bitsVal n b))
        * Complex.normSq (ψ (clr (List.range (2^n - 1)) b)) :=
  dcsp_marginal n hn a hunit out hout ψ hψ b

/-- Hypotheses of `C11_marginal_dcsp` are satisfiable: `a = (3/5, 4i/5)` on one qubit, the model
accepts it, and `|0…0⟩` is a valid input state. -/
example : ∃ (a : Nat → ℂ) (out : TreeOut ℝ) (ψ : State ℂ),
    sumSq 1 (leavesOf a) = 1 ∧ dcsp realTOps (2^1) (leavesOf a) = some out
      ∧ ZeroOn (List.range (2^1 - 1)) ψ ∧ ψ (fun _ => false) = 1 := by
  classical
  let a : Nat → ℂ := fun k => if k = 0 then 3/5 else 4/5 * Complex.I
  obtain ⟨out, h, -⟩ := dcsp_spec realTOps 1 (by omega) (leavesOf a)
  refine ⟨a, out, fun b => if b 0 then 0 else 1, ?_, h, ?_, by simp⟩
  · simp only [sumSq, leavesOf, a]
    norm_num
  · intro b ⟨w, hw, hb⟩
    simp only [Nat.pow_one, List.mem_range] at hw
    have : w = 0 := by omega
    subst this
    simp [hb]

/-- **C11 (marginal, BdspInitialize — full).**  For every `n ≥ 1`, every split `1 ≤ s ≤ n`,
every unit vector `a` (zeros, phases, zero sub-trees included) and every input state `ψ` in
which the `W = (s+1)·2^(n-s) − 1` wires of the circuit are `|0⟩` (further spectator wires
arbitrary): after the gate list of the model of `BdspInitialize(a, {'split': s})`
(`top_down` multiplexer cascades below the split, then `bottom_up` with its controlled-swap
networks), summing the squared modulus of the amplitude over all assignments of the ancilla
wires `n … W − 1` gives `|a_k|²` times the squared modulus of the input amplitude on the
spectators, `k` = number read on output wires `0 … n−1`.  (The default split is covered through
`C11_width`: `bdsp … none = bdsp … (some ((n+1)/2))`.)  Uses C13's multiplexer proof, re-done on
arbitrary wires (`levelMux_rep`), for every level of every chain block. -/
theorem C11_marginal (n s : Nat) (hs : 1 ≤ s) (hn : s ≤ n) (a : Nat → ℂ)
    (hunit : sumSq n (leavesOf a) = 1)
    (out : TreeOut ℝ) (hout : bdsp realTOps (2^n) (leavesOf a) (some s) = some out)
    (ψ : State ℂ) (hψ : ZeroOn (List.range ((s + 1) * 2^(n - s) - 1)) ψ) (b : Bits) :
    sumOver (List.range' n ((s + 1) * 2^(n - s) - 1 - n))
        (fun x => Complex.normSq (sem out.gates ψ x)) b
      = Complex.normSq (a (bitsVal n b))
        * Complex.normSq (ψ (clr (List.range ((s + 1) * 2^(n - s) - 1)) b)) :=
  bdsp_marginal n s hs hn a hunit out hout ψ hψ b

/-- Hypotheses of `C11_marginal` are satisfiable: two qubits, split 1 (three wires),
`a = (1/2, i/2, −1/2, 1/2)`. -/
example : ∃ (a : Nat → ℂ) (out : TreeOut ℝ),
    sumSq 2 (leavesOf a) = 1 ∧ bdsp realTOps (2^2) (leavesOf a) (some 1) = some out := by
  let a : Nat → ℂ := fun k => if k = 1 then Complex.I / 2 else if k = 2 then -1/2 else 1/2
  obtain ⟨out, h, -⟩ := bdsp_spec realTOps 2 1 (by omega) (by omega) (leavesOf a)
  refine ⟨a, out, ?_, h⟩
  simp only [sumSq, leavesOf, a]
  norm_num

/-- **C11 (s = n, state).**  For every `n ≥ 1`, every unit vector `a` and every input state `ψ`
whose `n` circuit wires are `|0⟩` (spectators arbitrary): after the gate list of the model of
`BdspInitialize(a, {'split': n})` the amplitude at label `b` is
`e^{-i·rootArg} · a_k · ψ(b with the circuit wires cleared)`, `k` = number read on wires
`0 … n−1`.  The factor `e^{-i·rootArg}` (`rootArg` = the root's `arg` of `state_decomposition`,
the iterated mean of the leaf phases) does not depend on `k`: the output state equals the vector
up to a global phase. -/
theorem C11_s_eq_n_state (n : Nat) (hn : 1 ≤ n) (a : Nat → ℂ)
    (hunit : sumSq n (leavesOf a) = 1)
    (out : TreeOut ℝ) (hout : bdsp realTOps (2^n) (leavesOf a) (some n) = some out)
    (ψ : State ℂ) (hψ : ZeroOn (List.range n) ψ) (b : Bits) :
    sem out.gates ψ b
      = Complex.exp (-((((stateTree realTOps n (leavesOf a)).valD ⟨0, 0⟩).arg : ℝ) : ℂ) * Complex.I)
        * a (bitsVal n b) * ψ (clr (List.range n) b) :=
  bdsp_s_eq_n_state n hn a hunit out hout ψ hψ b

example : ∃ (a : Nat → ℂ) (out : TreeOut ℝ),
    sumSq 2 (leavesOf a) = 1 ∧ bdsp realTOps (2^2) (leavesOf a) (some 2) = some out := by
  let a : Nat → ℂ := fun k => if k = 1 then Complex.I / 2 else if k = 2 then -1/2 else 1/2
  obtain ⟨out, h, -⟩ := bdsp_spec realTOps 2 2 (by omega) (by omega) (leavesOf a)
  refine ⟨a, out, ?_, h⟩
  simp only [sumSq, leavesOf, a]
  norm_num

/-- **C11 (top-down block).**  The multiplexer cascade `top_down` emits for one complete
sub-tree, started with the chain wires in `|0⟩`, prepares on them the amplitude `chainAmp`:
the product along the selected root-to-leaf path of `cos(y/2)e^{-iz/2}` / `sin(y/2)e^{iz/2}`,
first chain wire = most significant bit — for every height, any commutative ring with the
rotation laws, every input state (this is the circuit-level statement C01's top-down
initializer needs; with `s = n` it describes the whole `BdspInitialize` circuit). -/
theorem C11_topdown_block {Θ R : Type} [AddCommGroup Θ] [CommRing R] [RotSem Θ R] [RotLaws Θ R]
    (o : TOps Θ) (half : Θ → Θ) (negl : Θ → Bool) (haops : o.aops = stdOps half negl)
    (hhalf : ∀ a, half a + half a = a) (hadd : ∀ a b, half (a + b) = half a + half b)
    (hnegl : ∀ a, negl a = true → a = 0)
    (hnz : ∀ x, o.neZero x = false → x = 0) (hzero : o.zero = 0)
    (h : Nat) (t : BT (QV Θ)) (hc : complete h t) (hnd : (leftSpine t).Nodup)
    (ψ0 : State R) (hZ : ZeroOn (leftSpine t) ψ0) (b : Bits) :
    sem (topDownChain o t [] [t]) ψ0 b
      = chainAmp (leftSpine t) t b * ψ0 (clr (leftSpine t) b) :=
  chainSem o half negl haops hhalf hadd hnegl hnz hzero h t hc hnd ψ0 hZ b

/-- **C11 (marginal — the ingredients, each valid for every tree).**

(a) *Angle algebra over ℝ.*  For the state tree / angle tree the code builds from leaf
magnitudes `|a_k| ≥ 0`, the product along the root-to-leaf path of leaf `k` of
`cos²(angle_y/2)` (going left) and `sin²(angle_y/2)` (going right), times the squared root
magnitude, equals `|a_k|²` — zero amplitudes and entire zero sub-trees included; the squared
root magnitude is `Σ|a_k|²`; `angle_y = 0` when the right child's norm is 0 and `≠ 0` otherwise
(so RY and the swaps are skipped exactly on zero right sub-trees).

(b) *Routing.*  For any node whose swap pairs are pairwise distinct wires different from the
node's own: the gates `_apply_cswaps` emits denote, on every state, the relabelling `cswapPerm`,
which — when the node's angle is non-zero and its qubit reads 1 — exchanges the `i`-th wire of
the left child's `left…` spine with the `i`-th wire of the right child's `leftmost…` spine for
every `i`, leaves every other wire alone, and otherwise is the identity.

(c) *Closed form of `bottom_up`* on any tree all of whose levels are processed (any shape,
distinct wires), over any commutative ring with rotation laws: on every input state that
vanishes when a tree wire is set, the output amplitude at `b` is `treeAmp b` times the input
amplitude at `b` with the tree wires cleared.

(d) *Statistics of the closed form*: the squared moduli sum to 1 over all tree wires, and
summed over the non-spine wires of a complete tree they give the spine distribution `spW`
(right children read through the left child's spine wires). -/
theorem C11_marginal_ingredients :
    -- (a) angle algebra
    (∀ (n : Nat) (a : Nat → SV ℝ), (∀ k, 0 ≤ (a k).mag) → ∀ k, k < 2^(n+1) →
        ((stateTree realTOps (n+1) a).valD ⟨0, 0⟩).mag ^ 2
          * pathProb (fun θ => Real.cos (θ / 2) ^ 2) (fun θ => Real.sin (θ / 2) ^ 2) (n+1)
              (angleTree realTOps (stateTree realTOps (n+1) a)) k
          = (a k).mag ^ 2)
    ∧ (∀ (n : Nat) (a : Nat → SV ℝ), (∀ k, 0 ≤ (a k).mag) →
        ((stateTree realTOps n a).valD ⟨0, 0⟩).mag ^ 2 = sumSq n a)
    ∧ (∀ m : ℝ, angleY realTOps m 0 = 0)
    ∧ (∀ m r : ℝ, 0 < r → r ≤ m → angleY realTOps m r ≠ 0)
    -- (b) routing
    ∧ (∀ {Θ R : Type} [CommRing R] [RotSem Θ R] (o : TOps Θ) (v : QV Θ) (l r : BT (QV Θ)),
        ((chainPairs l r).map Prod.fst ++ (chainPairs l r).map Prod.snd).Nodup →
        (∀ p ∈ chainPairs l r, p.1 ≠ wire v.q ∧ p.2 ≠ wire v.q) →
        (∀ (ψ : State R) (b : Bits),
          sem (applyCswaps o (.node v l r)) ψ b = ψ (cswapPerm o (.node v l r) b))
        ∧ chainPairs l r = List.zip (leftSpine l) (lmSpine r)
        ∧ (∀ b : Bits, (o.neZero v.y && b (wire v.q)) = true →
            (∀ p ∈ chainPairs l r, cswapPerm o (.node v l r) b p.1 = b p.2
              ∧ cswapPerm o (.node v l r) b p.2 = b p.1)
            ∧ (∀ w, (∀ p ∈ chainPairs l r, p.1 ≠ w ∧ p.2 ≠ w) →
                cswapPerm o (.node v l r) b w = b w))
        ∧ (∀ b : Bits, (o.neZero v.y && b (wire v.q)) = false →
            cswapPerm o (.node v l r) b = b))
    -- (c) closed form of bottom_up
    ∧ (∀ {Θ R : Type} [AddCommGroup Θ] [CommRing R] [RotSem Θ R] [RotLaws Θ R] (o : TOps Θ),
        (∀ x, o.neZero x = false → x = 0) →
        ∀ (sl : Nat) (t : BT (QV Θ)) (lvl : Nat), lvl + t.depth ≤ sl → (treeWires t).Nodup →
        ∀ (ψ : State R), ZeroOn (treeWires t) ψ → ∀ b,
          sem (bottomUp o sl lvl t) ψ b = treeAmp o t b * ψ (clr (treeWires t) b))
    -- (d) statistics of the closed form
    ∧ (∀ {Θ K : Type} [CommRing K] (o : TOps Θ) (c2 s2 : Θ → K), (∀ y, c2 y + s2 y = 1) →
        (∀ (t : BT (QV Θ)), (treeWires t).Nodup →
          ∀ b, sumOver (treeWires t) (treeProb o c2 s2 t) b = 1)
        ∧ ((∀ y, o.neZero y = false → s2 y = 0) →
          ∀ (h : Nat) (t : BT (QV Θ)), complete h t → (treeWires t).Nodup →
            ∀ b, sumOver (anc t) (treeProb o c2 s2 t) b = spW c2 s2 (leftSpine t) t b)) := by
  refine ⟨tree_path_product, stateTree_root_sq, angleY_zero_right, angleY_ne_zero, ?_, ?_, ?_⟩
  rotate_left
  · intro Θ R _ _ _ _ o hnz sl t lvl hd hnd ψ hZ b
    exact bottomUp_closed o hnz sl t lvl hd hnd ψ hZ b
  · intro Θ K _ o c2 s2 hcs
    refine ⟨treeProb_total o c2 s2 hcs, fun hs0 h t hc hnd b => ?_⟩
    rw [treeProb_marginal o c2 s2 hcs hs0 h t hc hnd, spineProb_eq_spW o c2 s2 hs0 h t hc hnd]
  intro Θ R _ _ o v l r hnd hc
  refine ⟨sem_applyCswaps o v l r hc, chainPairs_eq_zip l r, ?_, ?_⟩
  · intro b hb
    have h := (cswap_routing o v l r hnd hc b).1 hb
    exact ⟨h.1, h.2.1⟩
  · intro b hb
    exact (cswap_routing o v l r hnd hc b).2 hb

example : ∀ k, 0 ≤ ((fun k => (⟨if k = 1 then 0 else 1, 0⟩ : SV ℝ)) k).mag := by
  intro k; dsimp only; split <;> norm_num

end Qclib
