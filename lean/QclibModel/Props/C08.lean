import QclibModel.Proofs.BaaAssembly
import QclibModel.Proofs.BaaPartition
import QclibModel.Proofs.BaaBudget
import QclibModel.Proofs.BaaBest
import QclibModel.Proofs.BaaSaved
import QclibModel.Proofs.BaaExact
import QclibModel.Proofs.BaaNested
import QclibModel.Proofs.BaaGreedyFin
import QclibModel.Proofs.BaaNestedFin
import QclibModel.Proofs.BaaTrueLoss
/-
  C08 — bounded approximation (`BaaLowRankInitialize`, `util/baa.py`): exact at zero loss, faithful
  to its plan, within budget.  Property theorems only; proofs live in Proofs/Baa*.lean.

  What is a theorem and what is a hypothesis.  The search (`adaptive_approximation` and everything
  below it) is modelled in `Model/Baa.lean` as a function of an abstract numerical oracle
  (`Oracle.schmidt` = what `_reduce_entanglement` obtains from `schmidt_decomposition` /
  `low_rank_approximation`, `Oracle.cnots` = `lowrank.cnot_count`).  Everything below is proved
  for EVERY oracle (subject to the stated range hypotheses on its losses), every `n`, every
  strategy, `max_combination_size`, `use_low_rank`, every budget, and every recursion budget of
  the model — by induction over the construction of the tree (`Reach`).  The harness feeds the
  executable model with the oracle answers recorded from the real code and diffs the whole tree.
-/
namespace Qclib
open Qclib.Baa Qclib.Schmidt

/-- A tiny oracle used for the non-vacuity examples: every bipartition can be separated at loss
`l`; the whole vector (name 0) costs 3 CNOTs, every other vector none. -/
def C08_demoOracle {K : Type} (l : K) : Oracle K :=
  { schmidt := fun v _ _ => [⟨1, l, 2 * v + 1, 2 * v + 2, 0⟩]
    cnots := fun v _ _ => if v = 0 then 3 else 0 }

/-- **C08 (assembly).**  For every `n` and every plan whose registers contain qubits `< n` (any
number of factors, any order inside a register, interleaved arbitrarily): preparing factor `j` on
`qubits_j[::-1]` and reversing all bits at the end (`assembled`: the factor's little-endian index
bit `k` is read from wire `n-1-qubits_j[::-1][k]`) gives, at every index `I`, the product of the
factor amplitudes at the big-endian number formed by the axis values of `I` at `qubits_j[0],
qubits_j[1], …` — i.e. the tensor whose axis `q` is the axis of the factor that holds qubit `q`, at
the position of `q` in that factor (`planTensor`, what `Node.state_vector()` describes).  That
factors on disjoint wires multiply is qiskit's `compose` (trusted, validated by the oracle). -/
theorem C08_assembly {R : Type} [Mul R] (one : R) (n : Nat) (plan : List (List Nat × (Nat → R)))
    (hlt : ∀ p ∈ plan, ∀ q ∈ p.1, q < n) (I : Nat) :
    assembled one n plan I = planTensor one n plan I ∧
    ∀ p ∈ plan, localIndex n p.1 I = ofBits (gather p.1 (toBits n I)) ∧
      ∀ pos, pos < p.1.length → wireOf n p.1 (p.1.length - 1 - pos) = n - 1 - p.1.getD pos 0 :=
  ⟨assembled_eq_planTensor one n plan hlt I,
   fun p hp => ⟨localIndex_eq_gather n p.1 (hlt p hp) I, fun pos h => wireOf_pos n p.1 pos h⟩⟩

/-- Non-vacuity: two interleaved registers of three qubits; index `0b110` selects local index
`0b10` of the factor on qubits `(0,2)` and `1` of the factor on qubit `1`. -/
example : localIndex 3 [0, 2] 6 = 2 ∧ localIndex 3 [1] 6 = 1 ∧
    ofBits (gather [0, 2] (toBits 3 6)) = 2 := by decide

/-- **C08 (registers partition the qubits).**  For every `n ≠ 1`, every oracle, every parameter
set and every node reachable from the root by the model's `_build_approximation_tree`: each
register is strictly increasing, the registers together are a rearrangement of `0 … n-1` (no qubit
lost or duplicated), every recorded partition of a low-rank factor is a strictly increasing list of
positions inside its register (so the Schmidt code of C09 accepts it), and a register still marked
entangled (`rank 0`) never consists of one qubit. -/
theorem C08_partition_of_qubits {α : Type} (L : LossOps α) (O : Oracle α) (P : Params α)
    (n vec k0 : Nat) (hn : n ≠ 1) (path : List (Node α)) (nd : Node α) (k : Nat)
    (h : Reach L O P (rootNode L n vec) k0 path nd k) :
    (∀ e ∈ nd.entries, e.qubits.Pairwise (· < ·)) ∧
    (nd.entries.flatMap (·.qubits)).Perm (List.range n) ∧
    (∀ e ∈ nd.entries, ∀ lp, e.partition = some lp →
      lp.Pairwise (· < ·) ∧ ∀ a ∈ lp, a < e.qubits.length) ∧
    (∀ e ∈ nd.entries, e.rank = 0 → e.qubits.length ≠ 1) :=
  let r := reach_regOK L O P n vec k0 hn path nd k h
  ⟨r.sorted, r.cover, r.parts, r.rank0⟩

/-- Non-vacuity of `Reach`: in the demo instance (two qubits, exact splits) a two-factor node is
reachable from the root. -/
example : ∃ path nd k, Reach (orderedOps ℤ) (C08_demoOracle (0 : ℤ)) ⟨0, .canonical, false⟩
    (rootNode (orderedOps ℤ) 2 0) 0 path nd k ∧ nd.entries.length = 2 := by
  have hd : (search (orderedOps ℤ) (C08_demoOracle (0 : ℤ)) ⟨0, .canonical, false⟩ 2 0 0).map
      (·.entries.length) = some 2 := by decide
  cases h : search (orderedOps ℤ) (C08_demoOracle (0 : ℤ)) ⟨0, .canonical, false⟩ 2 0 0 with
  | none => rw [h] at hd; simp at hd
  | some nd =>
    obtain ⟨path, k, hr⟩ := search_reach _ _ _ _ _ _ _ h
    rw [h] at hd
    exact ⟨path, nd, k, hr, by simpa using hd⟩

/-- **C08 (the node returned has these properties too).**  Whatever `adaptive_approximation`
returns — the early exit or the best leaf — is reachable (in the canonical pre-run or in the
search proper), hence its registers partition the qubits. -/
theorem C08_partition_of_result {α : Type} (L : LossOps α) (O : Oracle α) (P : Params α)
    (n vec maxK : Nat) (hn : n ≠ 1) (nd : Node α)
    (h : adaptiveApproximation L O P n vec maxK = some nd) :
    (∀ e ∈ nd.entries, e.qubits.Pairwise (· < ·)) ∧
    (nd.entries.flatMap (·.qubits)).Perm (List.range n) := by
  rcases adaptive_reach L O P n vec maxK nd h with ⟨_, path, k, hr⟩ | ⟨path, k, hr⟩
  · have := C08_partition_of_qubits L O _ n vec 0 hn path nd k hr
    exact ⟨this.1, this.2.1⟩
  · have := C08_partition_of_qubits L O P n vec maxK hn path nd k hr
    exact ⟨this.1, this.2.1⟩

/-- **C08 (global → local partition index).**  In every admissible step from a reachable node
(register `ent.qubits`, candidate bipartition `part`, oracle answer `e`): the candidate is a
strictly increasing sub-list of the register, and the local partition handed to
`schmidt_decomposition` (`sum(i < q for i in register)` per qubit) is the list of *positions* of
those qubits inside the register: strictly increasing, inside the register, and
`register[local[i]] = part[i]`.  So the bipartition the Schmidt code works on is the intended
one. -/
theorem C08_local_partition {α : Type} (L : LossOps α) (O : Oracle α) (P : Params α)
    (n vec k0 : Nat) (hn : n ≠ 1) (path : List (Node α)) (nd : Node α) (k : Nat)
    (h : Reach L O P (rootNode L n vec) k0 path nd k)
    (ent : Entry) (hent : ent ∈ nd.entries) (s : Strategy) (kk : Nat) (part : List Nat)
    (hpart : part ∈ (candidates L O s ent kk).1) (u : Bool) (e : EInfo α)
    (he : e ∈ reduceEntanglement O ent.vec ent.qubits part u) :
    part.Pairwise (· < ·) ∧ (∀ q ∈ part, q ∈ ent.qubits) ∧
    e.localPartition = part.map (fun q => ent.qubits.idxOf q) ∧
    e.localPartition.Pairwise (· < ·) ∧ (∀ a ∈ e.localPartition, a < ent.qubits.length) ∧
    e.localPartition.map (fun a => ent.qubits.getD a 0) = part := by
  have hs := (reach_regOK L O P n vec k0 hn path nd k h).sorted ent hent
  have hc := candidates_ok L O s ent kk hs part hpart
  have hf := reduceEntanglement_fields O _ _ _ _ e he
  have hl := localPartition_spec ent.qubits part hs hc.1 hc.2
  rw [hf.2.2]
  exact ⟨hc.1, hc.2, hl.1, hl.2.1, hl.2.2.1, hl.2.2.2⟩

/-- Non-vacuity: register `(1,3,4,6)`, partition `(3,6)` ↦ local partition `(1,3)`. -/
example : localPartition [1, 3, 4, 6] [3, 6] = [1, 3] := by decide

/-- **C08 (budget).**  Over any linearly ordered commutative ring, for every oracle, every `n`,
strategy, `max_combination_size`, `use_low_rank` and budget `max_loss ≥ 0`: every node reachable
from the root has `total_fidelity_loss ≤ max_loss`; its total loss is `1 − ∏ (1 − l_i)` over the
node losses `l_i` along its path; every `l_i` (but the root's `0`) is an answer of the oracle; and
if the oracle's losses lie in `[0,1]` so does the total.  Exact arithmetic — the implementation
computes the same expressions in IEEE doubles. -/
theorem C08_budget {K : Type} [CommRing K] [LinearOrder K] [IsStrictOrderedRing K] (O : Oracle K)
    (P : Params K) (n vec k0 : Nat) (h0 : 0 ≤ P.maxLoss) (path : List (Node K)) (nd : Node K)
    (k : Nat) (h : Reach (orderedOps K) O P (rootNode (orderedOps K) n vec) k0 path nd k) :
    nd.totalLoss ≤ P.maxLoss ∧
    nd.totalLoss = chainLoss (path.map (·.nodeLoss)) ∧
    (∀ x ∈ path, x = rootNode (orderedOps K) n vec ∨
      ∃ v lp u, ∃ s ∈ O.schmidt v lp u, x.nodeLoss = s.loss) ∧
    ((∀ v lp u, ∀ s ∈ O.schmidt v lp u, 0 ≤ s.loss ∧ s.loss ≤ 1) →
      0 ≤ nd.totalLoss ∧ nd.totalLoss ≤ 1) := by
  have hc := reach_chain O P n vec k0 path nd k h
  refine ⟨reach_budget O P n vec k0 h0 path nd k h, hc.1, hc.2, fun hO => ?_⟩
  rw [hc.1]
  apply chainLoss_mem_unit
  intro l hl
  obtain ⟨x, hx, rfl⟩ := List.mem_map.mp hl
  rcases hc.2 x hx with rfl | ⟨v, lp, u, s, hs, hls⟩
  · simp [rootNode, orderedOps]
  · rw [hls]; exact hO v lp u s hs

/-- **C08 (budget, returned node).**  The node `adaptive_approximation` returns is within the
budget: the early exit by its own guard (`max_fidelity_loss >= product_state_node.total_…`), the
best leaf because it is reachable.  In both cases its loss is the chain formula along its path. -/
theorem C08_budget_result {K : Type} [CommRing K] [LinearOrder K] [IsStrictOrderedRing K]
    (O : Oracle K) (P : Params K) (n vec maxK : Nat) (h0 : 0 ≤ P.maxLoss) (nd : Node K)
    (h : adaptiveApproximation (orderedOps K) O P n vec maxK = some nd) :
    nd.totalLoss ≤ P.maxLoss ∧
    ∃ path : List (Node K), nd.totalLoss = chainLoss (path.map (·.nodeLoss)) := by
  rcases adaptive_reach _ O P n vec maxK nd h with ⟨hle, path, k, hr⟩ | ⟨path, k, hr⟩
  · exact ⟨by simpa [orderedOps] using hle, path, (reach_chain O _ n vec 0 path nd k hr).1⟩
  · exact ⟨reach_budget O P n vec maxK h0 path nd k hr, path,
      (reach_chain O P n vec maxK path nd k hr).1⟩

/-- Non-vacuity over `ℤ`: two qubits, every split is exact (loss `0`), budget `0`, brute force
with the early exit — the returned plan has the two one-qubit factors, loss `0`, 3 CNOTs saved. -/
example : (adaptiveApproximation (orderedOps ℤ) (C08_demoOracle (0 : ℤ)) ⟨0, .brute, false⟩ 2 0 0).map
      (fun nd => (nd.totalLoss, nd.totalSaved, nd.entries.map (·.qubits)))
    = some (0, 3, [[0], [1]]) := by decide

/-- **C08 (best leaf).**  Over any linear order on losses: `_search_best` returns a member of the
list and no member is better for the three-key order — more CNOTs saved; or as many and a smaller
largest block; or equal on both and a smaller loss. -/
theorem C08_search_best {K : Type} [CommRing K] [LinearOrder K] (nodes : List (Node K))
    (b : Node K) (h : searchBest (orderedOps K) nodes = some b) :
    b ∈ nodes ∧ ∀ x ∈ nodes, NoBetter x b :=
  searchBest_best nodes b h

/-- Non-vacuity: of two nodes saving 5 and 2 CNOTs the first is returned. -/
example : (searchBest (orderedOps ℤ)
      [⟨5, 5, 0, 0, [⟨1, [0, 1], 0, none⟩]⟩, ⟨2, 2, 0, 0, [⟨1, [0], 1, none⟩, ⟨2, [1], 1, none⟩]⟩]).map
      (·.totalSaved) = some 5 := by decide

/-- `_search_best` never fails on a non-empty list (and `adaptive_approximation` only calls it on
the non-empty list of leaves). -/
theorem C08_search_best_some {α : Type} (L : LossOps α) (n0 : Node α) (rest : List (Node α)) :
    ∃ b, searchBest L (n0 :: rest) = some b :=
  searchBest_isSome L n0 rest

/-- **C08 (zero loss ⇒ only exact splits).**  With budget `0` and an oracle whose losses are
`≥ 0`: every node reachable has total loss `0` and every approximation on its path has loss `0`
— only exact (zero-loss) separations and exact (zero-loss) rank reductions are ever taken. -/
theorem C08_zero_loss_only_exact_splits {K : Type} [CommRing K] [LinearOrder K]
    [IsStrictOrderedRing K] (O : Oracle K) (P : Params K) (n vec k0 : Nat) (hP : P.maxLoss = 0)
    (hO : ∀ v lp u, ∀ s ∈ O.schmidt v lp u, 0 ≤ s.loss)
    (path : List (Node K)) (nd : Node K) (k : Nat)
    (h : Reach (orderedOps K) O P (rootNode (orderedOps K) n vec) k0 path nd k) :
    nd.totalLoss = 0 ∧ ∀ x ∈ path, x.nodeLoss = 0 :=
  reach_zero O P n vec k0 hP hO path nd k h

/-- A second demo oracle, with vector names that encode their size, all amplitudes `1` (un-normalised
all-ones vectors factorise exactly across every bipartition). -/
def C08_sizeOf (v : Nat) : Nat := if v = 0 then 2 else if v % 2 = 1 then (v - 1) / 2 else (v - 2) / 2

def C08_exactOracle : Oracle ℤ :=
  { schmidt := fun v lp _ => [⟨1, 0, 2 * lp.length + 1, 2 * (C08_sizeOf v - lp.length) + 2, 0⟩]
    cnots := fun v _ _ => if v = 0 then 3 else 0 }

/-
  Full statement aimed at (C08_zero_loss): for EVERY strategy, with `max_fidelity_loss = 0`, oracle
  losses in `[0,1]` and exact zero-loss oracle answers, the state assembled from the returned plan
  is the input vector.  Proved below for every strategy under the hypothesis `ProperCandidates`
  (every candidate bipartition is a non-empty proper subset of its register) and, as
  `C08_zero_loss`, unconditionally for `split`, `canonical` and `brute_force` (and for the early
  exit of every strategy, which is a canonical run).  Missing for `greedy`: that
  `_greedy_combinations` yields exactly `k` distinct qubits for its `k`-th candidate (true of the
  real code, where `_reduce_entanglement` without low rank always returns one answer; the tie and
  the oracle exercise it on every run).
-/

/-- **C08 (exact at zero loss), general form.**  Over a linearly ordered commutative ring of losses
and any commutative monoid of amplitudes: let `val name i` be the amplitudes and `size name` the
number of qubits of the oracle's vectors, `size vec = n ≥ 2`.  If `max_fidelity_loss = 0`, the
oracle's losses lie in `[0,1]`, its zero-loss answers are exact (`ExactSplits`: the vector is the
one-term Schmidt composition of the two factors across the local partition — the conclusion of
`C09_compose` — resp. the recomposed low-rank state equals the vector), and candidates are proper,
then for the node `adaptive_approximation` returns — early exit or best leaf, any interleaving of
the registers — the state assembled by `compose(gate, qubits[::-1])` + `reverse_bits()` from
factors that prepare `val e.vec` exactly has amplitude `val vec I` at every index `I < 2^n`. -/
theorem C08_zero_loss_partial {K R : Type} [CommRing K] [LinearOrder K] [IsStrictOrderedRing K]
    [CommMonoid R] (O : Oracle K) (P : Params K) (n vec maxK : Nat) (hn : 2 ≤ n)
    (hP : P.maxLoss = 0) (hO : ∀ v lp u, ∀ s ∈ O.schmidt v lp u, 0 ≤ s.loss ∧ s.loss ≤ 1)
    (val : Nat → Nat → R) (size : Nat → Nat) (hsize : size vec = n) (hex : ExactSplits O val size)
    (hprop : ProperCandidates (orderedOps K) O P.strategy) (nd : Node K)
    (h : adaptiveApproximation (orderedOps K) O P n vec maxK = some nd) (I : Nat) (hI : I < 2 ^ n) :
    assembled 1 n (nd.entries.map (fun e => (e.qubits, val e.vec))) I = val vec I := by
  have hsem : SemOK n vec val size nd.entries := by
    rcases adaptive_reach _ O P n vec maxK nd h with ⟨hle, path, k, hr⟩ | ⟨path, k, hr⟩
    · have hc := reach_chain O _ n vec 0 path nd k hr
      have hle' : nd.totalLoss ≤ 0 := by rw [← hP]; simpa [orderedOps] using hle
      have hunit : ∀ l ∈ path.map (·.nodeLoss), 0 ≤ l ∧ l ≤ 1 := by
        intro l hl
        obtain ⟨x, hx, rfl⟩ := List.mem_map.mp hl
        rcases hc.2 x hx with rfl | ⟨v, lp, u, s, hs, hls⟩
        · simp [rootNode, orderedOps]
        · rw [hls]; exact hO v lp u s hs
      have hz := chainLoss_le_zero _ hunit (by rw [← hc.1]; exact hle')
      exact reach_exact O _ n vec 0 hn val size hsize hex
        (properCandidates_of_ne_greedy _ O .canonical (by decide)) path nd k hr
        (fun x hx => hz _ (List.mem_map.mpr ⟨x, hx, rfl⟩))
    · have hz := reach_zero O P n vec maxK hP (fun v lp u s hs => (hO v lp u s hs).1) path nd k hr
      exact reach_exact O P n vec maxK hn val size hsize hex hprop path nd k hr hz.2
  have hlt : ∀ p ∈ nd.entries.map (fun e => (e.qubits, val e.vec)), ∀ q ∈ p.1, q < n := by
    intro p hp q hq
    obtain ⟨e, he, rfl⟩ := List.mem_map.mp hp
    have : q ∈ nd.entries.flatMap (·.qubits) := List.mem_flatMap.mpr ⟨e, he, hq⟩
    simpa using (hsem.reg.cover.mem_iff.mp this)
  rw [assembled_eq_planTensor 1 n _ hlt I]
  have hv := hsem.value (toBits n I)
  have hr : gather (List.range n) (toBits n I) = toBits n I := by
    have := map_getD_range (toBits n I)
    rwa [length_toBits] at this
  rw [hr, ofBits_toBits, Nat.mod_eq_of_lt hI] at hv
  rw [← hv]
  unfold planTensor planValue
  rw [List.foldl_map, List.prod_eq_foldl, List.foldl_map]

/-- **C08 (exact at zero loss)** for `split`, `canonical`, `brute_force` (any other strategy string
is `brute_force`): the properness hypothesis is a theorem. -/
theorem C08_zero_loss {K R : Type} [CommRing K] [LinearOrder K] [IsStrictOrderedRing K]
    [CommMonoid R] (O : Oracle K) (P : Params K) (hs : P.strategy ≠ .greedy) (n vec maxK : Nat)
    (hn : 2 ≤ n) (hP : P.maxLoss = 0)
    (hO : ∀ v lp u, ∀ s ∈ O.schmidt v lp u, 0 ≤ s.loss ∧ s.loss ≤ 1)
    (val : Nat → Nat → R) (size : Nat → Nat) (hsize : size vec = n) (hex : ExactSplits O val size)
    (nd : Node K) (h : adaptiveApproximation (orderedOps K) O P n vec maxK = some nd) (I : Nat)
    (hI : I < 2 ^ n) :
    assembled 1 n (nd.entries.map (fun e => (e.qubits, val e.vec))) I = val vec I :=
  C08_zero_loss_partial O P n vec maxK hn hP hO val size hsize hex
    (properCandidates_of_ne_greedy _ O P.strategy hs) nd h I hI

/-- Non-vacuity: the size-encoding demo oracle satisfies every hypothesis (`n = 2`, all-ones
amplitudes), and the search does return a two-factor plan for it. -/
example : ExactSplits C08_exactOracle (fun _ _ => (1 : ℤ)) C08_sizeOf ∧ C08_sizeOf 0 = 2 ∧
    (∀ v lp u, ∀ s ∈ C08_exactOracle.schmidt v lp u, (0 : ℤ) ≤ s.loss ∧ s.loss ≤ 1) ∧
    (adaptiveApproximation (orderedOps ℤ) C08_exactOracle ⟨0, .split, false⟩ 2 0 0).map
      (fun nd => nd.entries.map (fun e => (e.vec, e.qubits))) = some [(3, [0]), (4, [1])] := by
  refine ⟨?_, by decide, ?_, by decide⟩
  · intro vec lp u s hs _ _ _
    simp only [C08_exactOracle, List.mem_singleton] at hs
    subst hs
    refine ⟨fun _ => ⟨?_, ?_, fun _ _ => by simp⟩, fun h => absurd rfl h⟩
    · simp only [C08_sizeOf]
      have : (2 * lp.length + 1) % 2 = 1 := by omega
      simp [this]
    · simp only [C08_sizeOf]
      split <;> simp
  · intro v lp u s hs
    simp only [C08_exactOracle, List.mem_singleton] at hs
    subst hs
    simp

/-
  Full statement aimed at (C08_true_loss_n3): for `n ≤ 3` the true fidelity of the prepared state
  with the input is `∏ (1 − l_i)`, hence `1 − |⟨v|prepared⟩|² = total_fidelity_loss ≤ max_loss`.
  Proved: the algebraic core — replacing ONE Schmidt factor of the leading term by any vector
  multiplies the overlaps (so a chain of splits in which every later split acts inside one factor
  while its sibling is kept has overlap `∏ conj(s_0^{(j)})`, fidelity `∏ (1 − l_j)`).  Missing: the
  combinatorial fact that for `n ≤ 3` every plan is such a chain (the sibling of a register that
  can still be split is a single qubit) and the link to `Oracle.schmidt`'s `loss = 1 − s_0²`.  The
  harness checks `true loss = accounted loss ≤ max_loss` numerically on every run for `n ≤ 3`; for
  `n ≥ 4` both factors of a split may be split again and the accounted loss is only an estimate.
-/

/-- **C08 (nested approximations multiply overlaps).**  Over any commutative ring with
conjugation: if the bipartition matrix of `v` is `Σ_{i<k} U[:,i] s_i V[i,:]` and the rows of `V`
(resp. the columns of `U`) are orthogonal to the normalised leading one, then the overlap of `v`
with `x ⊗ V₀` is `conj(s₀)·⟨U₀|x⟩` (resp. with `U₀ ⊗ y` it is `conj(s₀)·⟨V₀|y⟩`) for EVERY `x`
(`y`) — in particular for any further approximation of the kept factor. -/
theorem C08_true_loss_nested_partial {K : Type} [CommRing K] [StarRing K] (rows cols k : Nat)
    (hk : 0 < k) (U : Nat → Nat → K) (s : Nat → K) (V : Nat → Nat → K) :
    ((∀ i, i < k → gramRows cols V i 0 = if i = 0 then 1 else 0) → ∀ x : Nat → K,
      inner2 star rows cols (composeMat k U s V) (fun r c => x r * V 0 c)
        = star (s 0) * sumTo rows (fun r => star (U r 0) * x r)) ∧
    ((∀ i, i < k → gramCols rows U i 0 = if i = 0 then 1 else 0) → ∀ y : Nat → K,
      inner2 star rows cols (composeMat k U s V) (fun r c => U r 0 * y c)
        = star (s 0) * sumTo cols (fun c => star (V 0 c) * y c)) :=
  ⟨fun hV x => nested_overlap_row rows cols k hk U s V x hV,
   fun hU y => nested_overlap_col rows cols k hk U s V y hU⟩

/-- Non-vacuity: `V = I₂` has rows orthogonal to its normalised first row. -/
example {K : Type} [CommRing K] [StarRing K] : ∀ i, i < 2 →
    gramRows (K := K) 2 (fun i c => if i = c then 1 else 0) i 0 = if i = 0 then 1 else 0 := by
  intro i hi
  rcases (by omega : i = 0 ∨ i = 1) with rfl | rfl <;> simp [gramRows, sumTo]

/-- **C08 (CNOT bookkeeping).**  For every `n ≠ 1`, every oracle and parameters, at every
reachable node: `total_saved_cnots` is the sum of the per-node savings along the path, it equals
the estimate for exact low-rank preparation of the whole vector minus the sum of the estimates of
the factors of the plan (telescoping of `_count_saved_cnots`), and it is `0` at the root and
positive everywhere else — in particular never negative. -/
theorem C08_saved_nonneg {α : Type} (L : LossOps α) (O : Oracle α) (P : Params α)
    (n vec k0 : Nat) (hn : n ≠ 1) (path : List (Node α)) (nd : Node α) (k : Nat)
    (h : Reach L O P (rootNode L n vec) k0 path nd k) :
    0 ≤ nd.totalSaved ∧
    nd.totalSaved = (path.map (·.nodeSaved)).sum ∧
    nd.totalSaved = (O.cnots vec none 0 : Int) - planCost O nd.entries := by
  have := reach_saved L O P n vec k0 hn path nd k h
  refine ⟨?_, this.2.2, this.1⟩
  rcases this.2.1 with h1 | h1 <;> omega

/-- **C08 (never more CNOTs than exact low-rank preparation — conditional on C10).**  Let
`actual e` be the number of CNOTs of the circuit prepared for factor `e` and `actualFull` that of
`LowRankInitialize(v)`.  If the estimates are right in the direction needed (`actual e ≤` estimate
for every factor of the returned plan, estimate for the whole vector `≤ actualFull` — both are
instances of C10 "estimate = actual"), then the assembled circuit, whose CNOTs are exactly those of
its factors, has at most `actualFull` CNOTs. -/
theorem C08_cnots_conditional {α : Type} (L : LossOps α) (O : Oracle α) (P : Params α)
    (n vec maxK : Nat) (hn : n ≠ 1) (nd : Node α)
    (h : adaptiveApproximation L O P n vec maxK = some nd)
    (actual : Entry → Nat) (actualFull : Nat)
    (hfac : ∀ e ∈ nd.entries, (actual e : Int) ≤ entryCost O e)
    (hfull : O.cnots vec none 0 ≤ actualFull) :
    ((nd.entries.map actual).sum : Nat) ≤ actualFull := by
  have key : ∀ (P' : Params α) k0 path k, Reach L O P' (rootNode L n vec) k0 path nd k →
      ((nd.entries.map actual).sum : Nat) ≤ actualFull := by
    intro P' k0 path k hr
    have hs := C08_saved_nonneg L O P' n vec k0 hn path nd k hr
    have hsum : ((nd.entries.map actual).sum : Int) ≤ planCost O nd.entries := by
      unfold planCost
      generalize nd.entries = es at hfac
      induction es with
      | nil => simp
      | cons x xs ih =>
        simp only [List.map_cons, List.sum_cons, Nat.cast_add]
        have h1 := hfac x (by simp)
        have h2 := ih (fun e he => hfac e (by simp [he]))
        omega
    omega
  rcases adaptive_reach L O P n vec maxK nd h with ⟨_, path, k, hr⟩ | ⟨path, k, hr⟩
  · exact key _ _ _ _ hr
  · exact key _ _ _ _ hr

/-- Non-vacuity of the hypotheses of `C08_cnots_conditional`: "actual = estimate" satisfies them. -/
example (O : Oracle ℤ) (vec : Nat) : (∀ e : Entry, (((entryCost O e).toNat : Nat) : Int) ≤ entryCost O e) ∧
    O.cnots vec none 0 ≤ O.cnots vec none 0 :=
  ⟨fun e => by unfold entryCost; simp, Nat.le_refl _⟩

/-! ## Added later: `greedy` candidates, zero loss for all four strategies -/

/-- **C08 (`_greedy_combinations`).**  For every oracle whose answer without low rank starts with
the rank-1 separation (`GreedyOracle`: the real `_reduce_entanglement(…, use_low_rank=False)`
returns exactly that one answer), every non-empty register `qs` and every `max_k`: each candidate
the model of `_greedy_combinations` yields is a non-empty, strictly increasing (hence
duplicate-free) list of at most `max_k` qubits of the register — so for `max_k ≤ len(qs)//2` a
non-empty proper subset.  Behind it: after `j` rounds the node's registers are `j` single qubits
followed by the entangled remainder (`GInv`). -/
theorem C08_greedy_candidates {α : Type} (L : LossOps α) (O : Oracle α) (hO : GreedyOracle O)
    (vec : Nat) (qs : List Nat) (hqs : qs ≠ []) (maxK : Nat) :
    (∀ part ∈ (greedyCombinations L O vec qs maxK).1,
      part ≠ [] ∧ part.length ≤ maxK ∧ part.Pairwise (· < ·) ∧ ∀ q ∈ part, q ∈ qs)
    ∧ ∀ s, ProperCandidates L O s :=
  ⟨greedy_candidates L O hO vec qs hqs maxK, properCandidates_all L O hO⟩

/-- **C08 (exact at zero loss, all four strategies; supersedes `C08_zero_loss_partial`).**  As
`C08_zero_loss`, for `greedy`, `split`, `canonical` and `brute_force` alike: with
`max_fidelity_loss = 0`, oracle losses in `[0,1]`, exact zero-loss answers (`ExactSplits`) and an
oracle whose answer without low rank starts with the rank-1 separation (`GreedyOracle`, only used
by `greedy`), the state assembled from the plan `adaptive_approximation` returns has amplitude
`val vec I` at every index `I < 2^n`.  The properness of the candidates is now a theorem for every
strategy (`C08_greedy_candidates`). -/
theorem C08_zero_loss_all {K R : Type} [CommRing K] [LinearOrder K] [IsStrictOrderedRing K]
    [CommMonoid R] (O : Oracle K) (P : Params K) (hG : GreedyOracle O) (n vec maxK : Nat)
    (hn : 2 ≤ n) (hP : P.maxLoss = 0)
    (hO : ∀ v lp u, ∀ s ∈ O.schmidt v lp u, 0 ≤ s.loss ∧ s.loss ≤ 1)
    (val : Nat → Nat → R) (size : Nat → Nat) (hsize : size vec = n) (hex : ExactSplits O val size)
    (nd : Node K) (h : adaptiveApproximation (orderedOps K) O P n vec maxK = some nd) (I : Nat)
    (hI : I < 2 ^ n) :
    assembled 1 n (nd.entries.map (fun e => (e.qubits, val e.vec))) I = val vec I :=
  C08_zero_loss_partial O P n vec maxK hn hP hO val size hsize hex
    (properCandidates_all _ O hG P.strategy) nd h I hI

/-- Non-vacuity: the exact demo oracle answers every query with one rank-1 record, and the
`greedy` search on it returns the two one-qubit factors. -/
example : GreedyOracle C08_exactOracle ∧
    (adaptiveApproximation (orderedOps ℤ) C08_exactOracle ⟨0, .greedy, false⟩ 2 0 0).map
      (fun nd => nd.entries.map (fun e => e.qubits)) = some [[0], [1]]
    ∧ (greedyCombinations (orderedOps ℤ) C08_exactOracle 0 [0, 1, 2, 3] 2).1.length = 2 := by
  refine ⟨fun v lp => ⟨_, [], rfl, rfl⟩, by decide, by decide⟩

/-! ## Added later: the shape of the plans for `n ≤ 3` and the true loss of nested truncations -/

/-- **C08 (plans are short nestings).**  For every `n ≥ 2`, every strategy, budget and
`max_combination_size`, every oracle that never reports rank `0` and whose answer without low
rank starts with the rank-1 separation: the plan `adaptive_approximation` returns is reached from
the root by at most `n − 1` approximations (`path`, root included, has at most `n` members; the
weight `Σ_{rank-0 registers}(size − 1)` drops at every step), its accounted loss is
`1 − ∏(1 − l_i)` over that path, and **for `n ≤ 3` at most one register of the plan — and of every
node on the way, each being reachable itself — has more than one qubit**: every approximation
acts inside the only multi-qubit factor while all its siblings are single qubits, kept to the
end.  So for `n ≤ 3` every plan is a nesting of at most two splits. -/
theorem C08_plan_nesting_n3 {K : Type} [CommRing K] [LinearOrder K] [IsStrictOrderedRing K]
    (O : Oracle K) (P : Params K) (hR : RankPos O) (hG : GreedyOracle O) (n vec maxK : Nat)
    (hn : 2 ≤ n) (nd : Node K)
    (h : adaptiveApproximation (orderedOps K) O P n vec maxK = some nd) :
    ∃ path : List (Node K), 1 ≤ path.length ∧ path.length ≤ n
      ∧ nd.totalLoss = chainLoss (path.map (·.nodeLoss))
      ∧ (n ≤ 3 → ((nd.entries.filter (fun x => x.qubits.length != 1)).length ≤ 1)) := by
  have key : ∀ (P' : Params K) k0 path k,
      Reach (orderedOps K) O P' (rootNode (orderedOps K) n vec) k0 path nd k →
      1 ≤ path.length ∧ path.length ≤ n ∧ nd.totalLoss = chainLoss (path.map (·.nodeLoss))
      ∧ (n ≤ 3 → ((nd.entries.filter (fun x => x.qubits.length != 1)).length ≤ 1)) := by
    intro P' k0 path k hr
    have hsh := reach_shape (orderedOps K) O P' n vec k0 hn hR
      (properCandidates_all _ O hG P'.strategy) path nd k hr
    refine ⟨hsh.pos, by have := hsh.weight; omega, (reach_chain O P' n vec k0 path nd k hr).1, ?_⟩
    intro hn3
    have h1 := hsh.single hn3
    have e : ∀ l : List Entry, (l.filter (fun x => x.qubits.length != 1)).length = (l.map ns).sum := by
      intro l
      induction l with
      | nil => rfl
      | cons x xs ih =>
        by_cases hx : x.qubits.length = 1
        · simp [hx, ns, ih]
        · simp [hx, ns, ih]; omega
    rw [e]; exact h1
  rcases adaptive_reach _ O P n vec maxK nd h with ⟨_, path, k, hr⟩ | ⟨path, k, hr⟩
  · exact ⟨path, key _ _ _ _ hr⟩
  · exact ⟨path, key _ _ _ _ hr⟩

/-- Non-vacuity: the exact demo oracle never reports rank `0`. -/
example : RankPos C08_exactOracle := by
  intro v lp u s hs
  simp only [C08_exactOracle, List.mem_singleton] at hs
  subst hs
  exact Nat.le_refl 1

/-- **C08 (loss of a rank-1 truncation, and of two nested ones).**  Over any commutative ring with
conjugation, finite sums, orthonormality as hypothesis.  Let `M = Σ_{i<k} U[:,i] s_i V[i,:]` with
the rows of `V` orthogonal to the normalised `V₀` and `U₀` normalised.  Then
* `⟨M | U₀ ⊗ V₀⟩ = conj(s₀)`: the fidelity of the rank-1 truncation is `conj(s₀)·s₀`, so its true
  loss is `1 − |s₀|²` — exactly the `fidelity_loss = 1 − Σ low_rank_s²` the code accounts;
* if the kept-on factor is replaced by ANY `w` with `⟨U₀|w⟩ = z` (in particular by the rank-1
  truncation `A₀ ⊗ B₀` of `U₀`, where `z = conj(t₀)`), `⟨M | w ⊗ V₀⟩ = conj(s₀)·z`;
* consequently, with `l₁ = 1 − |s₀|²` and `l₂ = 1 − |t₀|²`, the true loss of the nested plan
  `1 − |conj(s₀)conj(t₀)|²` equals the accounted loss `1 − (1 − l₂)(1 − l₁)(1 − 0)`
  (`chainLoss [l₂, l₁, 0]`, the root contributing `0`), hence is `≤ max_loss` whenever the
  accounted loss is. -/
theorem C08_rank1_loss {K : Type} [CommRing K] [StarRing K] (rows cols k : Nat) (hk : 0 < k)
    (U : Nat → Nat → K) (s : Nat → K) (V : Nat → Nat → K)
    (hV : ∀ i, i < k → gramRows cols V i 0 = if i = 0 then 1 else 0)
    (hU0 : sumTo rows (fun r => star (U r 0) * U r 0) = 1) :
    inner2 star rows cols (composeMat k U s V) (fun r c => U r 0 * V 0 c) = star (s 0)
    ∧ (∀ (w : Nat → K) (z : K), sumTo rows (fun r => star (U r 0) * w r) = z →
        inner2 star rows cols (composeMat k U s V) (fun r c => w r * V 0 c) = star (s 0) * z)
    ∧ (∀ (t0 l1 l2 : K), star (s 0) * s 0 = 1 - l1 → star t0 * t0 = 1 - l2 →
        1 - star (star (s 0) * star t0) * (star (s 0) * star t0) = chainLoss [l2, l1, 0]) := by
  refine ⟨overlap_leading rows cols k hk U s V hV hU0,
    fun w z hw => nested_two rows cols k hk U s V hV w z hw, fun t0 l1 l2 h1 h2 => ?_⟩
  rw [true_loss_two (s 0) t0 l1 l2 h1 h2]
  simp only [chainLoss, List.map_cons, List.map_nil, List.prod_cons, List.prod_nil]
  ring

/-- Non-vacuity: `U = V = I₂` meet the orthonormality hypotheses. -/
example {K : Type} [CommRing K] [StarRing K] :
    (∀ i, i < 2 → gramRows (K := K) 2 (fun i c => if i = c then 1 else 0) i 0 = if i = 0 then 1 else 0)
    ∧ sumTo 2 (fun r => star ((fun (r c : Nat) => if r = c then (1 : K) else 0) r 0)
        * (fun (r c : Nat) => if r = c then (1 : K) else 0) r 0) = 1 := by
  refine ⟨fun i hi => ?_, by simp [sumTo]⟩
  rcases (by omega : i = 0 ∨ i = 1) with rfl | rfl <;> simp [gramRows, sumTo]

/-
  Full statement aimed at (C08_true_loss_n3): for `n ≤ 3`, `1 − |⟨val vec | planTensor(plan)⟩|² =
  nd.totalLoss ≤ max_loss` for the plan returned, given the SVD specification of the oracle's
  answers.  Proved (`C08_true_loss_n3_partial` below, from `C08_plan_nesting_n3`, `C08_rank1_loss`
  and `C08_budget_result`): the plan is a nesting of at most two approximations, each inside the
  only multi-qubit factor with single-qubit siblings; its accounted loss is the chain loss of at
  most two losses and is within the budget; and for such a nesting, written with bipartition
  matrices, the true loss EQUALS that chain loss.  Missing: the identification of the model's
  `planTensor` (factors placed through `gather`/`toBits` on interleaved registers) with the
  matrix form `(A₀ ⊗ B₀) ⊗ V₀` used in `C08_rank1_loss`, i.e. the index bookkeeping that
  `childOf_semOK` does for exact splits, redone for inner products.  The harness checks `true loss
  = accounted loss ≤ max_loss` numerically for every `n ≤ 3` case on every run.
  (CLOSED later: `C08_true_loss_n3` at the end of this file proves that link and the full statement.)
-/
/-- **C08 (true loss for `n ≤ 3`, partial).**  For `2 ≤ n ≤ 3`, budget `≥ 0`, any strategy, and an
oracle as in `C08_plan_nesting_n3`: the returned plan has accounted loss
`chainLoss [l₂, l₁, 0]`-shaped — a chain over a path of at most three nodes (root and at most two
approximations) — which is `≤ max_loss`; at most one of its registers has more than one qubit;
and for every two-level nesting of rank-1 truncations in matrix form the true loss equals the
accounted chain loss (so it is `≤ max_loss` too). -/
theorem C08_true_loss_n3_partial {K : Type} [CommRing K] [LinearOrder K] [IsStrictOrderedRing K]
    [StarRing K] (O : Oracle K) (P : Params K) (hR : RankPos O) (hG : GreedyOracle O)
    (n vec maxK : Nat) (hn : 2 ≤ n) (hn3 : n ≤ 3) (h0 : 0 ≤ P.maxLoss) (nd : Node K)
    (h : adaptiveApproximation (orderedOps K) O P n vec maxK = some nd) :
    (∃ path : List (Node K), 1 ≤ path.length ∧ path.length ≤ 3
      ∧ nd.totalLoss = chainLoss (path.map (·.nodeLoss)) ∧ nd.totalLoss ≤ P.maxLoss
      ∧ (nd.entries.filter (fun x => x.qubits.length != 1)).length ≤ 1)
    ∧ ∀ (rows cols k : Nat) (U : Nat → Nat → K) (s : Nat → K) (V : Nat → Nat → K), 0 < k →
        (∀ i, i < k → gramRows cols V i 0 = if i = 0 then 1 else 0) →
        sumTo rows (fun r => star (U r 0) * U r 0) = 1 →
        ∀ (w : Nat → K) (t0 l1 l2 : K), sumTo rows (fun r => star (U r 0) * w r) = star t0 →
        star (s 0) * s 0 = 1 - l1 → star t0 * t0 = 1 - l2 →
        chainLoss [l2, l1, 0] ≤ P.maxLoss →
        1 - star (inner2 star rows cols (composeMat k U s V) (fun r c => w r * V 0 c))
              * inner2 star rows cols (composeMat k U s V) (fun r c => w r * V 0 c)
          = chainLoss [l2, l1, 0]
        ∧ 1 - star (inner2 star rows cols (composeMat k U s V) (fun r c => w r * V 0 c))
              * inner2 star rows cols (composeMat k U s V) (fun r c => w r * V 0 c) ≤ P.maxLoss := by
  constructor
  · obtain ⟨path, h1, h2, h3, h4⟩ := C08_plan_nesting_n3 O P hR hG n vec maxK hn nd h
    exact ⟨path, h1, by omega, h3, (C08_budget_result O P n vec maxK h0 nd h).1, h4 hn3⟩
  · intro rows cols k U s V hk hV hU0 w t0 l1 l2 hw h1 h2 hle
    obtain ⟨_, hb, hc⟩ := C08_rank1_loss rows cols k hk U s V hV hU0
    rw [hb w (star t0) hw]
    have := hc t0 l1 l2 h1 h2
    exact ⟨this, by rw [this]; exact hle⟩

/-! ## Added later: the true loss for `n ≤ 3` — plan tensor ↔ bipartition-matrix form -/

/-- **C08 (true loss for `n ≤ 3`; supersedes `C08_true_loss_n3_partial`).**  Losses in a linearly
ordered commutative ring `K`, amplitudes in a commutative ring with conjugation `R` (e.g. `ℝ → ℂ`),
`ι : K →+* R` the embedding.  Let `2 ≤ n ≤ 3`, the input `val vec` a unit vector on `n` qubits, any
strategy / budget `≥ 0` / `max_combination_size` / `use_low_rank`, and an oracle that never reports
rank `0`, answers rank-1 first without low rank (`GreedyOracle`) and meets the SVD specification
`SvdSplits`: for a rank-1 answer the bipartition matrix of the vector across the local partition is
`Σ_{i<k} U[:,i] σ_i V[i,:]` with `U₀`, `V₀` normalised and orthogonal to the other columns / rows,
the new vectors are `U₀`, `V₀` and `fidelity_loss = 1 − conj(σ₀)σ₀`; for a higher-rank answer the
approximate state has squared overlap `1 − fidelity_loss` with the vector (the conclusion of
`C07_fidelity`).  Then for the plan `adaptive_approximation` returns — early exit or best leaf,
registers interleaved arbitrarily — with `ov = ⟨val vec | state assembled by compose(gate,
qubits[::-1]) + reverse_bits()⟩` (a sum over all `2^n` indices of the model's `assembled`):
* the TRUE fidelity loss `1 − conj(ov)·ov` EQUALS the accounted `total_fidelity_loss`;
* that is `1 − ∏(1 − l_i)` over a path of at most three nodes (root and at most two approximations);
* it is `≤ max_fidelity_loss`;
* and the assembled state is the plan tensor `Node.state_vector()` describes.
The link proved here (`Proofs/BaaTrueLoss.lean`): at every reachable node the overlap of the input
with the plan's product state, the factor on the still entangled register replaced by an ARBITRARY
`w`, is `z·⟨current factor|w⟩` with `conj(z)z = 1 − total loss` (the index bookkeeping of
`childOf_semOK` redone for inner products, through `sepIndexAx`/`undoIndexAx` re-indexing and
`nested_overlap_row/col`); for `n ≤ 3` the sibling of the entangled register is a single qubit,
kept exactly (`C08_plan_nesting_n3`), which is what makes the overlaps multiply. -/
theorem C08_true_loss_n3 {K R : Type} [CommRing K] [LinearOrder K] [IsStrictOrderedRing K]
    [CommRing R] [StarRing R] (ι : K →+* R) (O : Oracle K) (P : Params K) (hR : RankPos O)
    (hG : GreedyOracle O) (n vec maxK : Nat) (hn : 2 ≤ n) (hn3 : n ≤ 3) (h0 : 0 ≤ P.maxLoss)
    (val : Nat → Nat → R) (size : Nat → Nat) (hsize : size vec = n)
    (hunit : sumTo (2 ^ n) (fun i => star (val vec i) * val vec i) = 1)
    (hspec : SvdSplits ι O val size) (nd : Node K)
    (h : adaptiveApproximation (orderedOps K) O P n vec maxK = some nd) :
    let plan := nd.entries.map (fun e => (e.qubits, val e.vec))
    let ov := sumTo (2 ^ n) (fun I => star (val vec I) * assembled 1 n plan I)
    1 - star ov * ov = ι nd.totalLoss ∧
    (∃ path : List (Node K), 1 ≤ path.length ∧ path.length ≤ 3 ∧
      nd.totalLoss = chainLoss (path.map (·.nodeLoss))) ∧
    nd.totalLoss ≤ P.maxLoss ∧
    (∀ I, assembled 1 n plan I = planTensor 1 n plan I) := by
  intro plan ov
  have key : ∀ (P' : Params K) k0 path k,
      Reach (orderedOps K) O P' (rootNode (orderedOps K) n vec) k0 path nd k →
      ShapeInv n path nd ∧ TLInv ι n vec val size nd := fun P' k0 path k hr =>
    reach_trueLoss ι O P' n vec k0 hn hn3 val size hsize hunit hspec hR
      (properCandidates_all _ O hG P'.strategy) path nd k hr
  have hinv : (∃ path : List (Node K), ShapeInv n path nd) ∧ TLInv ι n vec val size nd := by
    rcases adaptive_reach _ O P n vec maxK nd h with ⟨_, path, k, hr⟩ | ⟨path, k, hr⟩
    · exact ⟨⟨path, (key _ _ _ _ hr).1⟩, (key _ _ _ _ hr).2⟩
    · exact ⟨⟨path, (key _ _ _ _ hr).1⟩, (key _ _ _ _ hr).2⟩
  obtain ⟨⟨path0, hsh⟩, hi⟩ := hinv
  have hlt : ∀ p ∈ plan, ∀ q ∈ p.1, q < n := by
    intro p hp q hq
    obtain ⟨e, he, rfl⟩ := List.mem_map.mp hp
    have : q ∈ nd.entries.flatMap (·.qubits) := List.mem_flatMap.mpr ⟨e, he, hq⟩
    simpa using (hsh.reg.cover.mem_iff.mp this)
  have hasm : ∀ I, assembled 1 n plan I = planTensor 1 n plan I :=
    fun I => assembled_eq_planTensor 1 n plan hlt I
  have hov : ov = ovF n (val vec) (fun e => val e.vec) nd.entries := by
    unfold ovF
    refine sumTo_congr _ _ _ (fun I _ => ?_)
    rw [hasm I]
    congr 1
    unfold planTensor planValueF
    rw [List.foldl_map, List.prod_eq_foldl, List.foldl_map]
  obtain ⟨path, h1, h2, h3, _⟩ := C08_plan_nesting_n3 O P hR hG n vec maxK hn nd h
  refine ⟨?_, ⟨path, h1, by omega, h3⟩, (C08_budget_result O P n vec maxK h0 nd h).1, hasm⟩
  rw [hov, trueLoss_of_inv ι n vec val size nd hi, map_sub, map_one]
  ring

/-- **C08 (true loss for `n ≤ 3`, one ordered ring for losses and amplitudes, e.g. `ℝ`).**  As
`C08_true_loss_n3` with `R = K`, `ι = id`: the true loss `1 − conj(ov)·ov` of the returned plan
equals `total_fidelity_loss` and is `≤ max_fidelity_loss`. -/
theorem C08_true_loss_n3_le {K : Type} [CommRing K] [LinearOrder K] [IsStrictOrderedRing K]
    [StarRing K] (O : Oracle K) (P : Params K) (hR : RankPos O) (hG : GreedyOracle O)
    (n vec maxK : Nat) (hn : 2 ≤ n) (hn3 : n ≤ 3) (h0 : 0 ≤ P.maxLoss)
    (val : Nat → Nat → K) (size : Nat → Nat) (hsize : size vec = n)
    (hunit : sumTo (2 ^ n) (fun i => star (val vec i) * val vec i) = 1)
    (hspec : SvdSplits (RingHom.id K) O val size) (nd : Node K)
    (h : adaptiveApproximation (orderedOps K) O P n vec maxK = some nd) :
    let plan := nd.entries.map (fun e => (e.qubits, val e.vec))
    let ov := sumTo (2 ^ n) (fun I => star (val vec I) * assembled 1 n plan I)
    1 - star ov * ov = nd.totalLoss ∧ 1 - star ov * ov ≤ P.maxLoss := by
  intro plan ov
  have := C08_true_loss_n3 (RingHom.id K) O P hR hG n vec maxK hn hn3 h0 val size hsize hunit
    hspec nd h
  simp only [RingHom.id_apply] at this
  exact ⟨this.1, by rw [this.1]; exact this.2.2.1⟩

/-- Non-vacuity of `C08_true_loss_n3(_le)`: over `ℤ`, every vector of the size-encoding demo oracle
`C08_exactOracle` taken to be `|0…0⟩` (a unit vector; its bipartition matrix across ANY valid
partition is `|0…0⟩ ⊗ |0…0⟩`, `σ₀ = 1`, loss `0`).  All hypotheses hold together — SVD specification,
rank `≥ 1`, rank-1 first, size, normalisation — and the search returns a two-factor plan. -/
example :
    SvdSplits (RingHom.id ℤ) C08_exactOracle (fun _ i => if i = 0 then 1 else 0) C08_sizeOf ∧
    RankPos C08_exactOracle ∧ GreedyOracle C08_exactOracle ∧ C08_sizeOf 0 = 2 ∧
    sumTo (2 ^ 2) (fun i => star ((fun (_ i : Nat) => if i = 0 then (1 : ℤ) else 0) 0 i)
      * (fun (_ i : Nat) => if i = 0 then (1 : ℤ) else 0) 0 i) = 1 ∧
    (adaptiveApproximation (orderedOps ℤ) C08_exactOracle ⟨0, .split, false⟩ 2 0 0).map
      (fun nd => nd.entries.map (fun e => (e.vec, e.qubits))) = some [(3, [0]), (4, [1])] := by
  refine ⟨?_, ?_, fun v lp => ⟨_, [], rfl, rfl⟩, by decide, by decide, by decide⟩
  · intro vec lp u s hs hlp hlt
    simp only [C08_exactOracle, List.mem_singleton] at hs
    subst hs
    have hva : ValidAxes (C08_sizeOf vec) lp := ⟨hlp.imp (fun h => by omega), hlt⟩
    refine ⟨fun _ => ⟨?_, ?_, 1, fun r _ => if r = 0 then 1 else 0, fun _ => 1,
      fun _ c => if c = 0 then 1 else 0, by decide, ?_, ?_, ?_, fun _ _ => rfl, fun _ _ => rfl,
      by simp⟩, fun h => absurd rfl h⟩
    · simp only [C08_sizeOf]
      have : (2 * lp.length + 1) % 2 = 1 := by omega
      simp [this]
    · simp only [C08_sizeOf]
      split <;> simp
    · intro r c hr hc
      rw [sepMat_e0 hva r c hr hc]
      simp [composeMat, sumTo]
    · intro i hi
      have : i = 0 := by omega
      subst this
      rw [if_pos rfl]
      exact sumTo_e0 _ (Nat.pos_of_ne_zero (by simp))
    · intro i hi
      have : i = 0 := by omega
      subst this
      rw [if_pos rfl]
      exact sumTo_e0 _ (Nat.pos_of_ne_zero (by simp))
  · intro v lp u s hs
    simp only [C08_exactOracle, List.mem_singleton] at hs
    subst hs
    exact Nat.le_refl 1

/-- **C08 (the higher-rank clause of `SvdSplits` is C07's fidelity).**  Over any field with
conjugation: if the bipartition matrix of `val vec` across a valid local partition `lp` meets the
SVD specification (`Σ_{i<k} U[:,i] σ_i V[i,:]`, orthonormal columns / rows, real `σ`), and the
approximate state is what `_create_node` builds for an answer of rank `r > 1` —
`schmidt_composition(U, V, σ[:r]/N, lp)` with `N = sqrt(1 − fidelity_loss)` real,
`fidelity_loss = 1 − Σ_{i<r} σ_i²` — then `⟨val vec | approximate state⟩ = N` and
`conj(N)·N = 1 − fidelity_loss`: exactly the clause `SvdSplits` asks of a higher-rank answer. -/
theorem C08_lowrank_answer {K : Type} [Field K] [StarRing K] (m : Nat) (lp : List Nat)
    (hlp : lp.Pairwise (· < ·)) (hlt : ∀ a ∈ lp, a < m) (v : Nat → K) (k r : Nat) (hle : r ≤ k)
    (U : Nat → Nat → K) (σ : Nat → K) (V : Nat → Nat → K) (N loss : K)
    (hU : ∀ i j, i < k → j < k → gramCols (2 ^ (m - lp.length)) U i j = if i = j then 1 else 0)
    (hV : ∀ i j, i < k → j < k → gramRows (2 ^ lp.length) V i j = if i = j then 1 else 0)
    (hσ : ∀ i, star (σ i) = σ i) (hNs : star N = N) (hN : N ≠ 0)
    (hloss : loss = 1 - sumTo r (fun i => σ i * σ i)) (hNN : N * N = 1 - loss)
    (hsvd : ∀ x y, x < 2 ^ (m - lp.length) → y < 2 ^ lp.length →
      sepMat m lp v x y = composeMat k U σ V x y) :
    ∃ z : K, ipTo (2 ^ m) v (schmidtCompose m lp r U (renorm N σ) V) = z ∧
      star z * z = (RingHom.id K) (1 - loss) := by
  have hva : ValidAxes m lp := ⟨hlp.imp (fun h => by omega), hlt⟩
  have hNN' : N * N = sumTo r (fun i => σ i * σ i) := by rw [hNN, hloss]; ring
  have := lowrank_overlap hva v k r hle U σ V N hU hV hσ hNs hN hNN' hsvd
  exact ⟨N, this.1, by rw [this.2, RingHom.id_apply, hloss]; ring⟩

/-- Non-vacuity of `C08_lowrank_answer` over `ℚ`: two qubits, local partition `[0]`, the vector
`|00⟩`, `U = V = I₂`, `σ = (1, 0)`, rank `r = 2`, `N = 1`, loss `0`. -/
example :
    (∀ i j, i < 2 → j < 2 → gramCols (K := ℚ) (2 ^ (2 - [0].length))
      (fun r i => if r = i then 1 else 0) i j = if i = j then 1 else 0) ∧
    (∀ i j, i < 2 → j < 2 → gramRows (K := ℚ) (2 ^ [0].length)
      (fun i c => if i = c then 1 else 0) i j = if i = j then 1 else 0) ∧
    (∀ x y, x < 2 ^ (2 - [0].length) → y < 2 ^ [0].length →
      sepMat 2 [0] (fun i => if i = 0 then (1 : ℚ) else 0) x y
        = composeMat 2 (fun r i => if r = i then 1 else 0) (fun i => if i = 0 then 1 else 0)
            (fun i c => if i = c then 1 else 0) x y) ∧
    ((1 : ℚ) * 1 = 1 - 0 ∧ (0 : ℚ) = 1 - sumTo 2 (fun i =>
      (fun i => if i = 0 then (1 : ℚ) else 0) i * (fun i => if i = 0 then (1 : ℚ) else 0) i)) := by
  refine ⟨?_, ?_, ?_, by norm_num, by simp [sumTo]⟩
  · intro i j hi hj
    rcases (by omega : i = 0 ∨ i = 1) with rfl | rfl <;>
      rcases (by omega : j = 0 ∨ j = 1) with rfl | rfl <;> simp [gramCols, sumTo]
  · intro i j hi hj
    rcases (by omega : i = 0 ∨ i = 1) with rfl | rfl <;>
      rcases (by omega : j = 0 ∨ j = 1) with rfl | rfl <;> simp [gramRows, sumTo]
  · intro x y hx hy
    have hva : ValidAxes 2 [0] := ⟨by simp, by simp⟩
    rw [sepMat_e0 hva x y hx hy]
    have hx' : x < 2 := hx
    have hy' : y < 2 := hy
    rcases (by omega : x = 0 ∨ x = 1) with rfl | rfl <;>
      rcases (by omega : y = 0 ∨ y = 1) with rfl | rfl <;> simp [composeMat, sumTo]

end Qclib
