import QclibModel.Proofs.PqmProof
import QclibModel.Proofs.PqmLaw
/-
  C17 — probabilistic quantum memory: retrieval follows the Hamming-distance cosine law.
  Property theorems only; proofs live in Proofs/PqmProof.lean and Proofs/PqmLaw.lean.
-/
namespace Qclib
open RotSem Complex

/-- **C17 (closed form, any ring, any state).**  For every `n`, every pattern (classical or in a
quantum register), every wire layout with pairwise distinct wires and *every* state `ψ`
(superposed memories, superposed quantum patterns, auxiliary in any state), the retrieval circuit
acts diagonally on memory and pattern labels and mixes only the auxiliary, with weights given by
the `d`-th powers of the two phases, `d` the Hamming distance. -/
theorem C17_general {Θ R : Type} [AddCommGroup Θ] [CommRing R] [RotSem Θ R] [RotLaws Θ R]
    (n : Nat) (classical : Bool) (pattern : Nat → Bool) (mem pat : Nat → Nat)
    (aux : Nat) (hw : PqmWires n mem pat aux) (θm θc : Θ) (ψ : State R) :
    sem (pqm n classical pattern mem pat aux θm θc) ψ
      = pqmIdeal n classical pattern mem pat aux θm θc ψ :=
  pqm_correct n classical pattern mem pat aux hw θm θc ψ

/-- **C17 (cosine law).**  With the angles the code uses (`-π/2n`, `π/n`) and the auxiliary
initially `|0⟩`, the squared amplitude on (`aux = 0`, label `b`) is `|ψ b|²·cos²(π d(b)/2n)`;
summing over `b` gives `P(aux=0) = Σ_k |a_k|² cos²(π d(k,p)/2n)`. -/
theorem C17_law (n : Nat) (hn : 0 < n) (classical : Bool) (pattern : Nat → Bool)
    (mem pat : Nat → Nat) (aux : Nat) (hw : PqmWires n mem pat aux) (ψ : State ℂ)
    (haux : ∀ b, b aux = true → ψ b = 0) (b : Bits) (hb : b aux = false) :
    Complex.normSq
        (sem (pqm n classical pattern mem pat aux (-(Real.pi / (2 * n)) : ℝ) (Real.pi / n : ℝ)) ψ b)
      = Complex.normSq (ψ b)
          * Real.cos (Real.pi * (pqmDist n classical pattern mem pat b) / (2 * n)) ^ 2 := by
  rw [pqm_amp0 n hn classical pattern mem pat aux hw ψ haux b hb, Complex.normSq_mul,
    Complex.normSq_ofReal]
  ring

/-- **C17 (marginals).**  The probability of finding memory and pattern registers in label `b`
(summed over the auxiliary) is unchanged by the circuit. -/
theorem C17_marginals (n : Nat) (hn : 0 < n) (classical : Bool) (pattern : Nat → Bool)
    (mem pat : Nat → Nat) (aux : Nat) (hw : PqmWires n mem pat aux) (ψ : State ℂ)
    (haux : ∀ b, b aux = true → ψ b = 0) (b : Bits) (hb : b aux = false) :
    let out := sem (pqm n classical pattern mem pat aux (-(Real.pi / (2 * n)) : ℝ) (Real.pi / n : ℝ)) ψ
    Complex.normSq (out b) + Complex.normSq (out (setBit b aux true)) = Complex.normSq (ψ b) := by
  intro out
  show Complex.normSq (sem _ ψ b) + Complex.normSq (sem _ ψ (setBit b aux true)) = _
  rw [pqm_amp0 n hn classical pattern mem pat aux hw ψ haux b hb,
    pqm_amp1 n hn classical pattern mem pat aux hw ψ haux b hb]
  simp only [Complex.normSq_mul, Complex.normSq_ofReal, Complex.normSq_neg, Complex.normSq_I, one_mul]
  have := Real.cos_sq_add_sin_sq (Real.pi * (pqmDist n classical pattern mem pat b) / (2 * n))
  nlinarith [this, Complex.normSq_nonneg (ψ b)]

end Qclib
