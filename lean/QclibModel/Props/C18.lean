import QclibModel.Proofs.FnPointsLadder
import QclibModel.Proofs.FnPointsTelescope
import QclibModel.Proofs.FnPointsLoop
import QclibModel.Proofs.FnPointsReal
import QclibModel.Proofs.FnPointsNPrime
import QclibModel.Gen.FnNPrime
/-
  C18 — FnPointsInitialize: uniform-magnitude, phase-encoded superposition of the listed inputs.
  Property theorems only; proofs live in Proofs/FnPoints*.lean.
-/
namespace Qclib
open RotSem

/-- **C18 (source tie, N' rule).**  `Gen.FnNPrime.fn_n_prime` is re-translated on every run from the
statements of `FnPointsInitialize.__init__` that compute `self.n_output_values`
(`default_n_output_values = max(params.values()) - 1` and the `opt_params` branches; `max(params.values())`,
`opt_params is None` and `opt_params.get("n_output_values")` are its parameters).  For every list of
outputs, every way of passing (or not passing) `opt_params` and every requested value it equals the hand
model `fnNPrime` the other theorems use: the default `max s − 1` when `opt_params` is `None` or has no
(or a `None`) entry, else the larger of the requested value and that default.  An edit of the `- 1`, of
the `max`, or of the `None` handling in the source breaks this proof. -/
theorem C18_nprime_src (ss : List Int) (optNone : Bool) (N : Option Int) :
    Gen.FnNPrime.fn_n_prime (fnMaxS ss) optNone N = fnNPrime (if optNone then none else N) ss := by
  unfold Gen.FnNPrime.fn_n_prime fnNPrime
  cases optNone <;> cases N <;> simp

/-- Non-vacuity: outputs with maximum 5 — default 4; requested 7 gives 7, requested 2 gives 4. -/
example : Gen.FnNPrime.fn_n_prime 5 true none = 4 ∧ Gen.FnNPrime.fn_n_prime 5 false (some 7) = 7
    ∧ Gen.FnNPrime.fn_n_prime 5 false (some 2) = 4 ∧ Gen.FnNPrime.fn_n_prime 5 false none = 4 := by decide

/-- **C18 (Toffoli ladder).**  For every `n ≥ 2`, every layout with pairwise distinct wires, every
bit pattern `z`, *every* state `ψ` and every label `b` whose work qubits `g` are clean: the
two-stage ladder with per-bit X sandwiches pulls the amplitude from the label with `c[0]` flipped
iff the x register of `b` equals `z`, and from `b` itself otherwise — i.e. it flips `c[0]` exactly on
`x = z` and returns every `g` (and x) wire to its value. -/
theorem C18_ladder {Θ R : Type} [CommRing R] [RotSem Θ R] (n : Nat) (hn : 2 ≤ n) (L : FnLayout)
    (hw : FnWires n L) (z : Nat → Bool) (ψ : State R) (b : Bits) (hg : fnGClr L n b = true) :
    sem (fnLadder (Θ := Θ) L n z) ψ b = ψ (if fnXMatch L n z b then flipBit b L.c0 else b) :=
  fn_ladder hw hn z ψ b hg

/-- Non-vacuity: the code's layout for `n = 3` has distinct wires and the all-zero label has clean
work qubits. -/
example : FnWires 3 (fnCodeLayout 3) ∧ fnGClr (fnCodeLayout 3) 3 (fun _ => false) = true :=
  ⟨fnCodeLayout_wires 3 (by omega), by decide⟩

/-- **C18 (telescope).**  Squared-amplitude bookkeeping in any field of characteristic zero:
`(1/(p+1)) · ∏_{q=p+1}^{m-1} q/(q+1) = 1/m` for all `p < m`. -/
theorem C18_telescope {K : Type} [Field K] [CharZero K] (p m : Nat) (h : p < m) :
    (1 / ((p : K) + 1)) * ∏ q ∈ Finset.Ico (p + 1) m, ((q : K) / ((q : K) + 1)) = 1 / (m : K) :=
  fn_telescope p m h

example : (1 / (((1 : ℕ) : ℚ) + 1))
    * ∏ q ∈ Finset.Ico (1 + 1) 4, (((q : ℕ) : ℚ) / (((q : ℕ) : ℚ) + 1)) = 1 / ((4 : ℕ) : ℚ) :=
  C18_telescope 1 4 (by omega)

/-- **C18 (final state, any commutative ring).**  For every `n ≥ 2`, every layout with distinct
wires, every non-empty list of points that are pairwise distinct on bits `0 … n-1` (in any order),
any parameters with `e^{iγ} = 1` and `cos(θ₀/2) = 0`, and every initial state `ψ₀` supported on the
labels where all `2n+1` circuit wires are `0` (spectator wires arbitrary): the whole circuit puts
the amplitude `fnCoef … (x bits)` — the product `e^{iφ_p}·sin(θ_p/2)·∏_{q>p} cos(θ_q/2)` for the
listed point with that bit pattern, `0` if there is none — on the labels with `g = 0`, `c = 00`,
and `0` on every label where a work or flag qubit is set. -/
theorem C18_state_general {Θ R : Type} [CommRing R] [RotSem Θ R] (n : Nat) (hn : 2 ≤ n)
    (L : FnLayout) (hw : FnWires n L) (A : FnAngles Θ) (hγ : (ex A.zero * ex A.zero : R) = 1)
    (h0 : (cs (A.theta 0) : R) = 0) (pts : List FnPoint) (hne : pts ≠ [])
    (hd : pts.Pairwise (fun p q => fnMatch n p.z q.z = false))
    (ψ0 : State R) (hψ0 : ∀ b, fnZero L n b = false → ψ0 b = 0) (b : Bits) :
    sem (fnPointsAt L n A pts) ψ0 b
      = if fnGClr L n b && !b L.c0 && !b L.c1
        then fnCoef A n (1 : R) pts.reverse (fnXbits L n b) * ψ0 (fnClr L n b) else 0 :=
  fn_state_general hw hn A hγ h0 pts hne hd ψ0 hψ0 b

/-- Non-vacuity of the parameter hypotheses: the code's angles over `ℝ → ℂ` satisfy them. -/
example : (ex (fnRealAngles 3).zero * ex (fnRealAngles 3).zero : ℂ) = 1
    ∧ (cs ((fnRealAngles 3).theta 0) : ℂ) = 0 := ⟨fnReal_zero 3, fnReal_cs0 3⟩

/-- **C18 (the property).**  For every `n ≥ 2`, every non-empty list `pts` of `m` pairwise distinct
`n`-bit inputs in any order, every integer output assignment and every requested `N` (or none)
such that `N' = fnNPrime N outputs ≠ 0`: the model of the constructor accepts, and the circuit it
builds (code layout, code angles `θ_p = -2 arccos √(p/(p+1))`, `λ = -2πs/N'`, `φ = -λ`) maps every
`ψ₀` supported on "all circuit wires `0`" to
* `-(1/√m)·e^{2πi s/N'} · ψ₀(cleared label)` on each label whose x register holds a listed input
  (with output `s`) and whose `g`, `c` wires are `0`;
* `0` on labels whose x register holds no listed input;
* `0` on every label with a `g` or `c` wire set (work qubits returned to `|0⟩`). -/
theorem C18_state (n : Nat) (hn : 2 ≤ n) (pts : List FnPoint) (hne : pts ≠ [])
    (hd : pts.Pairwise (fun p q => fnMatch n p.z q.z = false)) (N : Option Int)
    (hN : fnNPrime N (pts.map (·.s)) ≠ 0)
    (ψ0 : State ℂ) (hψ0 : ∀ b, fnZero (fnCodeLayout n) n b = false → ψ0 b = 0) :
    ∃ circ, fnPointsCode fnRealAngles n pts N = .ok circ ∧ ∀ b : Bits,
      let L := fnCodeLayout n
      let clean := fnGClr L n b && !b L.c0 && !b L.c1
      (∀ p, p ∈ pts → fnXMatch L n p.z b = true → clean = true →
        sem circ ψ0 b
          = fnTargetAmp pts.length (fnNPrime N (pts.map (·.s))) p.s * ψ0 (fnClr L n b))
      ∧ ((∀ p, p ∈ pts → fnXMatch L n p.z b = false) → sem circ ψ0 b = 0)
      ∧ (clean = false → sem circ ψ0 b = 0) := by
  refine ⟨fnPointsAt (fnCodeLayout n) n (fnRealAngles (fnNPrime N (pts.map (·.s)))) pts, ?_, ?_⟩
  · unfold fnPointsCode
    have h1 : pts.isEmpty = false := by cases pts with | nil => exact absurd rfl hne | cons _ _ => rfl
    have h2 : (fnNPrime N (pts.map (·.s)) == 0) = false := by simpa using hN
    have h3 : ¬ n < 2 := by omega
    simp [h1, h2, h3]
  · intro b
    have hw := fnCodeLayout_wires n (by omega)
    have hgen := fun b => fn_state_general (R := ℂ) hw hn
      (fnRealAngles (fnNPrime N (pts.map (·.s)))) (fnReal_zero _) (fnReal_cs0 _) pts hne hd ψ0 hψ0 b
    have hd' : pts.reverse.Pairwise (fun p q => fnMatch n p.z q.z = false) := by
      rw [List.pairwise_reverse]
      exact hd.imp (fun {p q} h => by rw [fnMatch_comm]; exact h)
    have hm : (0 : ℝ) < pts.length := by
      have : 0 < pts.length := List.length_pos_of_ne_nil hne
      exact_mod_cast this
    refine ⟨?_, ?_, ?_⟩
    · intro p hp hx hc
      rw [hgen b, hc, if_pos rfl]
      have := fnCoef_real (fnNPrime N (pts.map (·.s))) n pts.length pts.reverse
        (by simp) hd' (fnXbits (fnCodeLayout n) n b) p (List.mem_reverse.mpr hp) hx
      rw [List.length_reverse, div_self hm.ne', Real.sqrt_one, Complex.ofReal_one] at this
      rw [this]
    · intro hno
      rw [hgen b, fnCoef_nomatch _ n 1 _ _ (by
        rw [List.any_eq_false]
        intro p hp
        rw [show fnMatch n (fnXbits (fnCodeLayout n) n b) p.z
          = fnXMatch (fnCodeLayout n) n p.z b from rfl, hno p (List.mem_reverse.mp hp)]
        exact Bool.false_ne_true)]
      simp
    · intro hc
      rw [hgen b, hc]
      simp

/-- Non-vacuity of `C18_state`: the docstring example `{01: 0, 10: 1, 11: 2}`, `N = 3`, from the
state that is `1` on the labels with all circuit wires `0`. -/
example : ∃ (pts : List FnPoint) (ψ0 : State ℂ),
    pts ≠ [] ∧ pts.Pairwise (fun p q => fnMatch 2 p.z q.z = false)
    ∧ fnNPrime (some 3) (pts.map (·.s)) ≠ 0
    ∧ (∀ b, fnZero (fnCodeLayout 2) 2 b = false → ψ0 b = 0) ∧ ψ0 (fun _ => false) = 1 :=
  ⟨[⟨fun j => j == 1, 0⟩, ⟨fun j => j == 0, 1⟩, ⟨fun _ => true, 2⟩],
   fun b => if fnZero (fnCodeLayout 2) 2 b then 1 else 0,
   by simp, by decide, by decide, by intro b h; simp [h], by
     have : fnZero (fnCodeLayout 2) 2 (fun _ => false) = true := by decide
     simp [this]⟩

/-- **C18 (`N'` rule).**  `__init__` computes `n_output_values` as the larger of the requested
number and the largest output minus one (and as the latter when nothing is requested), where the
largest output is attained and bounds every output. -/
theorem C18_nprime (ss : List Int) (hne : ss ≠ []) :
    ∃ M, M ∈ ss ∧ (∀ s, s ∈ ss → s ≤ M) ∧ (∀ N, fnNPrime (some N) ss = max N (M - 1))
      ∧ fnNPrime none ss = M - 1 :=
  ⟨fnMaxS ss, (fnMaxS_spec ss hne).1, (fnMaxS_spec ss hne).2, fun _ => rfl, rfl⟩

example : fnNPrime (some 2) [0, 1, 7] = 6 ∧ fnNPrime (some 3) [0, 1, 2] = 3
    ∧ fnNPrime none [0, 1] = 0 := by decide

end Qclib
