import QclibModel.Proofs.QrFullEx
import QclibModel.Proofs.QrFullCircuit
import Mathlib.Data.Matrix.Mul
/-
  C02 — unitary synthesis, the QR (Givens) decomposition `_qrd` of `qclib/unitary.py`, WHOLE SWEEP at
  matrix level (the per-rotation circuit — Gray-code MCX walk, X sandwiches, `_undo_mcxs`,
  orientation of the 2×2 block — is `C02_qr_gray / _sandwich / _undo / _orientation` in
  Props/C02.lean).  Property theorems only; proofs in Proofs/QrFull*.lean.

  Model (Proofs/QrFullGivens.lean, QrFullSweep.lean, QrFullResidual.lean), over `ℂ`, matrices
  `Mat N = Matrix (Fin N) (Fin N) ℂ` for every `N` (the sweep never looks at qubits):
    * `pairNorm x y = √(|x|² + |y|²)`            — `np.linalg.norm([x, y])`
    * `givens M col row`                          — `matrix_rotation` (identity, then the four assignments)
    * `sweep U`, `gateSequence U`, `residual U`   — the two nested loops, the reversed list, `gate`
    * `pairs N`                                   — the `(col, row)` pairs in loop order
    * `factors ps M`                              — the matrices appended to `gate_sequence`, in order
    * `SweepOk ps M`                              — no iteration meets `norm = 0`
    * `circuitOp gs`                              — operator of the circuit `_build_qr_circuit` builds from
                                                    the list `gs` (list order = circuit order)
    * `getRowCol G`, `embedBlock G c r`           — `_get_row_col`'s search and the block it returns

  FINDING (exact arithmetic, see `C02_qr_residual_unlocated`): after the sweep `gate` has only zeros
  below the diagonal, so `_get_row_col(gate)` finds no entry `!= 0 and != 1`, leaves `col`/`row`
  unbound and `_row_and_col_qubits(col, …)` raises `UnboundLocalError` — for EVERY input the sweep
  accepts.  The real code gets past this point only because floating-point rounding leaves entries
  of size ~1e-17 below the diagonal; `_get_row_col` then returns the LAST such position (row-major),
  usually `(N-1, N-2)`, and the circuit implements the (numerically diagonal) 2×2 block found there.
  This is correct iff that position is in the last row (`C02_qr_residual_located`).  Reproducer with
  exactly representable entries, no zero entry, where rounding does not help:
      unitary(np.array([[1+1j, 1+1j], [1+1j, -1-1j]]) / 2, 'qr')   →  UnboundLocalError
  (`exHi` below; every intermediate float operation is exact, the residual is exactly diag(1, i)).
-/
namespace Qclib
open Qclib.QrFull Matrix

variable {N : ℕ}

/-! ### (1) one iteration -/

/-- **C02 (one Givens step).**  For every `N`, every matrix `M` (= `gate` at the start of the
iteration) and every `col < row`: if `norm ≠ 0` then `matrix_rotation` `R` is unitary
(`R·R† = R†·R = 1`), equals the identity outside rows/columns `{col, row}`,
`(R·M)[row, col] = 0`, `(R·M)[col, col] = norm` which is a positive real, every row other than
`col`, `row` of `M` is unchanged (in particular the other entries of column `col`), and a column
`c' < col` that is already zero below the diagonal stays zero below the diagonal. -/
theorem C02_qr_step (M : Mat N) {col row : Fin N} (hcr : col < row)
    (hν : pairNorm (M col col) (M row col) ≠ 0) :
    givens M col row * (givens M col row)ᴴ = 1 ∧
    (givens M col row)ᴴ * givens M col row = 1 ∧
    (∀ i j, (i ≠ col ∧ i ≠ row) ∨ (j ≠ col ∧ j ≠ row) →
      givens M col row i j = (1 : Mat N) i j) ∧
    (givens M col row * M) row col = 0 ∧
    (givens M col row * M) col col = ((pairNorm (M col col) (M row col) : ℝ) : ℂ) ∧
    0 < pairNorm (M col col) (M row col) ∧
    (∀ i j, i ≠ col → i ≠ row → (givens M col row * M) i j = M i j) ∧
    (∀ c' : Fin N, c' < col → (∀ i, c' < i → M i c' = 0) →
      ∀ i, c' < i → (givens M col row * M) i c' = 0) := by
  have hne : col ≠ row := ne_of_lt hcr
  have htl := givens_twoLevel M hne hν
  refine ⟨htl.1, htl.2, htl.3, givens_mul_zero M hne hν, givens_mul_pivot M hne hν,
    pairNorm_pos hν, fun i j h1 h2 => givens_mul_other M hne h1 h2 j, ?_⟩
  intro c' hc' hz i hi
  have z1 := hz col hc'
  have z2 := hz row (lt_trans hc' hcr)
  by_cases h1 : i = row
  · subst h1; rw [givens_mul_row_r M hne, z1, z2]; simp
  · by_cases h2 : i = col
    · subst h2; rw [givens_mul_row_c M hne, z1, z2]; simp
    · rw [givens_mul_other M hne h2 h1]; exact hz i hi

/-- non-vacuity: `M = (1/5)·[[3, 4], [4, −3]]`, `col = 0`, `row = 1` (`norm = 1`). -/
example : ((0 : Fin 2) < 1) ∧ pairNorm (ex345 0 0) (ex345 1 0) ≠ 0 :=
  ⟨by decide, by have h := ex345_ok; rw [pairs_two] at h; exact h.1⟩

/-! ### (2) the whole sweep -/

/-- **C02 (QR gate sequence, main theorem).**  For every `N` and every matrix `U` (unitary or not)
whose sweep never meets `norm = 0`:
* the list `_build_qr_gate_sequence` returns is `[residual, R_last†, …, R_first†]`;
* `_build_qr_circuit` appends the sub-circuits in list order, i.e. the residual's sub-circuit acts
  FIRST and `R_first†`'s LAST, so the operator of the circuit is the product of the list in the
  opposite order, `R_first† · … · R_last† · residual` — and this product is `U` itself (telescoping
  with `R†·R = 1`);
* the `k`-th matrix appended is a two-level unitary on the `k`-th pair `(col, row)` of the loop,
  `col < row`; the loop visits the pairs in strictly increasing lexicographic order and visits
  every pair `col < row` exactly once. -/
theorem C02_qr_sequence (U : Mat N) (hok : SweepOk (pairs N) U) :
    gateSequence U = residual U :: (factors (pairs N) U).reverse ∧
    circuitOp (gateSequence U) = (factors (pairs N) U ++ [residual U]).prod ∧
    circuitOp (gateSequence U) = U ∧
    List.Forall₂ (fun G p => IsTwoLevelUnitary G p.1 p.2 ∧ p.1 < p.2)
      (factors (pairs N) U) (pairs N) ∧
    (pairs N).Pairwise lt2 ∧ (∀ p : Fin N × Fin N, p ∈ pairs N ↔ p.1 < p.2) := by
  have hseq : gateSequence U = residual U :: (factors (pairs N) U).reverse := by
    rw [gateSequence_eq, residual_eq]
  have hop : circuitOp (gateSequence U) = (factors (pairs N) U ++ [residual U]).prod := by
    rw [hseq, circuitOp]; simp
  refine ⟨hseq, hop, ?_, factors_twoLevel_lt _ (fun p hp => mem_pairs.1 hp) U hok,
    pairs_sorted N, fun p => mem_pairs⟩
  rw [hop, residual_eq]
  exact factors_prod _ (fun p hp => pairs_ne hp) U hok

/-- non-vacuity: the dense real orthogonal `(1/5)·[[3, 4], [4, −3]]` passes the sweep (`N = 2`, one
rotation), and for EVERY `N` the identity matrix does (`N(N-1)/2` rotations, all diagonal). -/
example : SweepOk (pairs 2) ex345 ∧ (∀ i j, ex345 i j ≠ 0) ∧ ∀ N, SweepOk (pairs N) (1 : Mat N) :=
  ⟨ex345_ok, ex345_nonzero, sweepOk_one⟩

example : pairs 3 = [((0 : Fin 3), (1 : Fin 3)), (0, 2), (1, 2)] := pairs_three

/-! ### (3) the residual -/

/-- **C02 (QR residual, any input).**  After a sweep that never meets `norm = 0` the residual is
upper triangular and its diagonal entries in all columns but the last are positive reals. -/
theorem C02_qr_triangular (U : Mat N) (hok : SweepOk (pairs N) U) :
    (∀ i j : Fin N, j < i → residual U i j = 0) ∧
    (∀ c : Fin N, c.val + 1 < N → ∃ x : ℝ, 0 < x ∧ residual U c c = (x : ℂ)) := by
  rw [residual_eq]; exact final_triangular U hok

/-- **C02 (QR residual of a unitary).**  If moreover `U† U = 1` then the residual is unitary and
diagonal, with `1` in every diagonal position but the last and a unit-modulus number (a phase) in
the last: `residual = diag(1, …, 1, e^{iφ})`. -/
theorem C02_qr_residual (U : Mat N) (hU : Uᴴ * U = 1) (hok : SweepOk (pairs N) U) :
    (residual U)ᴴ * residual U = 1 ∧
    (∀ i j : Fin N, i ≠ j → residual U i j = 0) ∧
    (∀ c : Fin N, c.val + 1 < N → residual U c c = 1) ∧
    (∀ c : Fin N, star (residual U c c) * residual U c c = 1) := by
  rw [residual_eq]
  exact ⟨final_unitary _ (fun p hp => pairs_ne hp) U hok hU, final_unitary_diag U hU hok⟩

example : ex345ᴴ * ex345 = 1 ∧ SweepOk (pairs 2) ex345 := ⟨ex345_unitary, ex345_ok⟩

/-- **C02 (`_get_row_col` on the appended rotations).**  For `col < row` and `norm ≠ 0`: if
`b = gate[row, col] / norm` is neither `0` nor `1` then `_get_row_col(matrix_rotation†)` finds
exactly `(row, col)` and the 2×2 block it returns, placed on `|0⟩ ↔ col`, `|1⟩ ↔ row` (what
`C02_qr_orientation` proves the circuit does), is `matrix_rotation†` itself.  If `b = 0` — which
(given `norm ≠ 0`) means `gate[row, col] = 0` at that moment — or `b = 1`, the search finds nothing
(Python: `UnboundLocalError`); this is the failure the clause "without zero entries" is about. -/
theorem C02_qr_locate (M : Mat N) {col row : Fin N} (hcr : col < row)
    (hν : pairNorm (M col col) (M row col) ≠ 0) :
    (gB M col row ≠ 0 → gB M col row ≠ 1 →
      getRowCol (givens M col row)ᴴ = some (row, col) ∧
      embedBlock (givens M col row)ᴴ col row = (givens M col row)ᴴ) ∧
    (gB M col row = 0 ∨ gB M col row = 1 → getRowCol (givens M col row)ᴴ = none) ∧
    (gB M col row = 0 ↔ M row col = 0) := by
  refine ⟨fun h0 h1 => getRowCol_factor M hcr h0 h1, getRowCol_factor_none M hcr, ?_⟩
  have hνc : ((pairNorm (M col col) (M row col) : ℝ) : ℂ) ≠ 0 := by exact_mod_cast hν
  unfold gB
  rw [div_eq_zero_iff]
  exact ⟨fun h => h.resolve_right hνc, Or.inl⟩

/-- non-vacuity: in `(1/5)·[[3, 4], [4, −3]]`, `b = 4/5`. -/
example : gB ex345 0 1 ≠ 0 ∧ gB ex345 0 1 ≠ 1 := ex345_loc

/-- **C02 (FINDING: `_get_row_col` cannot locate the residual).**  For every `N` and every matrix
`U` whose sweep never meets `norm = 0` — in particular every unitary without zero entries the
property speaks of — the residual has only zeros below the diagonal, hence `_get_row_col(residual)`
finds no entry that is `!= 0` and `!= 1`: in exact arithmetic `_build_qr_circuit` raises
`UnboundLocalError` on the FIRST element of `gate_sequence`, for every input.  (The real code
survives on rounding noise, see `C02_qr_residual_located`.) -/
theorem C02_qr_residual_unlocated (U : Mat N) (hok : SweepOk (pairs N) U) :
    getRowCol (residual U) = none :=
  getRowCol_none _ (C02_qr_triangular U hok).1

/-- concrete reproducer: `U = ((1+i)/2)·[[1, 1], [1, −1]]` is unitary, has no zero entry, passes the
sweep, and `_get_row_col` of its residual finds nothing.  All its entries and all intermediate
results are exactly representable in binary floating point, and indeed
`qclib.unitary.unitary(np.array([[1+1j, 1+1j], [1+1j, -1-1j]]) / 2, 'qr')` raises
`UnboundLocalError: cannot access local variable 'col'` on the unchanged tree. -/
example : exHiᴴ * exHi = 1 ∧ (∀ i j, exHi i j ≠ 0) ∧ SweepOk (pairs 2) exHi ∧
    residual exHi = !![1, 0; 0, Complex.I] ∧ getRowCol (residual exHi) = none :=
  ⟨exHi_unitary, exHi_nonzero, exHi_ok, exHi_residual, C02_qr_residual_unlocated exHi exHi_ok⟩

/-- **C02 (what the real code does with the residual).**  With rounding noise `_get_row_col`
returns some below-diagonal position `(row, col)`, `col < row`, of the residual and the circuit
implements the 2×2 block `[[g[col,col], g[col,row]], [g[row,col], g[row,row]]]` on
`|0⟩ ↔ col`, `|1⟩ ↔ row`.  For the exact residual `g = diag(1, …, 1, e^{iφ})` of a unitary:
* if `row` is the LAST index, that two-level matrix is `g` itself and the circuit's operator
  `R_first† ⋯ R_last† · g` is `U`;
* if `row` is not the last index, it is the identity: the phase is dropped and the circuit's
  operator `C` satisfies `C · g = U` (it is `U` with its last column divided by `e^{iφ}`), which
  is `U` only when `e^{iφ} = 1`. -/
theorem C02_qr_residual_located (U : Mat N) (hU : Uᴴ * U = 1) (hok : SweepOk (pairs N) U)
    {col row : Fin N} (hcr : col < row) :
    (row.val + 1 = N →
      embedBlock (residual U) col row = residual U ∧
      circuitOp (embedBlock (residual U) col row :: (factors (pairs N) U).reverse) = U) ∧
    (row.val + 1 < N →
      embedBlock (residual U) col row = 1 ∧
      circuitOp (embedBlock (residual U) col row :: (factors (pairs N) U).reverse) * residual U
        = U) := by
  obtain ⟨_, hd, h1, _⟩ := C02_qr_residual U hU hok
  obtain ⟨hseq, _, hop, _⟩ := C02_qr_sequence U hok
  have hne : col ≠ row := ne_of_lt hcr
  constructor
  · intro hlast
    have he : embedBlock (residual U) col row = residual U :=
      embedBlock_diag_at _ hd hne (fun i hi => h1 i (by
        have : i.val ≠ row.val := fun e => hi (Fin.ext e)
        have := i.isLt
        omega))
    refine ⟨he, ?_⟩
    rw [he, ← hseq]; exact hop
  · intro hnl
    have hcl : col.val + 1 < N := by have : col.val < row.val := hcr; omega
    have he : embedBlock (residual U) col row = 1 :=
      embedBlock_diag_one _ hd hne (h1 col hcl) (h1 row hnl)
    refine ⟨he, ?_⟩
    rw [he]
    have : circuitOp ((1 : Mat N) :: (factors (pairs N) U).reverse) * residual U
        = circuitOp (residual U :: (factors (pairs N) U).reverse) := by
      simp [circuitOp]
    rw [this, ← hseq]; exact hop

example : ((0 : Fin 2) < 1) ∧ (1 : Fin 2).val + 1 = 2 := ⟨by decide, rfl⟩

/-! ### (4) the whole circuit -/

/-- **C02 (whole QR circuit, assembly).**  Let the state space be `Fin N → ℂ` and let the circuit
be a list of sub-circuits `Ts` (state transformers) applied in list order — `_build_qr_circuit`
appends one sub-circuit per element of `gate_sequence`, in list order.  If every sub-circuit
denotes its matrix (`T v = G·v`; for a two-level `G` this is what `C02_qr_gray`, `C02_qr_undo`,
`C02_qr_orientation` establish for the walk / MCMT / undo body, and `C02_qr_locate` for the block
the code cuts out) and the residual's sub-circuit denotes the two-level matrix of a position
`(row, col)` in the LAST row, then the whole circuit denotes `U`: running it on any `v` gives
`U·v`. -/
theorem C02_qr_full (U : Mat N) (hU : Uᴴ * U = 1) (hok : SweepOk (pairs N) U)
    {col row : Fin N} (hcr : col < row) (hlast : row.val + 1 = N)
    (Ts : List ((Fin N → ℂ) → (Fin N → ℂ)))
    (hden : List.Forall₂ (fun T G => ∀ v, T v = G *ᵥ v) Ts
      (embedBlock (residual U) col row :: (factors (pairs N) U).reverse))
    (v : Fin N → ℂ) : Ts.foldl (fun v T => T v) v = U *ᵥ v := by
  rw [foldl_denotes Ts _ hden v, ((C02_qr_residual_located U hU hok hcr).1 hlast).2]

/-- the same for the list exactly as `_build_qr_gate_sequence` returns it (every element,
including the residual, given a sub-circuit that denotes it) — no unitarity needed. -/
theorem C02_qr_full_exact (U : Mat N) (hok : SweepOk (pairs N) U)
    (Ts : List ((Fin N → ℂ) → (Fin N → ℂ)))
    (hden : List.Forall₂ (fun T G => ∀ v, T v = G *ᵥ v) Ts (gateSequence U))
    (v : Fin N → ℂ) : Ts.foldl (fun v T => T v) v = U *ᵥ v := by
  rw [foldl_denotes Ts _ hden v, (C02_qr_sequence U hok).2.2.1]

/-- non-vacuity: the transformers `v ↦ G·v` themselves. -/
example : List.Forall₂ (fun (T : (Fin 2 → ℂ) → (Fin 2 → ℂ)) G => ∀ v, T v = G *ᵥ v)
    ((gateSequence ex345).map (fun G v => G *ᵥ v)) (gateSequence ex345) := by
  rw [List.forall₂_map_left_iff]
  exact List.forall₂_same.2 (fun _ _ _ => rfl)

/-! ### (4') the whole circuit on amplitudes, from the gate lists the model emits -/

/-- **C02 (one rotation's sub-circuit denotes its two-level matrix).**  Amplitude semantics
(DESIGN §3, S2; `ampStep`: `x`/`mcx` relabel, `mcmt cs t` applies `[[p, q], [s, t]]` to the target
when all controls read `1`).  For every `n`, all `col < row < 2^n`, every block and every amplitude
function `ψ` on labels (spectator wires `≥ n` included): the gate list `qrRotation n row col` —
walk, X layer, MCMT, X layer, `_undo_mcxs` — sends `ψ` to the function whose value at a label
reading `row` is `s·ψ(col-label) + t·ψ(row-label)`, at a label reading `col` is
`p·ψ(col-label) + q·ψ(row-label)` (same spectators), and `ψ` elsewhere; i.e. it is `actMat` of the
two-level matrix with that block on `(col, row)`.  Built from `C02_qr_gray`, `C02_qr_undo`,
`C02_qr_orientation`. -/
theorem C02_qr_rotation_amp {n row col : ℕ} (hrow : row < 2 ^ n) (hlt : col < row)
    {L : List Uni.QG} (hL : Uni.qrRotation n row col = some L) (B : Blk ℂ) (ψ : Bits → ℂ)
    (b : Bits) :
    ampSem B L ψ b =
      (if Uni.Reads (Uni.bitsLE n row) b then B.s * ψ (relabel n col b) + B.t * ψ b
       else if Uni.Reads (Uni.bitsLE n col) b then B.p * ψ b + B.q * ψ (relabel n row b)
       else ψ b) ∧
    ampSem B L ψ b =
      actMat (twoLevel (⟨col, by omega⟩ : Fin (2 ^ n)) ⟨row, hrow⟩ B.p B.q B.s B.t) ψ b := by
  have h := rotation_amp hrow hlt hL B ψ b
  refine ⟨h, ?_⟩
  rw [h, actMat_twoLevel (by intro e; have := congrArg Fin.val e; simp at this; omega)]

example : (6 : ℕ) < 2 ^ 3 ∧ (1 : ℕ) < 6 ∧ (Uni.qrRotation 3 6 1).isSome = true := by decide

/-- **C02 (whole QR circuit on amplitudes).**  For every `n` and every unitary `U` over
`Fin (2^n)` whose sweep meets no `norm = 0` and no `b ∈ {0, 1}`: every rotation appended to
`gate_sequence` is located by `_get_row_col` at its own `(row, col)` and gets the stage
`codeStage` (gate list `qrRotation`, block cut out of the matrix); with the residual's stage taken
at a position `(row, col)` of the LAST row (where rounding noise normally puts it), the stages
composed in list order act on every amplitude function as `U` acts on the `n` low wires. -/
theorem C02_qr_circuit {n : ℕ} (U : Mat (2 ^ n)) (hU : Uᴴ * U = 1)
    (hok : SweepOk (pairs (2 ^ n)) U) (hloc : SweepLoc (pairs (2 ^ n)) U)
    {col row : Fin (2 ^ n)} (hcr : col < row) (hlast : row.val + 1 = 2 ^ n) :
    ∃ (st0 : Stage) (sts : List Stage), stageAt (residual U) row col = some st0 ∧
      List.Forall₂ (fun st G => codeStage G = some st) sts (factors (pairs (2 ^ n)) U).reverse ∧
      ∀ ψ, circSem (st0 :: sts) ψ = actMat U ψ := by
  obtain ⟨sts', hsts'⟩ := factors_stages (pairs (2 ^ n)) (fun p hp => mem_pairs.1 hp) U hloc
  obtain ⟨st0, hst0, hden0⟩ := stageAt_denotes (residual U) hcr
  have hrev := List.rel_reverse hsts'
  refine ⟨st0, sts'.reverse, hst0, hrev.imp (fun _ _ h => h.1), ?_⟩
  intro ψ
  rw [circSem_denotes (st0 :: sts'.reverse)
    (embedBlock (residual U) col row :: (factors (pairs (2 ^ n)) U).reverse)
    (List.Forall₂.cons hden0 (hrev.imp (fun _ _ h => h.2))) ψ,
    ((C02_qr_residual_located U hU hok hcr).1 hlast).2]

/-- … whereas with the exact `_get_row_col` the residual gets no stage at all (the code raises). -/
theorem C02_qr_circuit_raises {n : ℕ} (U : Mat (2 ^ n)) (hok : SweepOk (pairs (2 ^ n)) U) :
    codeStage (residual U) = none := by
  simp [codeStage, C02_qr_residual_unlocated U hok]

/-- non-vacuity (`n = 1`): `(1/5)·[[3, 4], [4, −3]]` satisfies every hypothesis of
`C02_qr_circuit` with `(row, col) = (1, 0)`. -/
example : ex345ᴴ * ex345 = 1 ∧ SweepOk (pairs (2 ^ 1)) ex345 ∧ SweepLoc (pairs (2 ^ 1)) ex345 ∧
    ((0 : Fin (2 ^ 1)) < 1) ∧ (1 : Fin (2 ^ 1)).val + 1 = 2 ^ 1 := by
  refine ⟨ex345_unitary, ex345_ok, ?_, by decide, rfl⟩
  show SweepLoc (pairs 2) ex345
  rw [pairs_two]
  exact ⟨ex345_loc, trivial⟩

end Qclib
