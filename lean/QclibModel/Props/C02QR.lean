import QclibModel.Proofs.QrFullEx
import QclibModel.Proofs.QrFullCircuit
import Mathlib.Data.Matrix.Mul
/-
  C02 — unitary synthesis, the QR (Givens) decomposition `_qrd` of `qclib/unitary.py`, WHOLE SWEEP at
  matrix level (the per-rotation circuit — Gray-code MCX walk, X sandwiches, `_undo_mcxs`,
  orientation of the 2×2 block — is `C02_qr_gray / _sandwich / _undo / _orientation` in
  Props/C02.lean).  Property theorems only; proofs in Proofs/QrFull*.lean.

  Model (Proofs/QrFullGivens.lean, QrFullSweep.lean, QrFullResidual.lean), over `ℂ`, matrices
  `Mat N = Matrix (Fin N) (Fin N) ℂ` for every `N` (the sweep never looks at qubits):
    * `pairNorm x y = √(|x|² + |y|²)`            — `np.linalg.norm([x, y])`
    * `givens M col row`                          — `matrix_rotation` (identity, then the four assignments)
    * `sweep U`, `gateSequence U`, `residual U`   — the two nested loops, the reversed list, `gate`
    * `pairs N`                                   — the `(col, row)` pairs in loop order
    * `factors ps M`                              — the matrices appended to `gate_sequence`, in order
    * `SweepOk ps M`                              — no iteration meets `norm = 0`
    * `circuitOp gs`                              — operator of the circuit `_build_qr_circuit` builds from
                                                    the list `gs` (list order = circuit order)
    * `getRowCol G`, `embedBlock G c r`           — `_get_row_col`'s search and the block it returns

  FINDING F-C02-4 (repaired in /repo, commit 33a8d4e).  After the sweep `gate` has only zeros below
  the diagonal.  BEFORE the repair `_get_row_col(gate)` found no entry `!= 0 and != 1`, left
  `col`/`row` unbound and raised `UnboundLocalError` — in exact arithmetic for EVERY input the sweep
  accepts (`C02_qr_residual_unlocated_before_fix`, model `getRowColOld`); the code only worked through
  rounding noise (~1e-17 below the diagonal).  Reproducer with exactly representable entries:
      unitary(np.array([[1+1j, 1+1j], [1+1j, -1-1j]]) / 2, 'qr')   (`exHi` below)
  NOW `_get_row_col` (`getRowCol` = the executable `QrLoc.getRowColG` of Model/QrLocate.lean at
  `α = ℂ`, exact equality for `np.allclose`): the last hit wins; without a hit the matrix must be the
  identity except possibly its LAST diagonal entry and is then located at `(row, col) = (N-1, N-2)`,
  otherwise `ValueError` (`none`).  The exact residual `diag(1, …, 1, e^{iφ})` is accepted at the last
  two levels, its block is `diag(1, e^{iφ})`, and the whole circuit denotes `U` with no assumption
  about noise (`C02_qr_residual_default`, `C02_qr_full`, `C02_qr_circuit`).  Rounding noise can still
  override the default: a noise entry outside the last row still drops the phase
  (`C02_qr_residual_located`).  A rotation with `b = 1`, or with `b = 0` unless it is
  `diag(1, …, 1, −1)`, is rejected (`C02_qr_locate`) — the clause "without zero entries".
-/
namespace Qclib
open Qclib.QrFull Matrix

variable {N : ℕ}

/-! ### (1) one iteration -/

/-- **C02 (one Givens step).**  For every `N`, every matrix `M` (= `gate` at the start of the
iteration) and every `col < row`: if `norm ≠ 0` then `matrix_rotation` `R` is unitary
(`R·R† = R†·R = 1`), equals the identity outside rows/columns `{col, row}`,
`(R·M)[row, col] = 0`, `(R·M)[col, col] = norm` which is a positive real, every row other than
`col`, `row` of `M` is unchanged (in particular the other entries of column `col`), and a column
`c' < col` that is already zero below the diagonal stays zero below the diagonal. -/
theorem C02_qr_step (M : Mat N) {col row : Fin N} (hcr : col < row)
    (hν : pairNorm (M col col) (M row col) ≠ 0) :
    givens M col row * (givens M col row)ᴴ = 1 ∧
    (givens M col row)ᴴ * givens M col row = 1 ∧
    (∀ i j, (i ≠ col ∧ i ≠ row) ∨ (j ≠ col ∧ j ≠ row) →
      givens M col row i j = (1 : Mat N) i j) ∧
    (givens M col row * M) row col = 0 ∧
    (givens M col row * M) col col = ((pairNorm (M col col) (M row col) : ℝ) : ℂ) ∧
    0 < pairNorm (M col col) (M row col) ∧
    (∀ i j, i ≠ col → i ≠ row → (givens M col row * M) i j = M i j) ∧
    (∀ c' : Fin N, c' < col → (∀ i, c' < i → M i c' = 0) →
      ∀ i, c' < i → (givens M col row * M) i c' = 0) := by
  have hne : col ≠ row := ne_of_lt hcr
  have htl := givens_twoLevel M hne hν
  refine ⟨htl.1, htl.2, htl.3, givens_mul_zero M hne hν, givens_mul_pivot M hne hν,
    pairNorm_pos hν, fun i j h1 h2 => givens_mul_other M hne h1 h2 j, ?_⟩
  intro c' hc' hz i hi
  have z1 := hz col hc'
  have z2 := hz row (lt_trans hc' hcr)
  by_cases h1 : i = row
  · subst h1; rw [givens_mul_row_r M hne, z1, z2]; simp
  · by_cases h2 : i = col
    · subst h2; rw [givens_mul_row_c M hne, z1, z2]; simp
    · rw [givens_mul_other M hne h2 h1]; exact hz i hi

/-- non-vacuity: `M = (1/5)·[[3, 4], [4, −3]]`, `col = 0`, `row = 1` (`norm = 1`). -/
example : ((0 : Fin 2) < 1) ∧ pairNorm (ex345 0 0) (ex345 1 0) ≠ 0 :=
  ⟨by decide, by have h := ex345_ok; rw [pairs_two] at h; exact h.1⟩

/-! ### (2) the whole sweep -/

/-- **C02 (QR gate sequence, main theorem).**  For every `N` and every matrix `U` (unitary or not)
whose sweep never meets `norm = 0`:
* the list `_build_qr_gate_sequence` returns is `[residual, R_last†, …, R_first†]`;
* `_build_qr_circuit` appends the sub-circuits in list order, i.e. the residual's sub-circuit acts
  FIRST and `R_first†`'s LAST, so the operator of the circuit is the product of the list in the
  opposite order, `R_first† · … · R_last† · residual` — and this product is `U` itself (telescoping
  with `R†·R = 1`);
* the `k`-th matrix appended is a two-level unitary on the `k`-th pair `(col, row)` of the loop,
  `col < row`; the loop visits the pairs in strictly increasing lexicographic order and visits
  every pair `col < row` exactly once. -/
theorem C02_qr_sequence (U : Mat N) (hok : SweepOk (pairs N) U) :
    gateSequence U = residual U :: (factors (pairs N) U).reverse ∧
    circuitOp (gateSequence U) = (factors (pairs N) U ++ [residual U]).prod ∧
    circuitOp (gateSequence U) = U ∧
    List.Forall₂ (fun G p => IsTwoLevelUnitary G p.1 p.2 ∧ p.1 < p.2)
      (factors (pairs N) U) (pairs N) ∧
    (pairs N).Pairwise lt2 ∧ (∀ p : Fin N × Fin N, p ∈ pairs N ↔ p.1 < p.2) := by
  have hseq : gateSequence U = residual U :: (factors (pairs N) U).reverse := by
    rw [gateSequence_eq, residual_eq]
  have hop : circuitOp (gateSequence U) = (factors (pairs N) U ++ [residual U]).prod := by
    rw [hseq, circuitOp]; simp
  refine ⟨hseq, hop, ?_, factors_twoLevel_lt _ (fun p hp => mem_pairs.1 hp) U hok,
    pairs_sorted N, fun p => mem_pairs⟩
  rw [hop, residual_eq]
  exact factors_prod _ (fun p hp => pairs_ne hp) U hok

/-- non-vacuity: the dense real orthogonal `(1/5)·[[3, 4], [4, −3]]` passes the sweep (`N = 2`, one
rotation), and for EVERY `N` the identity matrix does (`N(N-1)/2` rotations, all diagonal). -/
example : SweepOk (pairs 2) ex345 ∧ (∀ i j, ex345 i j ≠ 0) ∧ ∀ N, SweepOk (pairs N) (1 : Mat N) :=
  ⟨ex345_ok, ex345_nonzero, sweepOk_one⟩

example : pairs 3 = [((0 : Fin 3), (1 : Fin 3)), (0, 2), (1, 2)] := pairs_three

/-! ### (3) the residual -/

/-- **C02 (QR residual, any input).**  After a sweep that never meets `norm = 0` the residual is
upper triangular and its diagonal entries in all columns but the last are positive reals. -/
theorem C02_qr_triangular (U : Mat N) (hok : SweepOk (pairs N) U) :
    (∀ i j : Fin N, j < i → residual U i j = 0) ∧
    (∀ c : Fin N, c.val + 1 < N → ∃ x : ℝ, 0 < x ∧ residual U c c = (x : ℂ)) := by
  rw [residual_eq]; exact final_triangular U hok

/-- **C02 (QR residual of a unitary).**  If moreover `U† U = 1` then the residual is unitary and
diagonal, with `1` in every diagonal position but the last and a unit-modulus number (a phase) in
the last: `residual = diag(1, …, 1, e^{iφ})`. -/
theorem C02_qr_residual (U : Mat N) (hU : Uᴴ * U = 1) (hok : SweepOk (pairs N) U) :
    (residual U)ᴴ * residual U = 1 ∧
    (∀ i j : Fin N, i ≠ j → residual U i j = 0) ∧
    (∀ c : Fin N, c.val + 1 < N → residual U c c = 1) ∧
    (∀ c : Fin N, star (residual U c c) * residual U c c = 1) := by
  rw [residual_eq]
  exact ⟨final_unitary _ (fun p hp => pairs_ne hp) U hok hU, final_unitary_diag U hU hok⟩

example : ex345ᴴ * ex345 = 1 ∧ SweepOk (pairs 2) ex345 := ⟨ex345_unitary, ex345_ok⟩

/-- **C02 (`_get_row_col` on the appended rotations).**  For `col < row` and `norm ≠ 0`:
* if `b = gate[row, col] / norm` is neither `0` nor `1` then `_get_row_col(matrix_rotation†)` ends
  with exactly `(row, col)` and the 2×2 block it returns, placed on `|0⟩ ↔ col`, `|1⟩ ↔ row` (what
  `C02_qr_orientation` proves the circuit does), is `matrix_rotation†` itself (`codeMatrix`);
* if `b = 1` it raises `ValueError` (no hit, and the `1` below the diagonal fails the acceptance
  test);
* if `b = 0` — which (given `norm ≠ 0`) means `gate[row, col] = 0` at that moment — then
  `matrix_rotation† = diag(…, a, …, −conj a, …)` and it is accepted, at the default `(N-1, N-2)`,
  exactly when `a = 1` and `row = N-1` (i.e. it is `diag(1, …, 1, −1)`, for any `col`); otherwise
  `ValueError`.  This is the case the clause "without zero entries" excludes. -/
theorem C02_qr_locate (M : Mat N) {col row : Fin N} (hcr : col < row)
    (hν : pairNorm (M col col) (M row col) ≠ 0) :
    (gB M col row ≠ 0 → gB M col row ≠ 1 →
      getRowCol (givens M col row)ᴴ = some (row.val, col.val) ∧
      codeMatrix (givens M col row)ᴴ = some (givens M col row)ᴴ) ∧
    (gB M col row = 1 → getRowCol (givens M col row)ᴴ = none) ∧
    (gB M col row = 0 →
      (gA M col row = 1 ∧ row.val + 1 = N →
        getRowCol (givens M col row)ᴴ = some (N - 1, N - 2)) ∧
      (¬ (gA M col row = 1 ∧ row.val + 1 = N) → getRowCol (givens M col row)ᴴ = none)) ∧
    (gB M col row = 0 ↔ M row col = 0) := by
  refine ⟨fun h0 h1 => getRowCol_factor M hcr h0 h1, getRowCol_factor_one M hcr,
    getRowCol_factor_zero M hcr, ?_⟩
  have hνc : ((pairNorm (M col col) (M row col) : ℝ) : ℂ) ≠ 0 := by exact_mod_cast hν
  unfold gB
  rw [div_eq_zero_iff]
  exact ⟨fun h => h.resolve_right hνc, Or.inl⟩

/-- non-vacuity: in `(1/5)·[[3, 4], [4, −3]]`, `b = 4/5`. -/
example : gB ex345 0 1 ≠ 0 ∧ gB ex345 0 1 ≠ 1 := ex345_loc

/-- **C02 (the residual is accepted at the last two levels).**  For `N ≥ 2` and every unitary `U`
whose sweep never meets `norm = 0`, the residual is `diag(1, …, 1, e^{iφ})`: `_get_row_col` has no
hit, the acceptance test (identity except possibly the last diagonal entry) passes, and it ends
with the default `(row, col) = (N-1, N-2)`; the block cut out there is `diag(1, e^{iφ})` and,
re-embedded, is the residual itself: the sub-circuit built for the residual implements exactly the
residual. -/
theorem C02_qr_residual_default (U : Mat N) (hU : Uᴴ * U = 1) (hok : SweepOk (pairs N) U)
    (hN : 2 ≤ N) :
    getRowCol (residual U) = some (N - 1, N - 2) ∧ codeMatrix (residual U) = some (residual U) := by
  obtain ⟨_, hd, h1, _⟩ := C02_qr_residual U hU hok
  exact codeMatrix_diag hN _ ⟨hd, h1⟩

/-- **C02 (before the repair 9d72fec: `_get_row_col` could not locate the residual).**  About the
model `getRowColOld` of the search WITHOUT a default: on the residual of any accepted sweep it
finds nothing (Python raised `UnboundLocalError` on the first element of `gate_sequence`); the code
only worked through rounding noise. -/
theorem C02_qr_residual_unlocated_before_fix (U : Mat N) (hok : SweepOk (pairs N) U) :
    getRowColOld (residual U) = none :=
  getRowColOld_none _ (C02_qr_triangular U hok).1

/-- the reproducer of the finding: `U = ((1+i)/2)·[[1, 1], [1, −1]]` is unitary, has no zero entry,
passes the sweep, its residual is exactly `diag(1, i)`; the old search found nothing (the unrepaired
`qclib.unitary.unitary(np.array([[1+1j, 1+1j], [1+1j, -1-1j]]) / 2, 'qr')` raised
`UnboundLocalError`), the repaired one returns `(1, 0)` and the block is the residual. -/
example : exHiᴴ * exHi = 1 ∧ (∀ i j, exHi i j ≠ 0) ∧ SweepOk (pairs 2) exHi ∧
    residual exHi = !![1, 0; 0, Complex.I] ∧ getRowColOld (residual exHi) = none ∧
    getRowCol (residual exHi) = some (1, 0) ∧ codeMatrix (residual exHi) = some (residual exHi) :=
  ⟨exHi_unitary, exHi_nonzero, exHi_ok, exHi_residual,
   C02_qr_residual_unlocated_before_fix exHi exHi_ok,
   (C02_qr_residual_default exHi exHi_unitary exHi_ok (le_refl 2)).1,
   (C02_qr_residual_default exHi exHi_unitary exHi_ok (le_refl 2)).2⟩

/-- **C02 (rounding noise on the residual; holds for the code before and after the repair).**  A
noise entry below the diagonal is a hit and overrides the default: `_get_row_col` then
returns some below-diagonal position `(row, col)`, `col < row`, of the residual and the circuit
implements the 2×2 block `[[g[col,col], g[col,row]], [g[row,col], g[row,row]]]` on
`|0⟩ ↔ col`, `|1⟩ ↔ row`.  For the exact residual `g = diag(1, …, 1, e^{iφ})` of a unitary:
* if `row` is the LAST index, that two-level matrix is `g` itself and the circuit's operator
  `R_first† ⋯ R_last† · g` is `U`;
* if `row` is not the last index, it is the identity: the phase is dropped and the circuit's
  operator `C` satisfies `C · g = U` (it is `U` with its last column divided by `e^{iφ}`), which
  is `U` only when `e^{iφ} = 1`. -/
theorem C02_qr_residual_located (U : Mat N) (hU : Uᴴ * U = 1) (hok : SweepOk (pairs N) U)
    {col row : Fin N} (hcr : col < row) :
    (row.val + 1 = N →
      embedBlock (residual U) col row = residual U ∧
      circuitOp (embedBlock (residual U) col row :: (factors (pairs N) U).reverse) = U) ∧
    (row.val + 1 < N →
      embedBlock (residual U) col row = 1 ∧
      circuitOp (embedBlock (residual U) col row :: (factors (pairs N) U).reverse) * residual U
        = U) := by
  obtain ⟨_, hd, h1, _⟩ := C02_qr_residual U hU hok
  obtain ⟨hseq, _, hop, _⟩ := C02_qr_sequence U hok
  have hne : col ≠ row := ne_of_lt hcr
  constructor
  · intro hlast
    have he : embedBlock (residual U) col row = residual U :=
      embedBlock_diag_at _ hd hne (fun i hi => h1 i (by
        have : i.val ≠ row.val := fun e => hi (Fin.ext e)
        have := i.isLt
        omega))
    refine ⟨he, ?_⟩
    rw [he, ← hseq]; exact hop
  · intro hnl
    have hcl : col.val + 1 < N := by have : col.val < row.val := hcr; omega
    have he : embedBlock (residual U) col row = 1 :=
      embedBlock_diag_one _ hd hne (h1 col hcl) (h1 row hnl)
    refine ⟨he, ?_⟩
    rw [he]
    have : circuitOp ((1 : Mat N) :: (factors (pairs N) U).reverse) * residual U
        = circuitOp (residual U :: (factors (pairs N) U).reverse) := by
      simp [circuitOp]
    rw [this, ← hseq]; exact hop

example : ((0 : Fin 2) < 1) ∧ (1 : Fin 2).val + 1 = 2 := ⟨by decide, rfl⟩

/-! ### (4) the whole circuit -/

/-- **C02 (what the code implements for every element of `gate_sequence`).**  For `N ≥ 2`, unitary
`U`, a sweep with no `norm = 0` and no `b ∈ {0, 1}`: `_get_row_col` accepts every element `G` of
the returned list — the residual included — and `G` is its own `codeMatrix` (the block cut out of
`G`, re-embedded at the levels returned), so the product of the code matrices in circuit order is
`U`. -/
theorem C02_qr_code_sequence (U : Mat N) (hU : Uᴴ * U = 1) (hok : SweepOk (pairs N) U)
    (hloc : SweepLoc (pairs N) U) (hN : 2 ≤ N) :
    (gateSequence U).map codeMatrix = (gateSequence U).map some ∧
    circuitOp (gateSequence U) = U := by
  refine ⟨?_, (C02_qr_sequence U hok).2.2.1⟩
  rw [(C02_qr_sequence U hok).1, List.map_cons, List.map_cons, List.map_reverse, List.map_reverse,
    factors_codeMatrix _ (fun p hp => mem_pairs.1 hp) U hloc,
    (C02_qr_residual_default U hU hok hN).2]

/-- **C02 (whole QR circuit, assembly).**  Let the state space be `Fin N → ℂ` and let the circuit
be a list of sub-circuits `Ts` (state transformers) applied in list order — `_build_qr_circuit`
appends one sub-circuit per element of `gate_sequence`, in list order.  If every sub-circuit
denotes the matrix the code cuts out for its element (`codeMatrix G = some C` and `T v = C·v`; for
a two-level block this is what `C02_qr_gray`, `C02_qr_undo`, `C02_qr_orientation` /
`C02_qr_rotation_amp` establish), then the whole circuit denotes `U`: running it on any `v` gives
`U·v`.  No hypothesis about rounding noise: the residual is accepted at the default of
`_get_row_col`. -/
theorem C02_qr_full (U : Mat N) (hU : Uᴴ * U = 1) (hok : SweepOk (pairs N) U)
    (hloc : SweepLoc (pairs N) U) (hN : 2 ≤ N)
    (Ts : List ((Fin N → ℂ) → (Fin N → ℂ)))
    (hden : List.Forall₂ (fun T oC => ∃ C, oC = some C ∧ ∀ v, T v = C *ᵥ v) Ts
      ((gateSequence U).map codeMatrix))
    (v : Fin N → ℂ) : Ts.foldl (fun v T => T v) v = U *ᵥ v := by
  rw [(C02_qr_code_sequence U hU hok hloc hN).1, List.forall₂_map_right_iff] at hden
  have hden' : List.Forall₂ (fun T G => ∀ v, T v = G *ᵥ v) Ts (gateSequence U) :=
    hden.imp (fun T G ⟨C, hC, h⟩ => by rw [← Option.some.inj hC] at h; exact h)
  rw [foldl_denotes Ts _ hden' v, (C02_qr_sequence U hok).2.2.1]

/-- the same for the list exactly as `_build_qr_gate_sequence` returns it (every element,
including the residual, given a sub-circuit that denotes it) — no unitarity needed. -/
theorem C02_qr_full_exact (U : Mat N) (hok : SweepOk (pairs N) U)
    (Ts : List ((Fin N → ℂ) → (Fin N → ℂ)))
    (hden : List.Forall₂ (fun T G => ∀ v, T v = G *ᵥ v) Ts (gateSequence U))
    (v : Fin N → ℂ) : Ts.foldl (fun v T => T v) v = U *ᵥ v := by
  rw [foldl_denotes Ts _ hden v, (C02_qr_sequence U hok).2.2.1]

/-- non-vacuity: the transformers `v ↦ G·v` themselves. -/
example : List.Forall₂ (fun (T : (Fin 2 → ℂ) → (Fin 2 → ℂ)) G => ∀ v, T v = G *ᵥ v)
    ((gateSequence ex345).map (fun G v => G *ᵥ v)) (gateSequence ex345) := by
  rw [List.forall₂_map_left_iff]
  exact List.forall₂_same.2 (fun _ _ _ => rfl)

/-! ### (4') the whole circuit on amplitudes, from the gate lists the model emits -/

/-- **C02 (one rotation's sub-circuit denotes its two-level matrix).**  Amplitude semantics
(DESIGN §3, S2; `ampStep`: `x`/`mcx` relabel, `mcmt cs t` applies `[[p, q], [s, t]]` to the target
when all controls read `1`).  For every `n`, all `col < row < 2^n`, every block and every amplitude
function `ψ` on labels (spectator wires `≥ n` included): the gate list `qrRotation n row col` —
walk, X layer, MCMT, X layer, `_undo_mcxs` — sends `ψ` to the function whose value at a label
reading `row` is `s·ψ(col-label) + t·ψ(row-label)`, at a label reading `col` is
`p·ψ(col-label) + q·ψ(row-label)` (same spectators), and `ψ` elsewhere; i.e. it is `actMat` of the
two-level matrix with that block on `(col, row)`.  Built from `C02_qr_gray`, `C02_qr_undo`,
`C02_qr_orientation`. -/
theorem C02_qr_rotation_amp {n row col : ℕ} (hrow : row < 2 ^ n) (hlt : col < row)
    {L : List Uni.QG} (hL : Uni.qrRotation n row col = some L) (B : Blk ℂ) (ψ : Bits → ℂ)
    (b : Bits) :
    ampSem B L ψ b =
      (if Uni.Reads (Uni.bitsLE n row) b then B.s * ψ (relabel n col b) + B.t * ψ b
       else if Uni.Reads (Uni.bitsLE n col) b then B.p * ψ b + B.q * ψ (relabel n row b)
       else ψ b) ∧
    ampSem B L ψ b =
      actMat (twoLevel (⟨col, by omega⟩ : Fin (2 ^ n)) ⟨row, hrow⟩ B.p B.q B.s B.t) ψ b := by
  have h := rotation_amp hrow hlt hL B ψ b
  refine ⟨h, ?_⟩
  rw [h, actMat_twoLevel (by intro e; have := congrArg Fin.val e; simp at this; omega)]

example : (6 : ℕ) < 2 ^ 3 ∧ (1 : ℕ) < 6 ∧ (Uni.qrRotation 3 6 1).isSome = true := by decide

/-- **C02 (whole QR circuit on amplitudes).**  For every `n ≥ 1` and every unitary `U` over
`Fin (2^n)` whose sweep meets no `norm = 0` and no `b ∈ {0, 1}`: `_build_qr_circuit` builds a stage
for EVERY element of `gate_sequence` (`codeStage`: `_get_row_col`, then the gate list `qrRotation`
with the block cut out of the matrix — the rotations are located at their own `(row, col)`, the
residual accepted at the default last two levels; no `ValueError`), and the stages composed in list order act on every
amplitude function (spectator wires included) as `U` acts on the `n` low wires. -/
theorem C02_qr_circuit {n : ℕ} (hn : 1 ≤ n) (U : Mat (2 ^ n)) (hU : Uᴴ * U = 1)
    (hok : SweepOk (pairs (2 ^ n)) U) (hloc : SweepLoc (pairs (2 ^ n)) U) :
    ∃ sts : List Stage,
      List.Forall₂ (fun st G => codeStage G = some st) sts (gateSequence U) ∧
      ∀ ψ, circSem sts ψ = actMat U ψ := by
  obtain ⟨sts', hsts'⟩ := factors_stages (pairs (2 ^ n)) (fun p hp => mem_pairs.1 hp) U hloc
  obtain ⟨_, hd, h1, _⟩ := C02_qr_residual U hU hok
  obtain ⟨st0, hst0, hden0⟩ := diag_stage hn (residual U) ⟨hd, h1⟩
  have hrev := List.rel_reverse hsts'
  obtain ⟨hseq, _, hop, _⟩ := C02_qr_sequence U hok
  refine ⟨st0 :: sts'.reverse, ?_, ?_⟩
  · rw [hseq]
    exact List.Forall₂.cons hst0 (hrev.imp (fun _ _ h => h.1))
  · intro ψ
    rw [circSem_denotes (st0 :: sts'.reverse) (gateSequence U)
      (by rw [hseq]; exact List.Forall₂.cons hden0 (hrev.imp (fun _ _ h => h.2))) ψ, hop]

/-- … whereas before the repair the residual got no stage at all (the code raised). -/
theorem C02_qr_circuit_raises_before_fix {n : ℕ} (U : Mat (2 ^ n))
    (hok : SweepOk (pairs (2 ^ n)) U) : codeStageOld (residual U) = none := by
  simp [codeStageOld, C02_qr_residual_unlocated_before_fix U hok]

/-- non-vacuity (`n = 1`): `(1/5)·[[3, 4], [4, −3]]` satisfies every hypothesis of
`C02_qr_circuit` (and of `C02_qr_full`, `C02_qr_code_sequence` with `N = 2`). -/
example : (1 ≤ 1) ∧ ex345ᴴ * ex345 = 1 ∧ SweepOk (pairs (2 ^ 1)) ex345 ∧
    SweepLoc (pairs (2 ^ 1)) ex345 := by
  refine ⟨le_refl 1, ex345_unitary, ex345_ok, ?_⟩
  show SweepLoc (pairs 2) ex345
  rw [pairs_two]
  exact ⟨ex345_loc, trivial⟩

end Qclib
