import QclibModel.Proofs.RotLaws
import QclibModel.Spec.Ucr
import QclibModel.Proofs.UcrProof
import QclibModel.Proofs.UcrAlgebra
/-
  C13 — uniformly controlled rotations implement the block-diagonal multiplexer.
  Property theorems only; helper lemmas live in Proofs/UcrProof.lean.
-/
namespace Qclib
open RotSem

variable {Θ R : Type} [AddCommGroup Θ] [CommRing R] [RotSem Θ R] [RotLaws Θ R]

/-- **C13 (main).** For every `k ≥ 0`, every angle list, both axes and entanglers, the circuit
with the trailing entangler denotes the ideal multiplexer, on every state `ψ`. -/
theorem C13_ucr (half : Θ → Θ) (negl : Θ → Bool)
    (hhalf : ∀ a, half a + half a = a) (hadd : ∀ a b, half (a + b) = half a + half b)
    (hnegl : ∀ a, negl a = true → a = 0)
    (ax : Axis) (e : Ent) (hv : validPair ax e = true) (k : Nat) (a : Nat → Θ) (ψ : State R) :
    sem (ucr (stdOps half negl) ax e k a true) ψ = muxIdeal ax k a ψ :=
  ucr_last_correct half negl hhalf hadd hnegl ax e hv k a ψ

/-- **C13 (omitted entangler).** For `k ≥ 1`, appending the single entangler to the
`last_control = False` circuit restores exactly the multiplexer. -/
theorem C13_nolast (half : Θ → Θ) (negl : Θ → Bool)
    (hhalf : ∀ a, half a + half a = a) (hadd : ∀ a b, half (a + b) = half a + half b)
    (hnegl : ∀ a, negl a = true → a = 0)
    (ax : Axis) (e : Ent) (hv : validPair ax e = true) (k : Nat) (a : Nat → Θ) (ψ : State R) :
    sem (ucr (stdOps half negl) ax e (k+1) a false ++ [entG e (k+1) 0]) ψ
      = muxIdeal ax (k+1) a ψ :=
  ucr_nolast_correct half negl hhalf hadd hnegl ax e hv k a ψ

/-- **C13 (composition).** Two uniformly controlled rotations about the same axis on the same
wires, one after the other, are the multiplexer of the summed angle vectors — whatever entanglers
the two circuits use.  (The block-diagonal operators form a group isomorphic to `Θ^(2^k)`.) -/
theorem C13_compose (half : Θ → Θ) (negl : Θ → Bool)
    (hhalf : ∀ a, half a + half a = a) (hadd : ∀ a b, half (a + b) = half a + half b)
    (hnegl : ∀ a, negl a = true → a = 0)
    (ax : Axis) (e e' : Ent) (hv : validPair ax e = true) (hv' : validPair ax e' = true)
    (k : Nat) (a c : Nat → Θ) (ψ : State R) :
    sem (ucr (stdOps half negl) ax e k a true ++ ucr (stdOps half negl) ax e' k c true) ψ
      = muxIdeal ax k (fun j => c j + a j) ψ := by
  rw [sem_append', C13_ucr half negl hhalf hadd hnegl ax e hv k a,
    C13_ucr half negl hhalf hadd hnegl ax e' hv' k c, mux_add]

/-- **C13 (inverse).** The same construction with every angle negated undoes the circuit, on
every state and in both orders: this is how the library un-computes a `ucr` (bottom-up
preparation, the black-box oracle's daggered multiplexers, `inverse()`). -/
theorem C13_inverse (half : Θ → Θ) (negl : Θ → Bool)
    (hhalf : ∀ a, half a + half a = a) (hadd : ∀ a b, half (a + b) = half a + half b)
    (hnegl : ∀ a, negl a = true → a = 0)
    (ax : Axis) (e e' : Ent) (hv : validPair ax e = true) (hv' : validPair ax e' = true)
    (k : Nat) (a : Nat → Θ) (ψ : State R) :
    sem (ucr (stdOps half negl) ax e k a true
          ++ ucr (stdOps half negl) ax e' k (fun j => -(a j)) true) ψ = ψ
    ∧ sem (ucr (stdOps half negl) ax e' k (fun j => -(a j)) true
          ++ ucr (stdOps half negl) ax e k a true) ψ = ψ := by
  constructor
  · rw [sem_append', C13_ucr half negl hhalf hadd hnegl ax e hv k a,
      C13_ucr half negl hhalf hadd hnegl ax e' hv' k _, mux_neg_left]
  · rw [sem_append', C13_ucr half negl hhalf hadd hnegl ax e' hv' k _,
      C13_ucr half negl hhalf hadd hnegl ax e hv k a, mux_neg_right]

/-- **C13 (all angles negligible).** A multiplexer whose angles are all zero is the identity, and
the circuit the code emits for it denotes the identity as well (for `k = 0` it is empty). -/
theorem C13_zero (half : Θ → Θ) (negl : Θ → Bool)
    (hhalf : ∀ a, half a + half a = a) (hadd : ∀ a b, half (a + b) = half a + half b)
    (hnegl : ∀ a, negl a = true → a = 0)
    (ax : Axis) (e : Ent) (hv : validPair ax e = true) (k : Nat) (ψ : State R) :
    sem (ucr (stdOps half negl) ax e k (fun _ => (0 : Θ)) true) ψ = ψ := by
  rw [C13_ucr half negl hhalf hadd hnegl ax e hv k _, mux_zero]

end Qclib
