import QclibModel.Proofs.RotLaws
import QclibModel.Spec.Ucr
import QclibModel.Proofs.UcrProof
/-
  C13 — uniformly controlled rotations implement the block-diagonal multiplexer.
  Property theorems only; helper lemmas live in Proofs/UcrProof.lean.
-/
namespace Qclib
open RotSem

variable {Θ R : Type} [AddCommGroup Θ] [CommRing R] [RotSem Θ R] [RotLaws Θ R]

/-- **C13 (main).** For every `k ≥ 0`, every angle list, both axes and entanglers, the circuit
with the trailing entangler denotes the ideal multiplexer, on every state `ψ`. -/
theorem C13_ucr (half : Θ → Θ) (negl : Θ → Bool)
    (hhalf : ∀ a, half a + half a = a) (hadd : ∀ a b, half (a + b) = half a + half b)
    (hnegl : ∀ a, negl a = true → a = 0)
    (ax : Axis) (e : Ent) (hv : validPair ax e = true) (k : Nat) (a : Nat → Θ) (ψ : State R) :
    sem (ucr (stdOps half negl) ax e k a true) ψ = muxIdeal ax k a ψ :=
  ucr_last_correct half negl hhalf hadd hnegl ax e hv k a ψ

/-- **C13 (omitted entangler).** For `k ≥ 1`, appending the single entangler to the
`last_control = False` circuit restores exactly the multiplexer. -/
theorem C13_nolast (half : Θ → Θ) (negl : Θ → Bool)
    (hhalf : ∀ a, half a + half a = a) (hadd : ∀ a b, half (a + b) = half a + half b)
    (hnegl : ∀ a, negl a = true → a = 0)
    (ax : Axis) (e : Ent) (hv : validPair ax e = true) (k : Nat) (a : Nat → Θ) (ψ : State R) :
    sem (ucr (stdOps half negl) ax e (k+1) a false ++ [entG e (k+1) 0]) ψ
      = muxIdeal ax (k+1) a ψ :=
  ucr_nolast_correct half negl hhalf hadd hnegl ax e hv k a ψ

end Qclib
