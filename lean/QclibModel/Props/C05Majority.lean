import QclibModel.Proofs.MajorityMain
import QclibModel.Proofs.PyLemmas
import QclibModel.Gen.Majority
/-
  C05 (majority gate) — "The majority gate flips its target iff at least half of the controls
  are 1."  Property theorems only; proofs live in Proofs/Majority.lean, Proofs/MajorityMain.lean.
-/
namespace Qclib

/-- `math.comb` of the translation's run-time support is the model's `binom` (Pascal rows). -/
theorem pyComb_cast (a b : Int) : Py.pyComb a b = ((binom a.toNat b.toNat : Nat) : Int) := by
  have hrow : ∀ n, Py.pyCombRow n = pascalRow n := by
    intro n
    induction n with
    | zero => rfl
    | succ n ih => simp only [Py.pyCombRow, pascalRow, nextRow, ih]
  simp only [Py.pyComb, binom, hrow, Int.ofNat_eq_natCast]

/-- **C05 (majority, source tie).**  `Gen.Majority.operate_sizes` is re-translated on every run from
the statements of `qclib/gates/majority.py::operate` that compute `n_min` and `n_controls`
(`tools/py2lean.py`, Python `int` as `Int`, `len(controls)` as the parameter).  For every number of
controls `n` it returns exactly the hand model the theorems below speak about: `n_min = majMin n`
and `n_controls = majSizes n`.  An edit of the rounding, of the range bounds or of the
binomial-parity filter in the source changes the generated text and breaks this proof. -/
theorem C05_majority_src (n : Nat) :
    Gen.Majority.operate_sizes (n : Int)
      = ((majMin n : Int), (majSizes n).map (fun (k : Nat) => (k : Int))) := by
  unfold Gen.Majority.operate_sizes majSizes
  simp only [Py.pyCeilDiv_two, ← majMin.eq_1]
  have hm : majMin n ≤ n + 1 := by unfold majMin; omega
  have h1 : ((n : Int) + 1) = ((majMin n + (n + 1 - majMin n) : Nat) : Int) := by omega
  rw [h1, Py.pyRange_cast, List.filter_map]
  congr 2
  apply List.filter_congr
  intro k _
  simp only [Function.comp, pyComb_cast]
  have e1 : ((k : Int) - 1).toNat = k - 1 := by omega
  have e2 : ((majMin n : Int) - 1).toNat = majMin n - 1 := by omega
  rw [e1, e2]
  generalize binom (k - 1) (majMin n - 1) = x
  by_cases h : x % 2 = 1
  · have : ((x : Int) % 2) = 1 := by omega
    simp [h, this]
  · have : ¬ ((x : Int) % 2) = 1 := by omega
    simp [h, this]

/-- Non-vacuity: for 5 controls the translated source gives `n_min = 3`, sizes `[3, 4]`. -/
example : Gen.Majority.operate_sizes 5 = (3, [3, 4]) := by decide

/-- **C05 (majority, subset sizes).**  For every number of controls `n ≥ 1` and every Hamming
weight `w ≤ n`, the number of emitted multi-controlled X gates that fire on an input of weight `w`
— `Σ_{k ∈ sizes(n)} C(w, k)` — is odd exactly when `w ≥ ⌈n/2⌉`.  (`sizes(n)` is the model of the
list `n_controls` computed by `majority.operate`.) -/
theorem C05_majority_sizes (n w : Nat) (hn : 1 ≤ n) (hw : w ≤ n) :
    ((majSizes n).map (fun k => w.choose k)).sum % 2 = if (n + 1) / 2 ≤ w then 1 else 0 :=
  majSizes_parity n w hn hw

/-- **C05 (majority gate).**  For every list of `n ≥ 1` control wires, every target wire not
among them and **every state** `ψ` (superpositions included), the circuit emitted by
`majority.operate` maps the amplitude at basis label `b` to the label with the target flipped
iff at least `⌈n/2⌉` of the control wires are set in `b`, and leaves every other wire alone. -/
theorem C05_majority {Θ R : Type} [CommRing R] [RotSem Θ R]
    (controls : List Nat) (t : Nat) (hn : 1 ≤ controls.length) (ht : t ∉ controls)
    (ψ : State R) (b : Bits) :
    sem (majority controls t : Circ Θ) ψ b
      = ψ (if (controls.length + 1) / 2 ≤ controls.countP (fun c => b c)
            then flipBit b t else b) := by
  rw [majority_eq_map, sem_mcx_list]
  · rw [numFire_flatMap,
      majSizes_parity controls.length _ hn List.countP_le_length]
    unfold majMin
    by_cases h : (controls.length + 1) / 2 ≤ controls.countP (fun c => b c) <;> simp [h]
  · intro s hs hts
    rcases List.mem_flatMap.mp hs with ⟨k, _, hk⟩
    exact ht (combos_mem hk t hts)

/-- Non-vacuity: three controls on wires 0,1,2, target 3. -/
example : 1 ≤ ([0, 1, 2] : List Nat).length ∧ (3 : Nat) ∉ ([0, 1, 2] : List Nat) := by decide

/-- The old power-of-two rule (`[n_min] ++ (odd n_min ? n_min+1..n_max-1) ++ [n_max]`) is *not*
correct from 19 controls on: with sizes `[10, 16]` an input of weight 12 fires `C(12,10) +
C(12,16) = 66` gates — an even number — although 12 ≥ 10.  (Finding F-C05-1, fixed in /repo.) -/
example : (Nat.choose 12 10 + Nat.choose 12 16) % 2 = 0 := by decide
example : majSizes 19 = [10, 12, 14, 16] := by decide

end Qclib
