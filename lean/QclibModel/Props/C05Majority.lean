import QclibModel.Proofs.MajorityMain
/-
  C05 (majority gate) — "The majority gate flips its target iff at least half of the controls
  are 1."  Property theorems only; proofs live in Proofs/Majority.lean, Proofs/MajorityMain.lean.
-/
namespace Qclib

/-- **C05 (majority, subset sizes).**  For every number of controls `n ≥ 1` and every Hamming
weight `w ≤ n`, the number of emitted multi-controlled X gates that fire on an input of weight `w`
— `Σ_{k ∈ sizes(n)} C(w, k)` — is odd exactly when `w ≥ ⌈n/2⌉`.  (`sizes(n)` is the model of the
list `n_controls` computed by `majority.operate`.) -/
theorem C05_majority_sizes (n w : Nat) (hn : 1 ≤ n) (hw : w ≤ n) :
    ((majSizes n).map (fun k => w.choose k)).sum % 2 = if (n + 1) / 2 ≤ w then 1 else 0 :=
  majSizes_parity n w hn hw

/-- **C05 (majority gate).**  For every list of `n ≥ 1` control wires, every target wire not
among them and **every state** `ψ` (superpositions included), the circuit emitted by
`majority.operate` maps the amplitude at basis label `b` to the label with the target flipped
iff at least `⌈n/2⌉` of the control wires are set in `b`, and leaves every other wire alone. -/
theorem C05_majority {Θ R : Type} [CommRing R] [RotSem Θ R]
    (controls : List Nat) (t : Nat) (hn : 1 ≤ controls.length) (ht : t ∉ controls)
    (ψ : State R) (b : Bits) :
    sem (majority controls t : Circ Θ) ψ b
      = ψ (if (controls.length + 1) / 2 ≤ controls.countP (fun c => b c)
            then flipBit b t else b) := by
  rw [majority_eq_map, sem_mcx_list]
  · rw [numFire_flatMap,
      majSizes_parity controls.length _ hn List.countP_le_length]
    unfold majMin
    by_cases h : (controls.length + 1) / 2 ≤ controls.countP (fun c => b c) <;> simp [h]
  · intro s hs hts
    rcases List.mem_flatMap.mp hs with ⟨k, _, hk⟩
    exact ht (combos_mem hk t hts)

/-- Non-vacuity: three controls on wires 0,1,2, target 3. -/
example : 1 ≤ ([0, 1, 2] : List Nat).length ∧ (3 : Nat) ∉ ([0, 1, 2] : List Nat) := by decide

/-- The old power-of-two rule (`[n_min] ++ (odd n_min ? n_min+1..n_max-1) ++ [n_max]`) is *not*
correct from 19 controls on: with sizes `[10, 16]` an input of weight 12 fires `C(12,10) +
C(12,16) = 66` gates — an even number — although 12 ≥ 10.  (Finding F-C05-1, fixed in /repo.) -/
example : (Nat.choose 12 10 + Nat.choose 12 16) % 2 = 0 := by decide
example : majSizes 19 = [10, 12, 14, 16] := by decide

end Qclib
