import QclibModel.Gen.Validate
import QclibModel.Proofs.ValidateSpec
import Mathlib.Tactic.NormNum
/-
  C16 — invalid inputs are rejected, never silently turned into a wrong circuit.
  Property theorems only.  Model: `Model/Validate.lean` (interpreter), `Gen/Validate.lean` (the step
  lists and the entry-point table, re-extracted from the Python source on every run by
  `tools/props/c16.py`); lemmas: `Proofs/Validate.lean`, `Proofs/ValidateSpec.lean` (which also
  defines the validity conditions `DenseValid`, `IsoValid`, `U2Valid`, `UnitaryValid` with the
  tolerances as exact rationals).

  All theorems are over an arbitrary linearly ordered field `K` (exact arithmetic; `ℚ` in the
  examples); `A : Arr K` is the input array (`ndim`, `rows = shape[0]`, `cols = shape[1]`, entries).
  `run (fieldNOps K) A steps = .ok ()` means "the validator returns", `.error cls` "it raises `cls`".
  NaN / inf are outside an ordered field: their rejection is established by the tie on IEEE doubles
  (driver) and by the oracle, not by these theorems.
-/
namespace Qclib
open Validate Finset

variable {K : Type} [Field K] [LinearOrder K] [IsStrictOrderedRing K]

/-- **C16 (dense and black-box initializers).**  `Initialize._get_num_qubits`, as it reads in the
current source, accepts a vector iff its length is `2^n` with `n ≥ 1` and
`|Σ_k |a_k|² − 1| ≤ 10⁻¹⁰`; every other vector (of any length) raises `ValueError`. -/
theorem C16_dense (A : Arr K) :
    (run (fieldNOps K) A Gen.denseSteps = .ok () ↔
        ∃ n, 1 ≤ n ∧ A.rows = 2 ^ n ∧
          |(∑ k ∈ range A.rows, ((A.ent k 0).re ^ 2 + (A.ent k 0).im ^ 2)) - 1| ≤ 1 / 10 ^ 10)
    ∧ (¬ DenseValid A → run (fieldNOps K) A Gen.denseSteps = .error "ValueError") := by
  have hgen : Gen.denseSteps = expDense := rfl   -- fails when the source's skeleton changes
  rw [hgen]
  exact ⟨expDense_ok_iff A, reject_of_not_valid A _ (by decide) _ (expDense_ok_iff A)⟩

/-- **C16 (what is rejected).**  Lengths that are not a positive power of two (0, 1, 3, 5, 6, 7, …),
the all-zero vector, and every rescaling `c·v` of a unit vector with `|c² − 1| > 10⁻¹⁰` (in particular
`c ≥ 1 + 10⁻⁴`, `2v`, `v/2`) raise `ValueError`. -/
theorem C16_dense_rejects (A : Arr K) :
    ((∀ n, 1 ≤ n → A.rows ≠ 2 ^ n) → run (fieldNOps K) A Gen.denseSteps = .error "ValueError")
    ∧ ((∀ k, k < A.rows → (A.ent k 0).re = 0 ∧ (A.ent k 0).im = 0) →
        run (fieldNOps K) A Gen.denseSteps = .error "ValueError")
    ∧ (∀ (B : Arr K) (c : K), B.rows = A.rows →
        (∀ k, k < A.rows → (B.ent k 0).re = c * (A.ent k 0).re ∧ (B.ent k 0).im = c * (A.ent k 0).im) →
        (∑ k ∈ range A.rows, ((A.ent k 0).re ^ 2 + (A.ent k 0).im ^ 2)) = 1 →
        1 / 10 ^ 10 < |c ^ 2 - 1| →
        run (fieldNOps K) B Gen.denseSteps = .error "ValueError") := by
  refine ⟨fun h => (C16_dense A).2 ?_, fun h => (C16_dense A).2 ?_, fun B c hr hB hA hc => (C16_dense B).2 ?_⟩
  · rintro ⟨n, hn, hr, _⟩
    exact h n hn hr
  · rintro ⟨n, _, _, hs⟩
    have h0 : normSqSum A = 0 := by
      unfold normSqSum
      apply Finset.sum_eq_zero
      intro k hk
      obtain ⟨h1, h2⟩ := h k (Finset.mem_range.1 hk)
      rw [h1, h2]; ring
    rw [h0, zero_sub, abs_neg, abs_one] at hs
    have : (1 : K) / 10 ^ 10 < 1 := by
      rw [div_lt_one (by positivity)]
      norm_num
    linarith
  · rintro ⟨n, _, _, hs⟩
    have hB' : normSqSum B = c ^ 2 := by
      unfold normSqSum
      rw [hr, ← mul_one (c ^ 2), ← hA, Finset.mul_sum]
      apply Finset.sum_congr rfl
      intro k hk
      obtain ⟨h1, h2⟩ := hB k (Finset.mem_range.1 hk)
      rw [h1, h2]; ring
    rw [hB'] at hs
    linarith

/-- **C16 (isometries).**  `isometry.decompose`'s validation (`log2` of both dimensions,
`_check_isometry`, `_is_isometry`) accepts `V` iff `rows = 2^n`, `cols = 2^m`, `cols ≤ rows` and every
entry `G_ij = Σ_k conj(V_ki) V_kj` of the Gram matrix satisfies
`|G_ij − δ_ij|² ≤ (10⁻⁸ + 10⁻⁵·δ_ij)²`; every other matrix (wide, non-power-of-two shape,
non-orthonormal / rank-deficient / scaled columns) raises `ValueError`. -/
theorem C16_iso (A : Arr K) :
    (run (fieldNOps K) A Gen.isoSteps = .ok () ↔
        (∃ n, A.rows = 2 ^ n) ∧ (∃ m, A.cols = 2 ^ m) ∧ A.cols ≤ A.rows ∧
        ∀ i, i < A.cols → ∀ j, j < A.cols →
          ((∑ k ∈ range A.rows, ((A.ent k i).re * (A.ent k j).re + (A.ent k i).im * (A.ent k j).im))
              - ((if i = j then 1 else 0 : Nat) : K)) ^ 2
            + (∑ k ∈ range A.rows, ((A.ent k i).re * (A.ent k j).im - (A.ent k i).im * (A.ent k j).re)) ^ 2
            ≤ (1 / 10 ^ 8 + 1 / 10 ^ 5 * ((if i = j then 1 else 0 : Nat) : K)) ^ 2)
    ∧ (¬ IsoValid A → run (fieldNOps K) A Gen.isoSteps = .error "ValueError") := by
  have hgen : Gen.isoSteps = expIso := rfl
  rw [hgen]
  exact ⟨expIso_ok_iff A, reject_of_not_valid A _ (by decide) _ (expIso_ok_iff A)⟩

/-- **C16 (one-qubit operators).**  `check_u2` accepts `U` iff its shape is `(2,2)` and every entry
of `U U†` is within `10⁻⁸ + 10⁻⁵·δ_ij` of `δ_ij`; anything else (3×3, 4×4, vectors, `2U`,
`[[1,1],[0,1]]`, …) raises `ValueError`. -/
theorem C16_u2 (A : Arr K) :
    (run (fieldNOps K) A Gen.u2Steps = .ok () ↔
        A.ndim = 2 ∧ A.rows = 2 ∧ A.cols = 2 ∧
        ∀ i, i < 2 → ∀ j, j < 2 →
          ((∑ k ∈ range A.cols, ((A.ent i k).re * (A.ent j k).re + (A.ent i k).im * (A.ent j k).im))
              - ((if i = j then 1 else 0 : Nat) : K)) ^ 2
            + (∑ k ∈ range A.cols, ((A.ent i k).im * (A.ent j k).re - (A.ent i k).re * (A.ent j k).im)) ^ 2
            ≤ (1 / 10 ^ 8 + 1 / 10 ^ 5 * ((if i = j then 1 else 0 : Nat) : K)) ^ 2)
    ∧ (¬ U2Valid A → run (fieldNOps K) A Gen.u2Steps = .error "ValueError") := by
  have hgen : Gen.u2Steps = expU2 := rfl
  rw [hgen]
  exact ⟨expU2_ok_iff A, reject_of_not_valid A _ (by decide) _ (expU2_ok_iff A)⟩

/-- **C16 (unitary synthesis).**  The guard at the top of `unitary()` accepts `U` iff it is
two-dimensional, square, of size `2^n`, and every entry of `U†U` is within `10⁻⁸ + 10⁻⁵·δ_ij` of
`δ_ij`; anything else raises `ValueError`. -/
theorem C16_unitary (A : Arr K) :
    (run (fieldNOps K) A Gen.unitarySteps = .ok () ↔
        A.ndim = 2 ∧ A.rows = A.cols ∧ (∃ n, A.rows = 2 ^ n) ∧
        ∀ i, i < A.cols → ∀ j, j < A.cols →
          ((∑ k ∈ range A.rows, ((A.ent k i).re * (A.ent k j).re + (A.ent k i).im * (A.ent k j).im))
              - ((if i = j then 1 else 0 : Nat) : K)) ^ 2
            + (∑ k ∈ range A.rows, ((A.ent k i).re * (A.ent k j).im - (A.ent k i).im * (A.ent k j).re)) ^ 2
            ≤ (1 / 10 ^ 8 + 1 / 10 ^ 5 * ((if i = j then 1 else 0 : Nat) : K)) ^ 2)
    ∧ (¬ UnitaryValid A → run (fieldNOps K) A Gen.unitarySteps = .error "ValueError") := by
  have hgen : Gen.unitarySteps = expUnitary := rfl
  rw [hgen]
  exact ⟨expUnitary_ok_iff A, reject_of_not_valid A _ (by decide) _ (expUnitary_ok_iff A)⟩

/-- **C16 (entry points).**  The table extracted from the constructors / functions of the current
source lists exactly the entry points the property names, each with the kind of input it takes, and
in every one of them the validator of that kind is applied to the input (to every element, for the
list form of `MultiTargetMCSU2`) before the first statement that builds anything
(`Entry.guarded`: `Kind.required` occurs in the statement list before any `build`). -/
theorem C16_entrypoints :
    Gen.entryTable.map (fun e => (e.name, e.kind)) =
      [("qclib/state_preparation/topdown.py:TopDownInitialize", .dense),
       ("qclib/state_preparation/lowrank.py:LowRankInitialize", .dense),
       ("qclib/state_preparation/svd.py:SVDInitialize", .dense),
       ("qclib/state_preparation/ucg.py:UCGInitialize", .dense),
       ("qclib/state_preparation/ucge.py:UCGEInitialize", .dense),
       ("qclib/state_preparation/isometry.py:IsometryInitialize", .dense),
       ("qclib/state_preparation/baa_lowrank.py:BaaLowRankInitialize", .dense),
       ("qclib/state_preparation/blackbox.py:BlackBoxInitialize", .dense),
       ("qclib/unitary.py:unitary", .unitary),
       ("qclib/isometry.py:decompose", .isometry),
       ("qclib/gates/ldmcu.py:Ldmcu", .u2),
       ("qclib/gates/ldmcsu.py:Ldmcsu", .u2),
       ("qclib/gates/ldmcsu.py:LdMcSpecialUnitary", .u2),
       ("qclib/gates/qdmcu.py:Qdmcu", .u2),
       ("qclib/gates/mcg.py:Mcg", .u2),
       ("qclib/gates/mcu.py:MCU", .u2),
       ("qclib/gates/multitargetmcsu2.py:MultiTargetMCSU2[list]", .u2),
       ("qclib/gates/multitargetmcsu2.py:MultiTargetMCSU2[single]", .u2)]
    ∧ Gen.entryTable.all Entry.guarded = true := by
  decide

/-- **C16 (entry points accept only valid inputs).**  For every entry point of the table: if its
constructor / function gets past its validation statements on input `A` (decision of the model that
the tie diffs against the real constructors), then `A` meets the validity condition of its kind. -/
theorem C16_entry_sound (e : Entry) (he : e ∈ Gen.entryTable) (A : Arr K)
    (hok : entryDecide (fieldNOps K) Gen.validators A e.evs = .ok ()) :
    match e.kind with
    | .dense => DenseValid A
    | .unitary => UnitaryValid A
    | .isometry => IsoValid A
    | .u2 => U2Valid A := by
  have hg : e.guarded = true := (List.all_eq_true.1 C16_entrypoints.2) e he
  unfold Entry.guarded at hg
  cases hk : e.kind with
  | dense =>
    rw [hk] at hg
    have := entryDecide_sound (fieldNOps K) Gen.validators A _ Gen.denseSteps
      (by intro ev hev
          simp only [Kind.required, List.mem_singleton] at hev
          exact ⟨_, Or.inl hev, rfl⟩) e.evs hg hok
    exact (expDense_ok_iff A).1 this
  | unitary =>
    rw [hk] at hg
    have := entryDecide_sound (fieldNOps K) Gen.validators A _ Gen.unitarySteps
      (by intro ev hev
          simp only [Kind.required, List.mem_singleton] at hev
          exact ⟨_, Or.inr (Or.inr hev), rfl⟩) e.evs hg hok
    exact (expUnitary_ok_iff A).1 this
  | isometry =>
    rw [hk] at hg
    have := entryDecide_sound (fieldNOps K) Gen.validators A _ Gen.isoSteps
      (by intro ev hev
          simp only [Kind.required, List.mem_singleton] at hev
          exact ⟨_, Or.inl hev, rfl⟩) e.evs hg hok
    exact (expIso_ok_iff A).1 this
  | u2 =>
    rw [hk] at hg
    have := entryDecide_sound (fieldNOps K) Gen.validators A _ Gen.u2Steps
      (by intro ev hev
          simp only [Kind.required, List.mem_cons, List.not_mem_nil, or_false] at hev
          rcases hev with hev | hev
          · exact ⟨_, Or.inl hev, rfl⟩
          · exact ⟨_, Or.inr (Or.inl hev), rfl⟩) e.evs hg hok
    exact (expU2_ok_iff A).1 this

/-! ### the hypotheses are satisfiable: concrete accepted and rejected inputs over `ℚ` -/
section Examples

/-- the vector `(3/5, 4/5 i)` -/
def exVec : Arr ℚ := ⟨1, 2, 1, fun k _ => if k = 0 then ⟨3 / 5, 0⟩ else ⟨0, 4 / 5⟩⟩

example : run (fieldNOps ℚ) exVec Gen.denseSteps = .ok () :=
  (C16_dense exVec).1.2 ⟨1, le_refl 1, rfl, by norm_num [exVec, Finset.sum_range_succ]⟩

/-- a vector of length 3 -/
example : run (fieldNOps ℚ) (⟨1, 3, 1, fun _ _ => ⟨0, 0⟩⟩ : Arr ℚ) Gen.denseSteps = .error "ValueError" := by
  apply (C16_dense_rejects _).1
  intro n hn h
  have h4 : 2 ^ 2 ≤ 2 ^ n ∨ n = 1 := by
    rcases Nat.lt_or_ge n 2 with h2 | h2
    · right; omega
    · left; exact Nat.pow_le_pow_right (by norm_num) h2
  rcases h4 with h4 | rfl
  · simp only at h; omega
  · simp at h

/-- `(1 + 10⁻⁴)·exVec` -/
def exVecScaled : Arr ℚ :=
  ⟨1, 2, 1, fun k _ => if k = 0 then ⟨(1 + 1 / 10 ^ 4) * (3 / 5), 0⟩ else ⟨0, (1 + 1 / 10 ^ 4) * (4 / 5)⟩⟩

example : run (fieldNOps ℚ) exVecScaled Gen.denseSteps = .error "ValueError" := by
  apply (C16_dense_rejects exVec).2.2 exVecScaled (1 + 1 / 10 ^ 4) rfl
  · intro k hk
    have : k = 0 ∨ k = 1 := by simp only [exVec] at hk; omega
    rcases this with rfl | rfl <;> simp [exVec, exVecScaled]
  · norm_num [exVec, Finset.sum_range_succ]
  · norm_num [abs_of_pos]

/-- the Hadamard-like rational unitary `[[3/5, 4/5], [4/5, −3/5]]` is accepted by `check_u2`, by the
isometry check and by `unitary()`'s guard; `[[1,1],[0,1]]` (determinant 1, not unitary) is not -/
def exU : Arr ℚ := ⟨2, 2, 2, fun i j =>
  if i = 0 then (if j = 0 then ⟨3 / 5, 0⟩ else ⟨4 / 5, 0⟩) else (if j = 0 then ⟨4 / 5, 0⟩ else ⟨-3 / 5, 0⟩)⟩

theorem exU_gramR : ∀ i, i < 2 → ∀ j, j < 2 →
    EntryClose (1 / 10 ^ 5 : ℚ) (1 / 10 ^ 8) (gramRRe exU i j) (gramRIm exU i j) (if i = j then 1 else 0) := by
  intro i hi j hj
  have hi' : i = 0 ∨ i = 1 := by omega
  have hj' : j = 0 ∨ j = 1 := by omega
  rcases hi' with rfl | rfl <;> rcases hj' with rfl | rfl <;>
    norm_num [EntryClose, gramRRe, gramRIm, exU, Finset.sum_range_succ]

example : run (fieldNOps ℚ) exU Gen.u2Steps = .ok () := by
  have hgen : Gen.u2Steps = expU2 := rfl
  rw [hgen]
  exact (expU2_ok_iff exU).2 ⟨rfl, rfl, rfl, exU_gramR⟩

example : run (fieldNOps ℚ)
    (⟨2, 2, 2, fun i j => if i = 1 ∧ j = 0 then ⟨0, 0⟩ else ⟨1, 0⟩⟩ : Arr ℚ) Gen.u2Steps = .error "ValueError" := by
  apply (C16_u2 _).2
  rintro ⟨_, _, _, hg⟩
  have := hg 0 (by norm_num) 0 (by norm_num)
  norm_num [EntryClose, gramRRe, gramRIm, Finset.sum_range_succ] at this

/-- a wide matrix (2 × 4) is rejected by the isometry check, a 3 × 3 one by `unitary()` -/
example : run (fieldNOps ℚ) (⟨2, 2, 4, fun _ _ => ⟨0, 0⟩⟩ : Arr ℚ) Gen.isoSteps = .error "ValueError" := by
  apply (C16_iso _).2
  rintro ⟨_, _, hle, _⟩
  simp only at hle
  omega

example : run (fieldNOps ℚ) (⟨2, 3, 3, fun i j => if i = j then ⟨1, 0⟩ else ⟨0, 0⟩⟩ : Arr ℚ) Gen.unitarySteps
    = .error "ValueError" := by
  apply (C16_unitary _).2
  rintro ⟨_, _, ⟨n, hn⟩, _⟩
  simp only at hn
  have h4 : 2 ^ 2 ≤ 2 ^ n ∨ n ≤ 1 := by
    rcases Nat.lt_or_ge n 2 with h2 | h2
    · right; omega
    · left; exact Nat.pow_le_pow_right (by norm_num) h2
  rcases h4 with h4 | h1
  · omega
  · have : n = 0 ∨ n = 1 := by omega
    rcases this with rfl | rfl <;> simp at hn

/-- the table is not vacuous: `Ldmcsu`'s row is in it and is decided by `check_u2` -/
example : (⟨"qclib/gates/ldmcsu.py:Ldmcsu", .u2,
    [.validate "check_u2", .ignored "check_su2", .build "super().__init__"]⟩ : Entry) ∈ Gen.entryTable := by
  decide

end Examples

end Qclib
