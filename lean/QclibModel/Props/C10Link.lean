import QclibModel.Props.C10
import QclibModel.Proofs.CnotLinkUnitary
import QclibModel.Proofs.CnotLinkCcd
/-
  C10 (link) — the CNOT count of the circuits whose CORRECTNESS is proved (C02, C03) is the count
  the estimates are proved equal to (C10).  Property theorems only; lemmas in Proofs/CnotLink*.lean.

  `Props/C10.lean` proves: closed forms generated from the Python source = structural count of the
  shapes of `Model/CnotShape.lean` (`Cnot.buildQsd`, `Cnot.buildCsd`, `Cnot.ccdShape`).
  `Props/C02.lean` / `Props/C03.lean` prove: the gate lists of `Model/Unitary.lean`
  (`Uni.buildUnitary`) denote the input matrix; the schedule of `Model/Isometry.lean` maps every
  column to its basis vector.  Those are two models, each tied to the code by its own correspondence.
  Here the two are proved to describe THE SAME circuit, for every size:

    objects of the C02 / C03 model, read as `Prim`s   =   the C10 shape      (object for object)

  and therefore    closed form from the source  =  `Prim.cost`-count of the C02 / C03 model circuit.

  The price table is `Cnot.Prim.cost` and nothing else.  `ugPrim` only says which `Prim` an emitted
  object is (by the wires it is put on); `norm` expands the one object the C02 model emits expanded
  (the CZ multiplexer: `ry`/`cz` gates of `Model/Ucr.lean`) and erases what the C02 model does not
  carry (one-qubit objects, the A.2 visibility flag); it preserves the count (`raw_norm`).
-/
namespace Qclib
open Qclib.Py Qclib.Cnot Qclib.Gen.CnotCount Qclib.CnotLink

/-- angle operations over `Nat` for the non-vacuity examples (any operations do: the counts do not
depend on them). -/
def linkExOps : Uni.UOps Nat := ⟨⟨Nat.add, Nat.sub, fun a => a / 2, fun a => a == 0⟩, id, 0⟩

/-- **C10 link (multiplexer).**  For every number of controls `k`, every angle function, axis and
entangler: the gate list of `ucr(r_gate, angles, c_gate, last_control)` (the C13 model of
qclib/gates/ucr.py, the list `C13_ucr` proves to be the multiplexer) contains exactly `2^k` entanglers
(`0` for `k = 0`) with the last entangler and `2^k − 1` without — the prices `Prim.cost` puts on
`ucrz k` / `ucry k` and on `ucrCZ k`; every other gate of the list is a one-qubit rotation; placing
the list on other wires does not change the number.  (Negligible angles drop rotations, never an
entangler.) -/
theorem C10_link_ucr {Θ : Type} (o : AOps Θ) (ax : Axis) (e : Ent) (k : Nat) (a : Nat → Θ) :
    entCount (ucr o ax e k a true) = (if k = 0 then 0 else 2 ^ k) ∧
    entCount (ucr o ax e k a false) = 2 ^ k - 1 ∧
    entCount (ucr o ax e k a true) = Prim.cost (Prim.ucrz k) ∧
    entCount (ucr o ax e k a true) = Prim.cost (Prim.ucry k) ∧
    entCount (ucr o ax e k a false) = Prim.cost (Prim.ucrCZ k) ∧
    (∀ last, ∀ g ∈ ucr o ax e k a last, (isRot g || isEnt g) = true) ∧
    (∀ last ws, entCount (place (ucr o ax e k a last) ws) = entCount (ucr o ax e k a last)) := by
  have hp : 1 ≤ 2 ^ k := Nat.one_le_two_pow
  have ht : entCount (ucr o ax e k a true) = (if k = 0 then 0 else 2 ^ k) := by
    rw [entCount_ucr]
    by_cases hk : k = 0
    · subst hk; rfl
    · simp [hk]; omega
  have hf : entCount (ucr o ax e k a false) = 2 ^ k - 1 := by
    rw [entCount_ucr]; simp
  exact ⟨ht, hf, ht, ht, hf, fun last => rotOrEnt_ucr o ax e k a last,
    fun last ws => entCount_place _ ws⟩

/-- non-vacuity: three controls; with these (natural-number) angles all but one rotation of the
second list are negligible and dropped — its 8 gates are 7 `cz` and one `ry`. -/
example : entCount (ucr linkExOps.a Axis.Z Ent.CX 3 (fun j => j + 1) true) = 8
    ∧ entCount (ucr linkExOps.a Axis.Y Ent.CZ 3 (fun j => j + 1) false) = 7
    ∧ (ucr linkExOps.a Axis.Y Ent.CZ 3 (fun j => j + 1) false).length = 8 := by decide

/-- **C10 link (QSD).**  For every `n ≥ 1`, EVERY kernel tape and every angle operations, let `circ`
be the gate list the C02 model emits for `build_unitary(U, "qsd")` — the list `C02_qsd_full` proves to
denote `U`.  Then
 (1) every object of `circ` is one the price table covers (`ry`/`cz` of the CZ multiplexer, leaves on
     at most two wires, `UCRZ` with a target);
 (2) read as `Prim`s, `circ` is — object for object, up to the expansion of the CZ multiplexer —
     the shape `Cnot.buildQsd n 0` that `C10_qsd` is about;
 (3) its `Prim.cost`-count is `unitaryCnots Dec.qsd n 0 false`;
 (4) it has exactly `4^(n−2)` two-qubit leaves (`n ≥ 2`);
 (5) with A.2 (one CNOT saved on every two-qubit leaf but the last; for `n = 2` the single leaf is the
     whole circuit and nothing is saved) the count is `unitaryCnots Dec.qsd n 0 a2`;
 (6) hence the closed form GENERATED from `_cnot_count_estimate` equals the count of that circuit. -/
theorem C10_link_qsd {Θ : Type} (o : Uni.UOps Θ) (n : Nat) (hn : 1 ≤ n) (tape : Uni.Tape Θ) (a2 : Bool)
    (circ : List (Uni.UG Θ)) (hc : circ = (Uni.buildUnitary o Uni.Dec.qsd n 0 tape).1) :
    circ.all ugPriced = true ∧
    norm (ugPrims circ) = norm (buildUnitary Dec.qsd n 0) ∧
    ugCnots circ = unitaryCnots Dec.qsd n 0 false ∧
    (2 ≤ n → leaves2 circ = 4 ^ (n - 2)) ∧
    ugCnotsA2 a2 0 circ = unitaryCnots Dec.qsd n 0 a2 ∧
    unitary.cnot_count_estimate ((2 ^ n : Nat) : Int) "qsd" 0 a2 = (ugCnotsA2 a2 0 circ : Int) := by
  have h : Linked circ (Cnot.buildQsd n 0) (inlineLeaves n 0) := by
    rw [hc]; exact qsd_link o n 0 tape
  have h5 : ugCnotsA2 a2 0 circ = unitaryCnots Dec.qsd n 0 a2 := by
    rw [h.a2_zero (inlineLeaves_zero_iso n) a2]
    cases a2 <;> rfl
  refine ⟨h.priced, h.seq, h.cnots, ?_, h5, ?_⟩
  · intro h2
    obtain ⟨m, rfl⟩ : ∃ m, n = m + 2 := ⟨n - 2, by omega⟩
    rw [h.leaves, vis_buildQsd_zero_total, Nat.add_sub_cancel]
  · rw [h5]; exact C10_qsd n hn a2

/-- non-vacuity: `n = 3` and `n = 4`, empty tape (all angles default): 23 resp. 115 CNOTs, 4 resp.
16 two-qubit leaves, 20 resp. 100 CNOTs after A.2 — the values of the closed form. -/
example : ugCnots (Uni.buildUnitary linkExOps Uni.Dec.qsd 3 0 []).1 = 23
    ∧ leaves2 (Uni.buildUnitary linkExOps Uni.Dec.qsd 3 0 []).1 = 4
    ∧ ugCnotsA2 true 0 (Uni.buildUnitary linkExOps Uni.Dec.qsd 3 0 []).1 = 20
    ∧ unitaryCnots Dec.qsd 3 0 true = 20 := by decide
example : ugCnots (Uni.buildUnitary linkExOps Uni.Dec.qsd 4 0 []).1 = 115
    ∧ ugCnotsA2 true 0 (Uni.buildUnitary linkExOps Uni.Dec.qsd 4 0 []).1 = 100 := by decide
example : unitary.cnot_count_estimate ((2 ^ 4 : Nat) : Int) "qsd" 0 true
    = (ugCnotsA2 true 0 (Uni.buildUnitary linkExOps Uni.Dec.qsd 4 0 [[1, 2], [3]]).1 : Int) :=
  (C10_link_qsd linkExOps 4 (by decide) [[1, 2], [3]] true _ rfl).2.2.2.2.2

/-- **C10 link (CSD).**  For every `n ≥ 1`, every `iso`, every tape: the gate list the C02 model emits
for `build_unitary(U, "csd", iso)` (the list of `C02_csd_full`) consists of priced objects, is —
object for object — the shape `Cnot.buildCsd n iso` (`UCGate` on all `n` wires, `UCRYGate` on
`[target] + controls` with `n − 1` controls, the CZ multiplexer without its last CZ), costs
`unitaryCnots Dec.csd n iso a2` (A.2 does not apply to CSD), has a two-qubit leaf only at the bottom of
the isometry chain, and for `iso = 0` its count is the closed form generated from the source
(`4^n − 2·2^n − 1`). -/
theorem C10_link_csd {Θ : Type} (o : Uni.UOps Θ) (n iso : Nat) (hn : 1 ≤ n) (tape : Uni.Tape Θ) (a2 : Bool)
    (circ : List (Uni.UG Θ)) (hc : circ = (Uni.buildUnitary o Uni.Dec.csd n iso tape).1) :
    circ.all ugPriced = true ∧
    norm (ugPrims circ) = norm (buildUnitary Dec.csd n iso) ∧
    ugCnots circ = unitaryCnots Dec.csd n iso a2 ∧
    leaves2 circ = inlineLeaves n iso ∧
    (iso = 0 → unitary.cnot_count_estimate ((2 ^ n : Nat) : Int) "csd" 0 a2 = (ugCnots circ : Int)) := by
  have h : Linked circ (Cnot.buildCsd n iso) (inlineLeaves n iso) := by
    rw [hc]; exact csd_link o n iso tape
  have h3 : ugCnots circ = unitaryCnots Dec.csd n iso a2 := by
    rw [h.cnots]; rfl
  refine ⟨h.priced, h.seq, h3, ?_, ?_⟩
  · rw [h.leaves, vis_buildCsd, Nat.zero_add]
  · intro h0
    subst h0
    rw [h3]; exact C10_csd n hn a2

example : ugCnots (Uni.buildUnitary linkExOps Uni.Dec.csd 3 0 []).1 = 47
    ∧ ugCnots (Uni.buildUnitary linkExOps Uni.Dec.csd 4 0 []).1 = 223
    ∧ ugCnots (Uni.buildUnitary linkExOps Uni.Dec.csd 4 1 []).1 = unitaryCnots Dec.csd 4 1 true := by decide

/-- **C10 link (QSD, isometry mode).**  For every `n ≥ 1`, every `iso ≥ 1`, every tape: the gate list
the C02 model emits for `build_unitary(U, "qsd", iso)` (the list of `C02_qsd_iso_full`) consists of
priced objects, is — object for object — the shape `Cnot.buildQsd n iso`, costs
`unitaryCnots Dec.qsd n iso false` without A.2; its two-qubit leaves are the blocks visible to A.2 in
the shape plus `inlineLeaves n iso` (the one block at the bottom of the isometry chain, which
`build_unitary` composes inline; present iff `n − 2 ≤ iso`), so with A.2 saving one CNOT on every
visible leaf but the last the count is `unitaryCnots Dec.qsd n iso true` — which `C10_iso` proves equal
to the `_cnot_count_iso` recurrence generated from the source. -/
theorem C10_link_iso {Θ : Type} (o : Uni.UOps Θ) (n iso : Nat) (hn : 1 ≤ n) (hiso : 1 ≤ iso)
    (tape : Uni.Tape Θ) (circ : List (Uni.UG Θ))
    (hc : circ = (Uni.buildUnitary o Uni.Dec.qsd n iso tape).1) :
    circ.all ugPriced = true ∧
    norm (ugPrims circ) = norm (buildUnitary Dec.qsd n iso) ∧
    ugCnots circ = unitaryCnots Dec.qsd n iso false ∧
    leaves2 circ = vis (buildUnitary Dec.qsd n iso) + inlineLeaves n iso ∧
    ugCnotsA2 true (inlineLeaves n iso) circ = unitaryCnots Dec.qsd n iso true ∧
    unitary.cnot_count_estimate ((2 ^ n : Nat) : Int) "qsd" (iso : Int) true
      = (ugCnotsA2 true (inlineLeaves n iso) circ : Int) := by
  have h : Linked circ (Cnot.buildQsd n iso) (inlineLeaves n iso) := by
    rw [hc]; exact qsd_link o n iso tape
  have h5 : ugCnotsA2 true (inlineLeaves n iso) circ = unitaryCnots Dec.qsd n iso true := by
    rw [h.a2 true]; rfl
  refine ⟨h.priced, h.seq, h.cnots, h.leaves, h5, ?_⟩
  rw [h5]; exact C10_iso n iso hn hiso

/-- non-vacuity: `n = 4`, `iso = 2` (chain reaches the two-qubit block: one inline leaf) and `iso = 1`
(it does not). -/
example : ugCnotsA2 true (inlineLeaves 4 2) (Uni.buildUnitary linkExOps Uni.Dec.qsd 4 2 []).1 = 68
    ∧ leaves2 (Uni.buildUnitary linkExOps Uni.Dec.qsd 4 2 []).1 = 11
    ∧ inlineLeaves 4 2 = 1 ∧ inlineLeaves 4 1 = 0
    ∧ leaves2 (Uni.buildUnitary linkExOps Uni.Dec.qsd 4 1 []).1 = 12 := by decide

/-- **C10 link (column-by-column isometry).**  For all `m ≤ n`: the schedule of the C03 model of `_ccd`
— per column `k < 2^m` and bit `i < n` a multi-controlled gate on `Iso.mcWires n k i` exactly when
`Iso.hasMcg k i`, then the uniformly controlled gate on `Iso.ucWires n i`, finally the diagonal on `m`
wires; the definitions `C03_ccd_schedule` / `C03_ccd_code` reason with — is, object for object and with
the same number of controls on every object, the shape `Cnot.ccdShape n m` of `C10_ccd` (which is
written with the generated `_k_s`, `_b` and the Python string `f"{k:0{n}b}"`); step `(k, i)` costs
`2^c − 1` for the multi-controlled gate on the `c` one-bits of `k_bin` it is controlled on, plus
`2^(n−i−1) − 1`; hence the double loop `_cnot_count_estimate_ccd` generated from the source equals
the `Prim.cost`-count of the C03 schedule. -/
theorem C10_link_ccd (n m : Nat) (hm : m ≤ n) :
    ccdSched n m = ccdShape n m ∧
    (∀ k i, raw (ccdStep n k i)
      = (if Iso.hasMcg k i then 2 ^ (Iso.mcCtrls n k i).length - 1 else 0) + (2 ^ (n - i - 1) - 1)) ∧
    isometry.cnot_count_estimate_ccd (n : Int) (m : Int) = (raw (ccdSched n m) : Int) := by
  refine ⟨ccd_link n m hm, fun k i => raw_ccdStep n k i, ?_⟩
  rw [ccd_link n m hm]; exact C10_ccd n m

example : raw (ccdSched 3 1) = 10 ∧ raw (ccdSched 4 2) = 57
    ∧ ccdStep 3 1 1 = [Prim.ucgd 1, Prim.ucgd 1] ∧ Iso.hasMcg 1 1 = true := by decide

end Qclib
