import QclibModel.Props.C05
import QclibModel.Proofs.McsuFullWf
/-
  C05 — corollaries: the synthesized multi-controlled X circuits are involutions.
  Applying the same gate twice is the identity on every state (borrowed qubits included), for
  every size, pattern and wire layout: this is what lets the library use the very same V-chain /
  linear MCX to un-compute (Ldmcsu brackets, PQM, sparse preparations) without building an inverse.
  Property theorems only; `Mcsu.mcxIdeal_invol` is in Proofs/McsuFullWf.lean.
-/
namespace Qclib
open RotSem

variable {Θ R : Type} [AddCommGroup Θ] [CommRing R] [RotSem Θ R] [RotLaws Θ R]

theorem patLits_avoid (k nt : Nat) (c t : Nat → Nat) (cs : Option (List Bool))
    (hct : ∀ i j, i < k → j < nt → c i ≠ t j) :
    ∀ cv ∈ patLits k c cs, cv.1 ∉ (List.range nt).map t := by
  intro cv hcv hmem
  simp only [patLits, List.mem_map, List.mem_range] at hcv hmem
  obtain ⟨i, hi, rfl⟩ := hcv
  obtain ⟨j, hj, hjt⟩ := hmem
  exact hct i j hi hj hjt.symm

/-- **C05 (V-chain is an involution).** For every `k`, number of targets, pattern and injective
layout: the circuit applied twice is the identity on every state. -/
theorem C05_vchain_involution (o : McxAngles Θ) (hp : Pi8 R o) (k nt : Nat) (c a t : Nat → Nat)
    (L : VLayout k nt c a t) (cs : Option (List Bool)) (circ : Circ Θ)
    (h : vchainW o k nt c a t cs false false = some circ) (ψ : State R) :
    sem (circ ++ circ) ψ = ψ := by
  have e : sem (circ ++ circ) ψ = sem circ (sem circ ψ) := by simp [sem, List.foldl_append]
  rw [e, C05_vchain o hp k nt c a t L cs circ h, C05_vchain o hp k nt c a t L cs circ h]
  exact Mcsu.mcxIdeal_invol _ _ (patLits_avoid k nt c t cs L.hct) ψ

/-- **C05 (linear-depth MCX is an involution).** -/
theorem C05_linear_involution (o : McxAngles Θ) (hp : Pi8 R o) (k : Nat) (cs : Option (List Bool))
    (circ : Circ Θ) (h : linearMcx o k cs false = some circ) (ψ : State R) :
    sem (circ ++ circ) ψ = ψ := by
  have e : sem (circ ++ circ) ψ = sem circ (sem circ ψ) := by simp [sem, List.foldl_append]
  rw [e, C05_linear o hp k cs circ h, C05_linear o hp k cs circ h]
  refine Mcsu.mcxIdeal_invol _ _ ?_ ψ
  intro cv hcv hmem
  simp only [patLits, List.mem_map, List.mem_range] at hcv
  obtain ⟨i, hi, rfl⟩ := hcv
  simp at hmem
  omega

end Qclib
