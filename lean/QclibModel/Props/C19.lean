import QclibModel.Proofs.BlackBox
import QclibModel.Proofs.BlackBoxReal
import QclibModel.Proofs.BlackBoxRot
import QclibModel.Proofs.BlackBoxFinal
/-
  C19 — black-box (amplitude amplification) state preparation: after `r` rounds the flag-0 branch
  is `sin((2r+1)θ)` times the target vector.  Property theorems only; proofs live in
  Proofs/BlackBox*.lean.

  Wires: 0 = flag, `1..n` = index register (wire `i+1` = bit `i` of `k`).
-/
namespace Qclib
open RotSem BlackBox Complex

/-- **C19 (oracle, one amplitude).**  For every complex `a` with `|a| ≤ 1` (the boundary values
`|a| = 0` and `|a| = 1` included): `RY(2·arccos|a|)` followed by `RZ(−2·arg a)` sends the flag's
`|0⟩` to a vector whose 0-component is exactly `a` (modulus and phase) and whose 1-component has
modulus `√(1 − |a|²)`.  (Column 0 of the matrix product is the image of `|0⟩`.) -/
theorem C19_oracle (a : ℂ) (h : ‖a‖ ≤ 1) :
    ((matRZ (phiOf a) * matRY (thetaOf a) : Mat2 ℂ).a = a) ∧
    ‖(matRZ (phiOf a) * matRY (thetaOf a) : Mat2 ℂ).c‖ = Real.sqrt (1 - ‖a‖ ^ 2) := by
  constructor
  · show RotSem.exb (phiOf a) * RotSem.cs (thetaOf a) + 0 * RotSem.sn (thetaOf a) = a
    rw [zero_mul, add_zero]; exact oracle_flag0 a h
  · show ‖(0 : ℂ) * RotSem.cs (thetaOf a) + RotSem.ex (phiOf a) * RotSem.sn (thetaOf a)‖ = _
    rw [zero_mul, zero_add]; exact oracle_flag1_norm a

example : ‖(Complex.I : ℂ)‖ ≤ 1 := by simp

/-- **C19 (oracle circuit, all n).**  For every `n` and every amplitude list with `|a_k| ≤ 1`
(`k < 2^n`), the circuit `U` of the model — with the angle lists the model computes over ℝ from the
real and imaginary parts, `theta = 2·arccos(clip|a_k|)`, `phi = −2·angle(a_k)` — applied to
`|0…0⟩` yields, on the label carrying `k` on wires `1..n`:
flag 0 ↦ exactly `2^{-n/2}·a_k`; flag 1 ↦ an amplitude of modulus `2^{-n/2}·√(1−|a_k|²)`;
and amplitude 0 on every label with a wire above `n` set. -/
theorem C19_oracle_circuit (n : Nat) (re im : Nat → ℝ)
    (h : ∀ k, k < 2 ^ n → ‖(⟨re k, im k⟩ : ℂ)‖ ≤ 1) (b : Bits) :
    let out : State ℂ :=
      bsem (gateU n (BlackBox.theta realTrig re im) (BlackBox.phi realTrig re im)) zeroState
    let a : ℂ := ⟨re (ctrlIdx n b), im (ctrlIdx n b)⟩
    (ZeroAbove n b → b 0 = false → out b = (((Real.sqrt 2)⁻¹ : ℝ) : ℂ) ^ n * a) ∧
    (ZeroAbove n b → b 0 = true → ‖out b‖ = (Real.sqrt 2)⁻¹ ^ n * Real.sqrt (1 - ‖a‖ ^ 2)) ∧
    (¬ ZeroAbove n b → out b = 0) := by
  intro out a
  have hk := h _ (ctrlIdx_lt n b)
  have hout : out b = uState n (BlackBox.theta realTrig re im) (BlackBox.phi realTrig re im) b := by
    show bsem _ _ b = _
    rw [gateU_zeroState]
  have hrh : (RotSem.rh ℝ : ℂ) = (((Real.sqrt 2)⁻¹ : ℝ) : ℂ) := rfl
  rw [hout]
  simp only [uState, theta_real re im _ hk, phi_real, hrh]
  unfold ZeroAbove
  refine ⟨fun hz h0 => ?_, fun hz h1 => ?_, fun hz => ?_⟩
  · rw [if_pos hz, h0]
    simp only [Bool.false_eq_true, if_false]
    rw [oracle_flag0 _ hk]
  · rw [if_pos hz, h1]
    simp only [if_true]
    rw [norm_mul, oracle_flag1_norm, norm_pow, Complex.norm_real,
      Real.norm_of_nonneg (inv_nonneg.mpr (Real.sqrt_nonneg 2))]
  · rw [if_neg hz]

example : ∀ k, k < 2 ^ 1 → ‖(⟨(fun k => if k = 0 then (0.6 : ℝ) else 0) k,
    (fun k => if k = 0 then 0 else (-0.8 : ℝ)) k⟩ : ℂ)‖ ≤ 1 := by
  intro k _
  rw [Complex.norm_def, Complex.normSq_mk]
  rw [Real.sqrt_le_one]
  by_cases hk : k = 0 <;> simp [hk] <;> norm_num

/-- **C19 (the coded reflections, all n).**  Over any commutative ring, for every state `ψ` and
label `b`: the coded `I_t` (`UnitaryGate([[-1,0],[0,1]])` on the flag wire 0) multiplies the
amplitude by `−1` on flag 0 and `+1` on flag 1, i.e. it is `I − 2·P_{flag=0}`; the coded `I_s`
(`I_t.control(n, ctrl_state=0)`, controls wires `0..n-1`, target wire `n`) multiplies by `−1`
exactly the labels whose wires `0..n` all read 0 — on states supported on `ZeroAbove n` this is
`I − 2|0…0⟩⟨0…0|`. -/
theorem C19_reflections {Θ R : Type} [Neg Θ] [CommRing R] [RotSem Θ R] (n : Nat) (ψ : State R)
    (b : Bits) :
    bdenote (BG.it 0 : BG Θ) ψ b = (if b 0 then 1 else -1) * ψ b ∧
    bdenote (BG.is n : BG Θ) ψ b = (if ∀ i, i ≤ n → b i = false then -1 else 1) * ψ b :=
  ⟨denote_it 0 ψ b, denote_is n ψ b⟩

/-- **C19 (rotation, all r).**  In the `(G, B)` coefficient plane (`G` = normalised flag-0
component `|v⟩|0⟩`, `B` = normalised flag-1 component of `ψ = U|0…0⟩ = sin θ·G + cos θ·B`), let
`refT = diag(−1, 1)` be what `I_t` does (`I − 2|G⟩⟨G|`) and `refS θ = I − 2|ψ⟩⟨ψ|` what `U·I_s·U†`
does.  Then one loop pass `refS θ ∘ refT` is `−1 ×` the rotation by `2θ`, and after `r` passes
starting from `ψ` the coefficients are `(−1)^r·(sin((2r+1)θ), cos((2r+1)θ))` — for every real `θ`
and every `r`. -/
theorem C19_rotation (θ : ℝ) (r : Nat) :
    (∀ p : ℝ × ℝ, roundStep θ p
        = (-(Real.cos (2 * θ) * p.1 + Real.sin (2 * θ) * p.2),
           -(-(Real.sin (2 * θ)) * p.1 + Real.cos (2 * θ) * p.2))) ∧
    (roundStep θ)^[r] (Real.sin θ, Real.cos θ)
      = ((-1) ^ r * Real.sin ((2 * r + 1) * θ), (-1) ^ r * Real.cos ((2 * r + 1) * θ)) :=
  ⟨roundStep_matrix θ, rounds_closed θ r⟩

example : (roundStep (Real.pi / 6))^[1] (Real.sin (Real.pi / 6), Real.cos (Real.pi / 6))
    = ((-1) ^ 1 * Real.sin ((2 * (1 : Nat) + 1) * (Real.pi / 6)),
       (-1) ^ 1 * Real.cos ((2 * (1 : Nat) + 1) * (Real.pi / 6))) :=
  (C19_rotation (Real.pi / 6) 1).2

/-- **C19 (unitarity and linearity of the modelled circuit).**  Over any commutative ring with the
rotation laws, for every `n`, all angle lists and every state: `U†∘U = id`, `U∘U† = id`
(`U† = gateUdg`, the list the code obtains from `gate_u.inverse()`), and every gate list acts
linearly.  These are the facts that turn the two proved reflections into the plane recurrence. -/
theorem C19_unitary {Θ R : Type} [AddCommGroup Θ] [CommRing R] [RotSem Θ R] [RotLaws Θ R]
    (n : Nat) (θ φ : Nat → Θ) (ψ χ : State R) (x y : R) (c : List (BG Θ)) :
    bsem (gateUdg n θ φ) (bsem (gateU n θ φ) ψ) = ψ ∧
    bsem (gateU n θ φ) (bsem (gateUdg n θ φ) ψ) = ψ ∧
    bsem c (lin x ψ y χ) = lin x (bsem c ψ) y (bsem c χ) :=
  ⟨gateUdg_gateU n θ φ ψ, gateU_gateUdg n θ φ ψ, bsem_lin c x y ψ χ⟩

/-- **C19 (whole circuit, all n, all r, all unit vectors).**  For every `n`, every number of loop
passes `r` and every amplitude list with `Σ_{k<2^n} |a_k|² = 1` (zero amplitudes and amplitudes of
modulus one included), the model circuit — angle lists computed as the code does
(`theta = 2·arccos(clip|a_k|)`, `phi = −2·angle(a_k)`, evaluated over ℝ), `r` passes of
`U; I_t; U†; I_s`, the final `U`, and the global phase `π` iff `r` is odd — applied to `|0…0⟩`
gives on every label `b` that is zero above wire `n`:
* flag (wire 0) = 0: exactly `sin((2r+1)θ)·a_k`, `θ = arcsin(2^{-n/2})`, `k` the index on wires `1..n`
  (phases included, no global-phase ambiguity);
* flag = 1: the flag-1 amplitude of `U|0…0⟩` rescaled by `cos((2r+1)θ)/cos θ` (stated without the
  division), so the rest of the norm lies on the flag-1 branch.
With `r = ⌊π√N/4⌋` from `C19_r` this is the property.  No hypothesis other than normalisation. -/
theorem C19_amplification (n r : Nat) (re im : Nat → ℝ)
    (hnorm : ∑ k ∈ Finset.range (2 ^ n), Complex.normSq ⟨re k, im k⟩ = 1) (b : Bits) :
    let out : State ℂ :=
      bsem (circuit n r (BlackBox.theta realTrig re im) (BlackBox.phi realTrig re im)) zeroState
    let θ₀ : ℝ := Real.arcsin ((Real.sqrt 2)⁻¹ ^ n)
    (ZeroAbove n b → b 0 = false →
      out b = (Real.sin ((2 * r + 1) * θ₀) : ℂ) * ⟨re (ctrlIdx n b), im (ctrlIdx n b)⟩) ∧
    (b 0 = true →
      out b * (Real.cos θ₀ : ℂ) = (Real.cos ((2 * r + 1) * θ₀) : ℂ)
        * bsem (gateU n (BlackBox.theta realTrig re im) (BlackBox.phi realTrig re im))
            (zeroState : State ℂ) b) :=
  ⟨fun hz h0 => amplification_full n r re im hnorm b hz h0,
   fun h1 => amplification_flag1 n r re im hnorm b h1⟩

/-- **C19 (sign).**  The circuit is its gate list times `−1` iff `r` is odd (the coded
`global_phase = π`, and `e^{iπ} = −1`), and this factor cancels the `(−1)^r` of `C19_rotation`. -/
theorem C19_sign {Θ R : Type} [Neg Θ] [CommRing R] [RotSem Θ R] (n r : Nat) (θ φ : Nat → Θ)
    (ψ : State R) :
    bsem (circuit n r θ φ) ψ = scale (if r % 2 = 1 then -1 else 1) (bsem (core n r θ φ) ψ) ∧
    ((if r % 2 = 1 then -1 else 1 : ℝ) * (-1) ^ r = 1) ∧
    Complex.exp (Real.pi * Complex.I) = -1 := by
  refine ⟨circuit_eq_core n r θ φ ψ, ?_, Complex.exp_pi_mul_I⟩
  rcases Nat.even_or_odd r with he | ho
  · have : ¬ r % 2 = 1 := by have := Nat.even_iff.mp he; omega
    rw [if_neg this, he.neg_one_pow]; norm_num
  · rw [if_pos (Nat.odd_iff.mp ho), ho.neg_one_pow]; norm_num

/-- **C19 (repetitions).**  For a vector of `N = 2^n` amplitudes with `Σ|a_k|² = 1` the model's
repetition count, evaluated over ℝ, is `⌊π·√N / 4⌋`. -/
theorem C19_r (n : Nat) (re im : Nat → ℝ)
    (hnorm : ∑ k ∈ Finset.range (2 ^ n), Complex.normSq ⟨re k, im k⟩ = 1) :
    BlackBox.reps realTrig (2 ^ n) re im = ⌊Real.pi * Real.sqrt ((2 ^ n : Nat) : ℝ) / 4⌋₊ := by
  rw [reps_real, normV_real, hnorm, Real.sqrt_one, div_one]
  congr 1; ring

example : ∑ k ∈ Finset.range (2 ^ 1),
    Complex.normSq ⟨(fun k => if k = 0 then (0.6 : ℝ) else 0) k,
      (fun k => if k = 0 then 0 else (-0.8 : ℝ)) k⟩ = 1 := by
  simp [Finset.sum_range_succ, Complex.normSq_mk]; norm_num

end Qclib
