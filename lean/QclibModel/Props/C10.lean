import QclibModel.Proofs.CnotUnitary
import QclibModel.Proofs.CnotCcd
import QclibModel.Proofs.CnotLowrank
import QclibModel.Proofs.CnotBits
/-
  C10 — CNOT-cost estimates match the circuits actually synthesised.
  Property theorems only; helper lemmas live in Proofs/Cnot*.lean.

  Every left-hand side is a definition of `Gen/CnotCount.lean`, which is RE-GENERATED from
  qclib/unitary.py, qclib/isometry.py, qclib/state_preparation/lowrank.py on every run: editing a
  coefficient, a base case or an index of those Python functions makes these proofs stop compiling.
  Every right-hand side is the structural count `cnotsOf` / `raw` of `Model/CnotShape.lean`, the
  recursion shape of the synthesis code with qiskit's per-object CNOT cost (tied to the real circuits
  and to `transpile` by tools/props/c10.py).
-/
namespace Qclib
open Qclib.Py Qclib.Cnot Qclib.Gen.CnotCount

/-- **C10 (QSD).** For every number of qubits `n ≥ 1` and both settings of `apply_a2`, the closed form
`_cnot_count_estimate(U, "qsd", iso=0, apply_a2)` — with A.2 `⌈23/48·4^n − 3/2·2^n + 4/3⌉`, without it
that plus `4^(n−2) − 1` — equals the structural CNOT count of `build_unitary(U, "qsd")`: two half-size
`_qsd` pairs (each two recursive blocks and a `UCRZ` of `2^(n−1)` CNOTs) around a `UCRY` with `CZ`
and no last entangler (`2^(n−1) − 1`), two-qubit blocks at 3 CNOTs, A.2 saving one CNOT on every
two-qubit block but the last.  (The ceiling is exact: the numerator is `48·count`.) -/
theorem C10_qsd (n : Nat) (hn : 1 ≤ n) (a2 : Bool) :
    unitary.cnot_count_estimate ((2 ^ n : Nat) : Int) "qsd" 0 a2 = (unitaryCnots Dec.qsd n 0 a2 : Int) := by
  rw [est_qsd_all n hn a2]
  cases a2 <;> rfl

example : unitary.cnot_count_estimate ((2 ^ 4 : Nat) : Int) "qsd" 0 true = (100 : Nat) :=
  (C10_qsd 4 (by decide) true).trans (congrArg Nat.cast (by decide : unitaryCnots Dec.qsd 4 0 true = 100))
example : unitaryCnots Dec.qsd 3 0 false = 23 := by decide

/-- **C10 (CSD).** For every `n ≥ 1`, `_cnot_count_estimate(U, "csd")` (`4^n − 2·2^n − 1`; `apply_a2` is
ignored, as `unitary()` ignores it for CSD) equals the structural count of `build_unitary(U, "csd")`:
recursive multiplexed cosine-sine splitting down to `UCGate`s on all `n` qubits (`2^(n−1) − 1` CNOTs
plus a `DiagonalGate` of `2^n − 2`), `UCRY`s of `2^(n−1)`, one `UCRY`-with-`CZ` of `2^(n−1) − 1`. -/
theorem C10_csd (n : Nat) (hn : 1 ≤ n) (a2 : Bool) :
    unitary.cnot_count_estimate ((2 ^ n : Nat) : Int) "csd" 0 a2 = (unitaryCnots Dec.csd n 0 a2 : Int) := by
  rw [est_csd_all n hn a2]
  rfl

example : unitary.cnot_count_estimate ((2 ^ 4 : Nat) : Int) "csd" 0 true = (223 : Nat) :=
  (C10_csd 4 (by decide) true).trans (congrArg Nat.cast (by decide : unitaryCnots Dec.csd 4 0 true = 223))

/-- **C10 (isometry mode).** For every `n ≥ 1` and every `iso ≥ 1` (also `iso ≥ n`), with diagonal
merging (A.2) on — the only way the library uses isometry mode — the recurrence `_cnot_count_iso`
plus the closing `+1` equals the structural count of `build_unitary(U, "qsd", iso)` after `_apply_a2`:
the left block of each isometry level is composed inline (its two-qubit block is a plain `unitary`,
3 CNOTs, invisible to A.2), everything else as in `C10_qsd`. -/
theorem C10_iso (n iso : Nat) (hn : 1 ≤ n) (hiso : 1 ≤ iso) :
    unitary.cnot_count_estimate ((2 ^ n : Nat) : Int) "qsd" (iso : Int) true
      = (unitaryCnots Dec.qsd n iso true : Int) := by
  rw [est_iso_all n iso hn hiso]
  rfl

example : unitary.cnot_count_estimate ((2 ^ 4 : Nat) : Int) "qsd" ((2 : Nat) : Int) true = (68 : Nat) :=
  (C10_iso 4 2 (by decide) (by decide)).trans (congrArg Nat.cast (by decide : unitaryCnots Dec.qsd 4 2 true = 68))

/-- **C10 (column-by-column).** For ALL `n` and `m` (also `m > n`), the double loop
`_cnot_count_estimate_ccd(n, m)` equals the structural count of the schedule `_ccd` emits: per column
`k < 2^m` and bit `i < n` an optional multi-controlled gate (a `UCGate` up to diagonal on the
positions where `k_bin` is `'1'`, `2^c − 1` CNOTs) when `_k_s(k,i) = 0 ∧ _b(k,i+1) ≠ 0`, then a
`UCGate` up to diagonal with `n−i−1` controls, and the closing `DiagonalGate` (`2^m − 2`) when `m > 0`.
For `m = n` (full unitary) the real circuit is smaller (qiskit drops controls a multiplexer does not
depend on): there the estimate is the upper bound the property states — that part is tested, not proved. -/
theorem C10_ccd (n m : Nat) :
    isometry.cnot_count_estimate_ccd (n : Int) (m : Int) = (raw (ccdShape n m) : Int) :=
  est_ccd n m

example : isometry.cnot_count_estimate_ccd ((3 : Nat) : Int) ((1 : Nat) : Int) = (10 : Nat) :=
  (C10_ccd 3 1).trans (congrArg Nat.cast (by decide : raw (ccdShape 3 1) = 10))

/-- **C10 (low rank).** For every `n`, partition size `1 ≤ p < n`, Schmidt rank `2^e` (`e ≤ min p (n−p)`,
after the `low_rank` cut), isometry scheme `ccd`/`csd` and unitary scheme `qsd`/`csd`, the phase-by-phase
sum of `lowrank.cnot_count(…, "estimate")` (singular values, `e` CNOTs, `U`, `Vᵀ`, each dispatched on its
shape exactly as `_cnots`) equals the sum of the structural counts of the components
`LowRankInitialize._define_initialize` / `_encode` synthesise, nested state preparations included
(general position: nested states have full Schmidt rank).  `fuel` bounds the nesting depth; `n + 1` suffices. -/
theorem C10_lowrank (iso : IsoScheme) (uni : Dec) (fuel n p e : Nat)
    (hp : 1 ≤ p) (hpn : p < n) (he1 : e ≤ p) (he2 : e ≤ n - p) :
    lrEst iso uni fuel n p e = (compsCnots (lrComps iso uni fuel n p e) : Int) :=
  lrEst_eq iso uni fuel n p e (Or.inr ⟨hp, hpn, he1, he2⟩)

example : lrEst .ccd .qsd 5 4 2 2 = (compsCnots (lrComps .ccd .qsd 5 4 2 2) : Int) :=
  C10_lowrank .ccd .qsd 5 4 2 2 (by decide) (by decide) (by decide) (by decide)
example : compsCnots (lrComps .ccd .qsd 5 4 2 2) = 9 := by decide

/-- **C10 (bit helpers).** The generated `_a`, `_b`, `_k_s` are `k >> i`, `k mod 2^i` and bit `i` of `k`
for all `k, i ≥ 0` — the meaning `_g_k`'s schedule and the estimate both rely on. -/
theorem C10_bits (k i : Nat) :
    isometry.a (k : Int) (i : Int) = ((k / 2 ^ i : Nat) : Int)
    ∧ isometry.b (k : Int) (i : Int) = ((k % 2 ^ i : Nat) : Int)
    ∧ isometry.k_s (k : Int) (i : Int) = (((k / 2 ^ i) % 2 : Nat) : Int) :=
  ⟨a_eq k i, b_eq k i, k_s_eq k i⟩

example : isometry.k_s ((6 : Nat) : Int) ((1 : Nat) : Int) = ((1 : Nat) : Int) := (C10_bits 6 1).2.2

end Qclib
