import QclibModel.Model.CnotShape
namespace Qclib
theorem C10_stub : True := trivial
end Qclib
