import QclibModel.Proofs.SchmidtIndex
import QclibModel.Proofs.SchmidtRank
import QclibModel.Proofs.SchmidtAlg
import QclibModel.Proofs.SchmidtOptimalState
import QclibModel.Proofs.SchmidtRankSrc
/-
  C07 — low-rank preparation yields the normalised truncation of the Schmidt decomposition to
  `r'` terms, `r'` the least power of two `≥ min(r, Schmidt rank)`.   (PARTIAL)

  Full statement of the property (kept visible; only the parts named below are theorems):

    for every unit vector `v`, every bipartition `P` and every requested rank `r`,
    `LowRankInitialize(v, {lr: r, partition: P})` prepares
        `undo( U[:, :r'] · diag(s[:r'] / ‖s[:r']‖) · V[:r', :] )`,
    its fidelity with `v` is `Σ_{i<r'} s_i²`, no state of Schmidt rank `≤ r'` has a larger one,
    and it equals `v` when `r' ≥` Schmidt rank.

  Proved here, for every size (about the model `Model/Schmidt.lean`, tied to the code by the
  harness): the rank rule (`C07_rank_rule`), the overlap / norms of the truncation under the SVD
  specification (`C07_fidelity`), exactness (`C07_exact_when_full`), the Plesch assembly algebra
  (`C07_assembly`) and that for every duplicate-free partition list, in any order, the registers `reg_b`, `reg_a`
  carry exactly the row / column bits of the reshape (`C07_placement`; the code sorts the list
  before forming the registers).

  Added later (end of file): Eckart–Young–Mirsky for overlaps IS proved over `ℝ`/`ℂ`
  (`C07_optimal_rank1`, `C07_optimal`): under the SVD specification no matrix of rank `≤ r'` and
  Frobenius norm 1 has a larger squared overlap with the target than `Σ_{i<r'} s_i²`, the value
  the prepared truncation attains (`C07_fidelity`).

  NOT proved (hypotheses / cited):
  * `np.linalg.svd` (`hsvd`, `hU`, `hV`, `hs`) and the gate-level encoders (`decompose_isometry`,
    `decompose_unitary`, nested state preparation: properties C01–C03) are K4 hypotheses; the
    step "the circuit's matrix on (reg_b, reg_a) is `Σ_j U[:,j] t_j V[j,:]`" is `C07_assembly` given
    those encoders; both are validated end-to-end by the Statevector oracle.
-/
namespace Qclib
open Qclib.Schmidt

/-- **C07 (source tie, rank rule).**  The rank `low_rank_approximation` returns, as re-translated on
every run from the current source of `qclib/entanglement.py` (`Gen/SchmidtRank.lean`: `_effective_rank`
with its `10**-7` threshold as the exact binary64 value `pyThreshold`, then the cap by the requested
rank and `int(2 ** ceil(log2(·)))`), is the hand model `rankRule (effRank …)` that `C07_rank_rule`
speaks about — for every requested rank and every list of singular values with at least one above the
threshold (otherwise Python raises and the model says `none`).  Same generated module as
`C09_rank_src`; an edit of the threshold, the cap or the rounding breaks this proof. -/
theorem C07_rank_src (lowRank : Int) (s : List Rat) (h : effRank pyThreshold s ≠ 0) :
    rankRule lowRank (effRank pyThreshold s)
      = some (Gen.SchmidtRank.low_rank_rank lowRank s).toNat := by
  have := rankRule_src lowRank s h
  cases hr : rankRule lowRank (effRank pyThreshold s) with
  | none => rw [hr] at this; simp at this
  | some r =>
    rw [hr] at this
    simp only [Option.map_some, Option.some.injEq] at this
    rw [← this]; simp

example : effRank pyThreshold [1, 1/2, 1/4] ≠ 0 := by decide

/-- **C07 (rank rule).**  For a requested rank `r : ℕ` and `eff` singular values above the
threshold, `low_rank_approximation` returns `r'` = the least power of two `≥ m`, where `m = eff` if
`r = 0` and `m = min r eff` otherwise; `r' ≤ 2^b` whenever `eff ≤ 2^b` (so `r' ≤ min(rows, cols)`);
the number of e-bits satisfies `2^ebits = r'`; and for non-increasing singular values, if
`r' ≥ eff` every dropped value `s[i]`, `i ≥ r'`, is `≤` the threshold. -/
theorem C07_rank_rule (r eff r' : Nat) (h : rankRule (r : Int) eff = some r') :
    let m := if r = 0 then eff else min r eff
    0 < m ∧ (∃ k, r' = 2 ^ k) ∧ m ≤ r' ∧ (∀ k, m ≤ 2 ^ k → r' ≤ 2 ^ k) ∧
    (∀ b, eff ≤ 2 ^ b → r' ≤ 2 ^ b) ∧ 2 ^ toQubits r' = r' ∧
    (∀ {α : Type} [LinearOrder α] (thr : α) (s : List α),
        List.Pairwise (fun a b => b ≤ a) s → effRank thr s = eff → eff ≤ r' →
        ∀ i (hi : i < s.length), r' ≤ i → s[i] ≤ thr) := by
  obtain ⟨hpos, hr⟩ := rankRule_some h
  rw [cappedRank_nat] at hpos hr
  subst hr
  refine ⟨hpos, ⟨_, rfl⟩, le_clp2 _, fun k hk => clp2_le_of_le_pow hk, fun b hb => ?_, ?_, ?_⟩
  · apply clp2_le_of_le_pow
    split <;> omega
  · show clp2 (clp2 _) = clp2 _
    exact clp2_pow2 _
  · intro α _ thr s hs heff hle i hi hri
    exact effRank_sorted_tail thr s hs i (by omega) hi

example : rankRule (3 : Nat) 6 = some 4 := by decide
example : rankRule (0 : Nat) 6 = some 8 := by decide

section Field
variable {K : Type} [Field K] [StarRing K]

/-- **C07 (fidelity).**  Let the bipartition matrix of the target be `M = Σ_{i<k} u_i s_i v_i` with
orthonormal `u_i` (columns of `U`, `rows` entries) and `v_i` (rows of `V`, `cols` entries) and real
coefficients, let `r ≤ k`, `N·N = Σ_{i<r} s_i²`, `N ≠ 0`, `N` real, and let
`T = Σ_{i<r} u_i (s_i/N) v_i` be the renormalised truncation the code assembles.  Then
`⟨M,T⟩ = N`, hence `|⟨M,T⟩|² = Σ_{i<r} s_i²`; `⟨T,T⟩ = 1`; `⟨M,M⟩ = Σ_{i<k} s_i²`.  So the
fidelity is `Σ_{i<r} s_i² / Σ_{i<k} s_i²` (`= Σ_{i<r} s_i²` for a unit target). -/
theorem C07_fidelity (rows cols k r : Nat) (hle : r ≤ k) (U : Nat → Nat → K) (s : Nat → K)
    (V : Nat → Nat → K) (N : K)
    (hU : ∀ i j, i < k → j < k → gramCols rows U i j = if i = j then 1 else 0)
    (hV : ∀ i j, i < k → j < k → gramRows cols V i j = if i = j then 1 else 0)
    (hs : ∀ i, star (s i) = s i) (hNs : star N = N) (hN : N ≠ 0)
    (hNN : N * N = sumTo r (fun i => s i * s i)) :
    let M := composeMat k U s V
    let T := composeMat r U (renorm N s) V
    inner2 star rows cols M T = N ∧
    star (inner2 star rows cols M T) * inner2 star rows cols M T = sumTo r (fun i => s i * s i) ∧
    inner2 star rows cols T T = 1 ∧
    inner2 star rows cols M M = sumTo k (fun i => s i * s i) := by
  have h1 := overlap_truncation rows cols k r hle U s V N hU hV hs hN hNN
  refine ⟨h1, ?_, norm_truncation rows cols k r hle U s V N hU hV hs hNs hN hNN,
    norm_target rows cols k U s V hU hV hs⟩
  rw [h1, hNs, hNN]

omit [StarRing K] in
/-- **C07 (exact when the rank reaches the Schmidt rank).**  If the coefficients dropped by the
rank rule vanish, the prepared vector `undo(U[:, :r'] diag(s/N) V[:r', :])` is `v / N` entry by
entry — the input itself for a unit vector (`N = 1`). -/
theorem C07_exact_when_full (n : Nat) (P : List Int) (src : List Nat) (h : sepAxes n P = some src)
    (v : Nat → K) (k rank : Nat) (U : Nat → Nat → K) (s : Nat → K) (V : Nat → Nat → K) (N : K)
    (hsvd : ∀ r c, r < 2 ^ (n - src.length) → c < 2 ^ src.length →
      sepMat n src v r c = sumTo k (fun i => U r i * s i * V i c))
    (hle : rank ≤ k) (hzero : ∀ i, rank ≤ i → i < k → s i = 0) (i : Nat) (hi : i < 2 ^ n) :
    schmidtCompose n src rank U (renorm N s) V i = v i / N ∧
    (N = 1 → schmidtCompose n src rank U (renorm N s) V i = v i) := by
  have hc := compose_correct (sepAxes_valid h) v k rank U s V hsvd hle hzero i hi
  have h1 : schmidtCompose n src rank U (renorm N s) V i = v i / N := by
    simp only [schmidtCompose, undoVec] at hc ⊢
    rw [composeMat_renorm, hc]
  exact ⟨h1, fun hN => by rw [h1, hN, div_one]⟩

end Field

/-- Non-vacuity of `C07_exact_when_full`: the all-ones vector on two qubits, partition `[0]`, two
terms of which the second has coefficient 0 and is dropped. -/
example {K : Type} [Field K] (i : Nat) (hi : i < 2 ^ 2) :
    schmidtCompose 2 [0] 1 (fun _ _ => (1 : K)) (renorm 1 (fun i => if i = 0 then 1 else 0))
      (fun _ _ => 1) i = (fun _ => (1 : K)) i :=
  (C07_exact_when_full 2 [0] [0] (by decide) (fun _ => 1) 2 1 _ _ _ 1
    (by intro r c _ _; simp [sepMat, sumTo]) (by decide)
    (by intro i h1 h2; have : i = 1 := by omega
        subst this; simp) i hi).2 rfl

/-- Non-vacuity of the hypotheses of `C07_fidelity`: in any field with conjugation, `U = V = I₂`,
`s = (1, 0)`, `k = 2`, `r = 1`, `N = 1` (the target `|00⟩`, truncated to one term). -/
example {K : Type} [Field K] [StarRing K] :
    inner2 star 2 2
      (composeMat 2 (fun r i => if r = i then (1 : K) else 0) (fun i => if i = 0 then 1 else 0)
        (fun i c => if i = c then 1 else 0))
      (composeMat 1 (fun r i => if r = i then (1 : K) else 0)
        (renorm 1 (fun i => if i = 0 then 1 else 0)) (fun i c => if i = c then 1 else 0)) = 1 := by
  refine (C07_fidelity (K := K) 2 2 2 1 (by omega) _ _ _ 1 ?_ ?_ ?_ (star_one K) one_ne_zero ?_).1
  · intro i j hi hj
    rcases (by omega : i = 0 ∨ i = 1) with rfl | rfl <;>
      rcases (by omega : j = 0 ∨ j = 1) with rfl | rfl <;> simp [gramCols, sumTo]
  · intro i j hi hj
    rcases (by omega : i = 0 ∨ i = 1) with rfl | rfl <;>
      rcases (by omega : j = 0 ∨ j = 1) with rfl | rfl <;> simp [gramRows, sumTo]
  · intro i; split <;> simp
  · simp [sumTo]

/-- **C07 (Plesch assembly).**  After phase 1–2 the amplitude on (`reg_b` reads `x`, `reg_a` reads
`y`) is `t_x` if `x = y < rank` and 0 otherwise; applying `U` on `reg_b` and `W = Vᵀ` on `reg_a`
gives at (`x'`, `y'`) the amplitude `Σ_{j<rank} U[x',j]·t_j·W[y',j]`, i.e. `composeMat rank U t V`
with `V[j,y'] = W[y',j]`. -/
theorem C07_assembly {R : Type} [CommRing R] (A B rank : Nat) (hA : rank ≤ A) (hB : rank ≤ B)
    (U W : Nat → Nat → R) (t : Nat → R) (x' y' : Nat) :
    sumTo A (fun x => sumTo B (fun y => U x' x * W y' y * (if x = y ∧ x < rank then t x else 0)))
      = composeMat rank U t (fun j y => W y j) x' y' :=
  assembly A B rank hA hB U W t x' y'

/-- **C07 (register placement).**  `partition` ANY duplicate-free list of qubits `< n`, in any
order.  The code sorts it (`_create_quantum_circuit`), decomposes across the sorted list `S`
(`sepAxes`), puts `U` on `reg_b` (gate qubit `m` ↦ `reg_b[m]`), `Vᵀ` on `reg_a = S[::-1]`, and
reverses the bits, after which circuit qubit `q` is bit `n-1-q` of the state-vector index `i`.  Then
bit `m` of the row index of `i` is the value of qubit `reg_b[m]` and bit `m` of its column index the
value of qubit `reg_a[m]`: the amplitude at `i` is the assembled matrix at `sepIndex i`, i.e. the
prepared vector is `undo(assembled matrix)` — for every `n` and every order of the list. -/
theorem C07_placement (n : Nat) (P : List Nat) (hd : P.Nodup) (hlt : ∀ a ∈ P, a < n)
    (lr : Int) (eff : Nat) (iso uni : String) (plan : Plan)
    (h : lowRankPlan n P lr eff iso uni = some plan) (i : Nat) :
    ∃ S, sepAxes n (P.map Int.ofNat) = some S ∧ S.Perm P ∧ List.Pairwise (· < ·) S ∧
    (∀ m (hm : m < plan.regB.length),
        (sepIndexAx n S i).1.testBit m = i.testBit (n - 1 - plan.regB[m])) ∧
    (∀ m (hm : m < plan.regA.length),
        (sepIndexAx n S i).2.testBit m = i.testBit (n - 1 - plan.regA[m])) ∧
    plan.regB.length = n - P.length ∧ plan.regA.length = P.length := by
  have hax := sepAxes_nat n P hd hlt
  have hv := sepAxes_valid hax
  have hperm := perm_isort (fun a b : Nat => decide (a ≤ b)) P
  have hs := pairwise_isort (fun a b : Nat => decide (a ≤ b))
    (fun a b c h1 h2 => by simp at *; omega) (fun a b => by simp; omega) P
  have hn : (isort (fun a b : Nat => decide (a ≤ b)) P).Nodup := hperm.nodup_iff.mpr hd
  unfold lowRankPlan at h
  split at h
  · cases h
  · cases h
    refine ⟨_, hax, hperm, (hs.and hn).imp (fun ⟨h1, h2⟩ => by simp at h1; omega),
      fun m hm => row_bit_rev hv i m hm, fun m hm => col_bit_rev hv i m hm, ?_, ?_⟩
    · simp [length_restAxes hv, hperm.length_eq]
    · simp [hperm.length_eq]

/-- Non-vacuity of `C07_placement`: three qubits, partition given as the unsorted list `[2, 0]`, no
rank limit, two coefficients: `reg_b = [1]`, `reg_a = [2, 0]` (= sorted `[0, 2]` reversed). -/
example : ∃ plan, lowRankPlan 3 [2, 0] 0 2 "ccd" "qsd" = some plan ∧ plan.regB = [1] ∧
    plan.regA = [2, 0] ∧ plan.rank = 2 ∧ plan.cxs = [(1, 2)] := ⟨_, rfl, by decide⟩

/-- The unsorted list `[1, 0]` on two qubits (the input on which the code was wrong before
`_create_quantum_circuit` sorted the partition): `reg_a = [1, 0]`, the reverse of the sorted list
`[0, 1]` the decomposition is taken across. -/
example : ∃ plan, lowRankPlan 2 [1, 0] 0 2 "ccd" "qsd" = some plan ∧ plan.regA = [1, 0] ∧
    sepAxes 2 [1, 0] = some [0, 1] := ⟨_, rfl, by decide⟩

/-! ## Added later: optimality of the truncation (Eckart–Young–Mirsky for overlaps) -/

section Optimal
variable {𝕜 : Type} [RCLike 𝕜]

/-- **C07 (no product state beats the rank-1 truncation).**  Scalars `ℝ` or `ℂ`.  Let the
bipartition matrix of the target be `M = Σ_{i<k} u_i s_i v_i` with orthonormal `u_i` (columns of
`U`), orthonormal `v_i` (rows of `V`) and real `s_0 ≥ s_1 ≥ … ≥ 0` (the SVD specification).  Then
for ALL vectors `a` (`rows` entries) and `b` (`cols` entries)
`|⟨M, a ⊗ b⟩|² ≤ s_0² ‖a‖² ‖b‖²`; in particular `≤ s_0²` for unit vectors — the value attained by
the prepared rank-1 truncation `u_0 ⊗ v_0` (`C07_fidelity` with `r = 1`).  Proof: Cauchy–Schwarz and
Bessel's inequality for the two orthonormal families. -/
theorem C07_optimal_rank1 (rows cols k : Nat) (U : Nat → Nat → 𝕜) (s : Nat → ℝ)
    (V : Nat → Nat → 𝕜)
    (hU : ∀ i j, i < k → j < k → gramCols rows U i j = if i = j then 1 else 0)
    (hV : ∀ i j, i < k → j < k → gramRows cols V i j = if i = j then 1 else 0)
    (hs : ∀ i j, i ≤ j → j < k → s j ≤ s i) (hs0 : ∀ i, i < k → 0 ≤ s i)
    (a b : Nat → 𝕜) :
    let M := composeMat k U (fun i => (s i : 𝕜)) V
    ‖inner2 star rows cols M (fun x y => a x * b y)‖ ^ 2
        ≤ s 0 ^ 2 * sumTo rows (fun x => ‖a x‖ ^ 2) * sumTo cols (fun y => ‖b y‖ ^ 2) ∧
    (sumTo rows (fun x => ‖a x‖ ^ 2) = 1 → sumTo cols (fun y => ‖b y‖ ^ 2) = 1 →
      ‖inner2 star rows cols M (fun x y => a x * b y)‖ ^ 2 ≤ s 0 ^ 2) := by
  intro M
  have h := optimal_rank1 rows cols k U V s hU hV hs hs0 a b
  rw [norm_inner2_symm] at h
  refine ⟨h, fun ha hb => ?_⟩
  rw [ha, hb, mul_one, mul_one] at h
  exact h

/-- **C07 (optimality: no state of Schmidt rank `≤ r` exceeds the truncation).**  Scalars `ℝ` or
`ℂ`, SVD specification as in `C07_optimal_rank1`, `r ≤ k`.  Let `T = Σ_{j<r} a_j ⊗ b_j` for
ARBITRARY vectors `a_j`, `b_j` (every `rows × cols` matrix of rank `≤ r`, i.e. every vector of
Schmidt rank `≤ r` across the bipartition, has this form).  Then
* `|⟨M, T⟩|² ≤ (Σ_{i<r} s_i²) · ‖T‖_F²`;
* hence `|⟨M, T⟩|² ≤ Σ_{i<r} s_i²` when `‖T‖_F = 1`;
* hence, with `N² = Σ_{i<r} s_i²`, `N ≠ 0`: `|⟨M, T⟩|² ≤ |⟨M, T*⟩|²` for the renormalised
  truncation `T* = Σ_{i<r} u_i (s_i/N) v_i` the library prepares (whose overlap is `N` by
  `C07_fidelity`).
Proof (`Proofs/SchmidtOptimal.lean`): orthonormalise the `a_j` (an orthonormal basis `ε_l`, `l < d ≤
r`, of their span), so `T = Σ_l ε_l ⊗ β_l` with `‖T‖_F² = Σ_l ‖β_l‖²`; Cauchy–Schwarz gives
`|⟨M,T⟩|² ≤ ‖T‖_F² · Σ_i s_i² w_i` with `w_i = Σ_l |⟨ε_l,u_i⟩|²`; Bessel twice gives `w_i ≤ 1`,
`Σ_i w_i ≤ d`; the water-filling inequality gives `Σ_i s_i² w_i ≤ Σ_{i<r} s_i²`. -/
theorem C07_optimal (rows cols k r : Nat) (hle : r ≤ k) (U : Nat → Nat → 𝕜) (s : Nat → ℝ)
    (V : Nat → Nat → 𝕜)
    (hU : ∀ i j, i < k → j < k → gramCols rows U i j = if i = j then 1 else 0)
    (hV : ∀ i j, i < k → j < k → gramRows cols V i j = if i = j then 1 else 0)
    (hs : ∀ i j, i ≤ j → j < k → s j ≤ s i) (hs0 : ∀ i, i < k → 0 ≤ s i)
    (a b : Nat → Nat → 𝕜) :
    let M := composeMat k U (fun i => (s i : 𝕜)) V
    let T := sumOuter r a b
    let frob := sumTo rows (fun x => sumTo cols (fun y => ‖T x y‖ ^ 2))
    ‖inner2 star rows cols M T‖ ^ 2 ≤ sumTo r (fun i => s i ^ 2) * frob ∧
    (frob = 1 → ‖inner2 star rows cols M T‖ ^ 2 ≤ sumTo r (fun i => s i ^ 2)) ∧
    (frob = 1 → ∀ N : ℝ, N ≠ 0 → N * N = sumTo r (fun i => s i * s i) →
      ‖inner2 star rows cols M T‖ ^ 2
        ≤ ‖inner2 star rows cols M
            (composeMat r U (renorm (N : 𝕜) (fun i => (s i : 𝕜))) V)‖ ^ 2) := by
  intro M T frob
  have h := optimal_rank rows cols k r hle U V s hU hV hs hs0 a b
  rw [norm_inner2_symm] at h
  have h1 : frob = 1 → ‖inner2 star rows cols M T‖ ^ 2 ≤ sumTo r (fun i => s i ^ 2) := by
    intro hf
    have h' := h
    rw [show sumTo rows (fun x => sumTo cols (fun y => ‖sumOuter r a b x y‖ ^ 2)) = frob from rfl,
      hf, mul_one] at h'
    exact h'
  refine ⟨h, h1, fun hf N hN hNN => ?_⟩
  have hfid := (C07_fidelity (K := 𝕜) rows cols k r hle U (fun i => (s i : 𝕜)) V (N : 𝕜) hU hV
    (fun i => by simp) (by simp) (by exact_mod_cast hN)
    (by
      have : (fun i => ((s i : ℝ) : 𝕜) * ((s i : ℝ) : 𝕜)) = fun i => (((s i * s i : ℝ)) : 𝕜) := by
        funext i; push_cast; rfl
      rw [this, sumTo_ofReal, ← hNN]; push_cast; rfl)).1
  rw [hfid, RCLike.norm_ofReal, sq_abs]
  have : (fun i => s i * s i) = fun i => s i ^ 2 := by funext i; ring
  rw [pow_two N, hNN, this]
  exact h1 hf

/-- Non-vacuity of `C07_optimal` / `C07_optimal_rank1` over `ℂ`: `U = V = I₂`, `s = (1, 0)`
(orthonormal, non-increasing, non-negative), and the bound `s_0² = 1` is attained by the product
state `e_0 ⊗ e_0` (so the inequality is sharp). -/
example :
    (∀ i j, i < 2 → j < 2 →
      gramCols (K := ℂ) 2 (fun r i => if r = i then 1 else 0) i j = if i = j then 1 else 0) ∧
    (∀ i j, i < 2 → j < 2 →
      gramRows (K := ℂ) 2 (fun i c => if i = c then 1 else 0) i j = if i = j then 1 else 0) ∧
    (∀ i j, i ≤ j → j < 2 → (fun i => if i = 0 then (1 : ℝ) else 0) j
      ≤ (fun i => if i = 0 then (1 : ℝ) else 0) i) ∧
    ‖inner2 star 2 2
        (composeMat 2 (fun r i => if r = i then (1 : ℂ) else 0)
          (fun i => (((if i = 0 then (1 : ℝ) else 0) : ℝ) : ℂ)) (fun i c => if i = c then 1 else 0))
        (fun x y => (if x = 0 then (1 : ℂ) else 0) * (if y = 0 then 1 else 0))‖ ^ 2
      = (fun i => if i = 0 then (1 : ℝ) else 0) 0 ^ 2 := by
  refine ⟨?_, ?_, ?_, ?_⟩
  · intro i j hi hj
    rcases (by omega : i = 0 ∨ i = 1) with rfl | rfl <;>
      rcases (by omega : j = 0 ∨ j = 1) with rfl | rfl <;> simp [gramCols, sumTo]
  · intro i j hi hj
    rcases (by omega : i = 0 ∨ i = 1) with rfl | rfl <;>
      rcases (by omega : j = 0 ∨ j = 1) with rfl | rfl <;> simp [gramRows, sumTo]
  · intro i j hij hj
    rcases (by omega : j = 0 ∨ j = 1) with rfl | rfl
    · have : i = 0 := by omega
      subst this; simp
    · simp only [one_ne_zero, if_false]; split <;> norm_num
  · simp [inner2, composeMat, sumTo]

/-- **C07 (optimality, for state vectors).**  Scalars `ℝ` or `ℂ`; `partition` any list numpy
accepts (`sepAxes n partition = some src`).  Let `v` be the target, its bipartition matrix
`_separation_matrix(n, v, partition)` meeting the SVD specification with coefficients
`s_0 ≥ s_1 ≥ … ≥ 0`, and let `t` be ANY vector of `2^n` entries whose bipartition matrix across the
same partition is `Σ_{j<r} a_j ⊗ b_j` (Schmidt rank `≤ r`), `r ≤ k`.  Then
`|⟨v|t⟩|² ≤ (Σ_{i<r} s_i²)·‖t‖²`, so `≤ Σ_{i<r} s_i²` for a unit vector `t` — the fidelity the
prepared state attains (`C07_fidelity`).  (`⟨v|t⟩` is the entry-wise inner product of the two
bipartition matrices because `sepIndexAx`/`undoIndexAx` are mutually inverse.) -/
theorem C07_optimal_state (n : Nat) (P : List Int) (src : List Nat) (h : sepAxes n P = some src)
    (v t : Nat → 𝕜) (k r : Nat) (hle : r ≤ k) (U : Nat → Nat → 𝕜) (s : Nat → ℝ)
    (V : Nat → Nat → 𝕜)
    (hU : ∀ i j, i < k → j < k →
      gramCols (2 ^ (n - src.length)) U i j = if i = j then 1 else 0)
    (hV : ∀ i j, i < k → j < k → gramRows (2 ^ src.length) V i j = if i = j then 1 else 0)
    (hs : ∀ i j, i ≤ j → j < k → s j ≤ s i) (hs0 : ∀ i, i < k → 0 ≤ s i)
    (hsvd : ∀ x y, x < 2 ^ (n - src.length) → y < 2 ^ src.length →
      sepMat n src v x y = composeMat k U (fun i => (s i : 𝕜)) V x y)
    (a b : Nat → Nat → 𝕜)
    (ht : ∀ x y, x < 2 ^ (n - src.length) → y < 2 ^ src.length →
      sepMat n src t x y = sumOuter r a b x y) :
    ‖sumTo (2 ^ n) (fun i => star (v i) * t i)‖ ^ 2
        ≤ sumTo r (fun i => s i ^ 2) * sumTo (2 ^ n) (fun i => ‖t i‖ ^ 2) ∧
    (sumTo (2 ^ n) (fun i => ‖t i‖ ^ 2) = 1 →
      ‖sumTo (2 ^ n) (fun i => star (v i) * t i)‖ ^ 2 ≤ sumTo r (fun i => s i ^ 2)) := by
  have h1 := optimal_state (sepAxes_valid h) v t k r hle U V s hU hV hs hs0 hsvd a b ht
  refine ⟨h1, fun hn => ?_⟩
  rw [hn, mul_one] at h1
  exact h1

/-- Non-vacuity of `C07_optimal_state`: two qubits, partition `[0]`; every vector `t` has a
bipartition matrix of the form `Σ_{j<2} a_j ⊗ b_j` (take `a_j = e_j`, `b_j` = row `j`). -/
example (t : Nat → ℂ) : ∃ src, sepAxes 2 [0] = some src ∧ ∀ x y, x < 2 ^ (2 - src.length) →
    y < 2 ^ src.length →
    sepMat 2 src t x y
      = sumOuter 2 (fun j x => if x = j then 1 else 0) (fun j y => sepMat 2 src t j y) x y := by
  refine ⟨[0], by decide, fun x y hx hy => ?_⟩
  have hx' : x < 2 := hx
  rcases (by omega : x = 0 ∨ x = 1) with rfl | rfl <;> simp [sumOuter, sumTo]

end Optimal

end Qclib
