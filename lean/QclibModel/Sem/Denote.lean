import QclibModel.Sem.Basic
import QclibModel.Model.Gate
/-
  Denotation of syntactic gates in `QSem`.  The trigonometry enters only through `RotSem`:
  `cs θ = cos(θ/2)`, `sn θ = sin(θ/2)`, `ex θ = exp(iθ/2)`, `exb θ = exp(-iθ/2)`, `rh = 1/√2`.
  Theorems assume the algebraic laws they need (see Proofs/RotLaws.lean); the instance for
  `ℝ → ℂ` is proved from Mathlib there.
-/
namespace Qclib

class RotSem (Θ R : Type) where
  cs : Θ → R
  sn : Θ → R
  ex : Θ → R
  exb : Θ → R
  rh : R

section
variable {Θ R : Type} [Add R] [Mul R] [Neg R] [Zero R] [One R] [RotSem Θ R]
open RotSem

def matRY (θ : Θ) : Mat2 R := ⟨cs θ, -(sn θ), sn θ, cs θ⟩
def matRZ (θ : Θ) : Mat2 R := ⟨exb θ, 0, 0, ex θ⟩
def matP (θ : Θ) : Mat2 R := ⟨1, 0, 0, ex θ * ex θ⟩
def matH (Θ : Type) {R : Type} [Neg R] [RotSem Θ R] : Mat2 R :=
  ⟨rh Θ, rh Θ, rh Θ, -(rh Θ)⟩
/-- qiskit `U(θ,φ,λ) = [[cos θ/2, -e^{iλ} sin θ/2], [e^{iφ} sin θ/2, e^{i(φ+λ)} cos θ/2]]`. -/
def matU (θ φ lam : Θ) : Mat2 R :=
  ⟨cs θ, -(ex lam * ex lam * sn θ), ex φ * ex φ * sn θ, ex φ * ex φ * (ex lam * ex lam) * cs θ⟩

def denote : G Θ → State R → State R
  | .x q => applyMcu [] Mat2.X q
  | .h q => applyMcu [] (matH Θ) q
  | .cx c t => applyMcu [(c, true)] Mat2.X t
  | .cz c t => applyMcu [(c, true)] Mat2.Z t
  | .ccx a b t => applyMcu [(a, true), (b, true)] Mat2.X t
  | .mcx cs t => applyMcu (cs.map (fun c => (c, true))) Mat2.X t
  | .ry θ q => applyMcu [] (matRY θ) q
  | .rz θ q => applyMcu [] (matRZ θ) q
  | .p θ q => applyMcu [] (matP θ) q
  | .cp θ c t => applyMcu [(c, true)] (matP θ) t
  | .u θ φ l q => applyMcu [] (matU θ φ l) q
  | .cu θ φ l g c t => applyMcu [(c, true)] (Mat2.smul (ex g * ex g) (matU θ φ l)) t
  | .swap a b => applyPerm (swapBits a b)
  | .cswap c a b => applyPerm (fun w => if w c then swapBits a b w else w)
  | .gphase θ => scale (ex θ * ex θ)

/-- Gates are applied in list order (head first), like `QuantumCircuit.data`. -/
def sem (c : Circ Θ) (ψ : State R) : State R := c.foldl (fun s g => denote g s) ψ

end
end Qclib
