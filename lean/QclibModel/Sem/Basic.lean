/-
  S2 `QSem`: amplitude-function semantics.  Core Lean only (no Mathlib): definitions use notation
  type classes; theorems (in Proofs/, Props/) instantiate them from a `CommRing`.
-/
namespace Qclib

/-- A computational-basis label: one Boolean per wire (wires are natural numbers). -/
abbrev Bits := Nat → Bool

def setBit (b : Bits) (q : Nat) (v : Bool) : Bits := fun i => if i = q then v else b i

def flipBit (b : Bits) (q : Nat) : Bits := fun i => if i = q then !(b i) else b i

/-- A (not necessarily normalised) state: an amplitude for every basis label.  No finiteness is
needed because every gate touches finitely many wires. -/
abbrev State (R : Type) := Bits → R

/-- 2×2 matrix `[[a, b], [c, d]]` (row-major). -/
structure Mat2 (R : Type) where
  a : R
  b : R
  c : R
  d : R

namespace Mat2
variable {R : Type}

def one [Zero R] [One R] : Mat2 R := ⟨1, 0, 0, 1⟩
def mul [Add R] [Mul R] (m n : Mat2 R) : Mat2 R :=
  ⟨m.a * n.a + m.b * n.c, m.a * n.b + m.b * n.d, m.c * n.a + m.d * n.c, m.c * n.b + m.d * n.d⟩
def smul [Mul R] (z : R) (m : Mat2 R) : Mat2 R := ⟨z * m.a, z * m.b, z * m.c, z * m.d⟩
def X [Zero R] [One R] : Mat2 R := ⟨0, 1, 1, 0⟩
def Z [Zero R] [One R] [Neg R] : Mat2 R := ⟨1, 0, 0, -1⟩
def diag [Zero R] (p q : R) : Mat2 R := ⟨p, 0, 0, q⟩

instance [Add R] [Mul R] : Mul (Mat2 R) := ⟨mul⟩
instance [Zero R] [One R] : One (Mat2 R) := ⟨one⟩

@[ext] theorem ext' {m n : Mat2 R} (ha : m.a = n.a) (hb : m.b = n.b) (hc : m.c = n.c)
    (hd : m.d = n.d) : m = n := by
  cases m; cases n; simp_all
end Mat2

/-- Do all control literals `(wire, required value)` hold in `b`? -/
def ctrlOk (cs : List (Nat × Bool)) (b : Bits) : Bool := cs.all (fun cv => b cv.1 == cv.2)

/-- Apply the 2×2 matrix `f b` to wire `t` (the matrix may depend on the *other* wires: this is a
uniformly controlled one-qubit gate; plain and multi-controlled gates are special cases). -/
def applyFam {R : Type} [Add R] [Mul R] (f : Bits → Mat2 R) (t : Nat) (ψ : State R) : State R :=
  fun b =>
    let m := f b
    if b t then m.c * ψ (setBit b t false) + m.d * ψ (setBit b t true)
    else m.a * ψ (setBit b t false) + m.b * ψ (setBit b t true)

/-- Multi-controlled one-qubit gate with control literals `cs`. -/
def applyMcu {R : Type} [Add R] [Mul R] (cs : List (Nat × Bool)) (m : Mat2 R) (t : Nat)
    (ψ : State R) : State R :=
  fun b =>
    if ctrlOk cs b then
      (if b t then m.c * ψ (setBit b t false) + m.d * ψ (setBit b t true)
       else m.a * ψ (setBit b t false) + m.b * ψ (setBit b t true))
    else ψ b

/-- Relabelling of basis states by a classical map on labels (used for swaps and for lifting the
reversible semantics): the new amplitude at `b` is the old amplitude at `π b`. -/
def applyPerm {R : Type} (π : Bits → Bits) (ψ : State R) : State R := fun b => ψ (π b)

def swapBits (a c : Nat) (b : Bits) : Bits :=
  fun i => if i = a then b c else if i = c then b a else b i

def scale {R : Type} [Mul R] (z : R) (ψ : State R) : State R := fun b => z * ψ b

end Qclib
