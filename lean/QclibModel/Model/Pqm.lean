import QclibModel.Model.Gate
/-
  Model of `qclib/memory/pqm.py::initialize` (C17).
  Wires: memory qubit `k` on `mem k`, pattern qubit `k` on `pat k`, auxiliary on `aux`.
  `θm = -π/(2n)` and `θc = π/n` are passed in as parameters (the driver computes them in Float,
  the theorem quantifies over any pair with `ph θc = ph(-θm)²`).
-/
namespace Qclib

def pqmXor {Θ} (n : Nat) (classical : Bool) (pattern : Nat → Bool) (mem pat : Nat → Nat) :
    Circ Θ :=
  (List.range n).flatMap fun k =>
    if classical then (if pattern k then [G.x (mem k)] else [])
    else [G.cx (pat k) (mem k)]

def pqm {Θ} (n : Nat) (classical : Bool) (pattern : Nat → Bool) (mem pat : Nat → Nat)
    (aux : Nat) (θm θc : Θ) : Circ Θ :=
  [G.h aux]
  ++ pqmXor n classical pattern mem pat
  ++ (List.range n).map (fun k => G.p θm (mem k))
  ++ (List.range n).map (fun k => G.cp θc aux (mem k))
  ++ (pqmXor n classical pattern mem pat).reverse
  ++ [G.h aux]

end Qclib
