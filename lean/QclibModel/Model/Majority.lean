import QclibModel.Model.Gate
/-
  Model of `qclib/gates/majority.py::operate` (C05, majority gate).

  `operate(circuit, controls, target)` emits, for every size `k` in `n_controls`, one
  `mcx(subset, target)` per `k`-subset of `controls` in `itertools.combinations` order.
  `n_controls = [k for k in range(n_min, n + 1) if binomial(k - 1, n_min - 1) % 2 == 1]`
  with `n_min = ceil(n / 2)`.
-/
namespace Qclib

/-- Next row of Pascal's triangle. -/
def nextRow (r : List Nat) : List Nat := List.zipWith (· + ·) (0 :: r) (r ++ [0])

def pascalRow : Nat → List Nat
  | 0 => [1]
  | n + 1 => nextRow (pascalRow n)

/-- `math.comb n k` (for the non-negative arguments the code passes). -/
def binom (n k : Nat) : Nat := (pascalRow n).getD k 0

/-- `int(np.ceil(size_controls / 2))`. -/
def majMin (n : Nat) : Nat := (n + 1) / 2

/-- The subset sizes `n_controls` chosen by `operate` for `n ≥ 1` controls. -/
def majSizes (n : Nat) : List Nat :=
  (List.range' (majMin n) (n + 1 - majMin n)).filter
    (fun k => binom (k - 1) (majMin n - 1) % 2 == 1)

/-- `itertools.combinations(l, k)`: all sublists of length `k`, in lexicographic order of
positions. -/
def combos {α : Type} : Nat → List α → List (List α)
  | 0, _ => [[]]
  | _ + 1, [] => []
  | k + 1, a :: l => (combos k l).map (a :: ·) ++ combos (k + 1) l

/-- The gate list emitted by `operate(circuit, controls, target)`. -/
def majority {Θ : Type} (controls : List Nat) (target : Nat) : Circ Θ :=
  (majSizes controls.length).flatMap fun k => (combos k controls).map fun s => G.mcx s target

end Qclib
