import QclibModel.Sem.Basic
/-
  Model of `qclib/state_preparation/ucg.py::UCGInitialize` and `ucge.py::UCGEInitialize`
  (C12; the `t = 0` case serves C01).  Core Lean only.

  Conventions (each is tied to the source on every run):
  * amplitude vectors / operator lists are functions `Nat → _` together with their length
    (`2^level` children, `2^(level-1)` multiplexer entries); the level with `tree_level = n - q`
    acts on target wire `q` with control wires `q+1 … n-1`, control `q+1+j` holding bit `j` of the
    multiplexer index;
  * numbers are passed as an explicit operation record `COps` so that the same definitions run on
    complex `Float` pairs (driver, tie) and are reasoned about over a field with conjugation;
  * qiskit's `UCGate(up_to_diagonal=True)` / `_get_diagonal()` are *parameters* (`diag`).
-/
namespace Qclib.Ucg

/-- What the level operators need from the scalar type. -/
structure COps (α : Type) where
  zero : α
  one : α
  add : α → α → α
  mul : α → α → α
  neg : α → α
  conj : α → α
  /-- true division `a / b` -/
  div : α → α → α
  /-- `numpy.linalg.norm([a, b])` -/
  nrm : α → α → α
  /-- negation of the test `x != 0` -/
  isZero : α → Bool

variable {α : Type}

/-! ### `str_target`, `bit_target`, `_get_ctrl_targ` -/

/-- number of binary digits of `bin(x)[2:]` (one digit for `0`). -/
def binLen (x : Nat) : Nat := Nat.log2 x + 1

/-- `bin(x)[2:].zfill(w)` as a list of bits, most significant first (zfill never truncates). -/
def binZfill (w x : Nat) : List Bool := ((List.range (max w (binLen x))).map x.testBit).reverse

/-- `self.str_target = bin(target_state)[2:].zfill(num_qubits)[::-1]`: entry `i` is bit `i`. -/
def strTarget (n t : Nat) : List Bool := (binZfill n t).reverse

/-- `bit_target = self.str_target[self.num_qubits - tree_level]`. -/
def bitTarget (n t level : Nat) : Bool := (strTarget n t).getD (n - level) false

/-- `_get_ctrl_targ(tree_level)`: `(list(range(n - level + 1, n)), n - level)`. -/
def ctrlTarg (n level : Nat) : List Nat × Nat :=
  (List.range' (n - level + 1) (n - (n - level + 1)), n - level)

/-! ### Level operators -/

inductive Kind | branch | diagonal | identity
  deriving Repr, DecidableEq, BEq

def Kind.name : Kind → String
  | .branch => "branch" | .diagonal => "diagonal" | .identity => "identity"

/-- `np.conj(operator).T` -/
def conjT (o : COps α) (m : Mat2 α) : Mat2 α := ⟨o.conj m.a, o.conj m.c, o.conj m.b, o.conj m.d⟩

/-- `_get_branch_operator(amplitude_ket0, amplitude_ket1, target)` (`bit = true` ↔ `'1'`). -/
def branchOp (o : COps α) (a0 a1 : α) (bit : Bool) : Mat2 α :=
  conjT o (if bit then ⟨o.neg (o.conj a1), a0, o.conj a0, a1⟩
           else ⟨a0, o.neg (o.conj a1), a1, o.conj a0⟩)

/-- `_get_diagonal_operator(amplitude_ket1, target)`. -/
def diagOp (o : COps α) (a1 : α) (bit : Bool) : Mat2 α :=
  conjT o (if bit then ⟨o.one, o.zero, o.zero, a1⟩ else ⟨o.zero, o.one, a1, o.zero⟩)

/-- `np.eye(2)` -/
def eye (o : COps α) : Mat2 α := ⟨o.one, o.zero, o.zero, o.one⟩

/-- Which of the three operators `_build_multiplexor` takes for a sibling pair with first child
`c0` and parent amplitude `p`: `parent != 0` → (`amp_ket0 != 0` → branch | diagonal) | identity. -/
def muxKind (o : COps α) (c0 p : α) : Kind :=
  if o.isZero p then .identity
  else if o.isZero (o.div c0 p) then .diagonal else .branch

/-- The multiplexer entry of a sibling pair `(c0, c1)` with parent amplitude `p`. -/
def muxEntry (o : COps α) (bit : Bool) (c0 c1 p : α) : Mat2 α :=
  match muxKind o c0 p with
  | .branch => branchOp o (o.div c0 p) (o.div c1 p) bit
  | .diagonal => diagOp o (o.div c1 p) bit
  | .identity => eye o

/-- `_update_parent(children)`: `parent[k] = norm([children[2k], children[2k+1]])`. -/
def updateParent (o : COps α) (children : Nat → α) : Nat → α :=
  fun k => o.nrm (children (2 * k)) (children (2 * k + 1))

/-- `_build_multiplexor(parent, children, str_target)`. -/
def buildMux (o : COps α) (bit : Bool) (children : Nat → α) : Nat → Mat2 α :=
  fun k => muxEntry o bit (children (2 * k)) (children (2 * k + 1)) (updateParent o children k)

def buildKinds (o : COps α) (children : Nat → α) : Nat → Kind :=
  fun k => muxKind o (children (2 * k)) (updateParent o children k)

/-- `_apply_diagonal(bit_target, parent, ucg)` of the plain class:
`parent * np.conj(diag)[1::2]` (bit `'1'`) resp. `[::2]`. -/
def applyDiagonal (o : COps α) (bit : Bool) (parent : Nat → α) (diag : Nat → α) : Nat → α :=
  fun k => o.mul (parent k) (o.conj (diag (2 * k + bit.toNat)))

/-! ### `_preserve_previous` -/

/-- `r_gate` at the level with target wire `q`: `target_state // 2`, halved after every level. -/
def rGateAt (t : Nat) : Nat → Nat
  | 0 => t / 2
  | q + 1 => rGateAt t q / 2

/-- `mux[r_gate] = np.eye(2)` -/
def replaceEntry (o : COps α) (mux : Nat → Mat2 α) (r : Nat) : Nat → Mat2 α :=
  fun k => if k = r then eye o else mux k

/-- `out_gate_ctrl = list(range(0, target)) + list(range(target + 1, num_qubits))` -/
def outGateCtrl (n target : Nat) : List Nat :=
  List.range target ++ List.range' (target + 1) (n - (target + 1))

/-- the `ctrl_state` string (most significant character first):
`str_target[0:target][::-1]`, with `bin(r_gate)[2:].zfill(len(mult_controls))` put in front
when that is shorter than `num_qubits - 1`. -/
def ctrlState (n t target rGate nMultCtrl : Nat) : List Bool :=
  let low := ((strTarget n t).take target).reverse
  if low.length < n - 1 then binZfill nMultCtrl rGate ++ low else low

/-- qiskit's reading of `ctrl_state`: the *last* character belongs to the first control qubit.
`none` when the string length is not the number of controls (qiskit raises). -/
def ctrlLits (ctrls : List Nat) (s : List Bool) : Option (List (Nat × Bool)) :=
  if s.length = ctrls.length then some (ctrls.zip s.reverse) else none

def bitStr (s : List Bool) : String := String.ofList (s.map (fun b => if b then '1' else '0'))

/-! ### UCGE: `_repetition_verify`, `_repetition_search`, `_simplify` -/

/-- `_repetition_verify(base, d, mux, mux_cpy)`; `cnt` = remaining iterations of `while i < d`.
`mux_cpy` is represented by the mask "entry is not None" (its entries are only ever the original
matrix or `None`).  `none` ↔ `return False` (the caller then restores the copy). -/
def repVerify (eqv : Mat2 α → Mat2 α → Bool) (mux : Nat → Mat2 α) :
    (cnt base nxt : Nat) → (Nat → Bool) → Option (Nat → Bool)
  | 0, _, _, cpy => some cpy
  | cnt + 1, base, nxt, cpy =>
    if eqv (mux base) (mux nxt) then
      repVerify eqv mux cnt (base + 1) (nxt + 1) (fun k => if k = nxt then false else cpy k)
    else none

/-- the `while repetitions:` loop of `_repetition_search` for one stride `d`;
`none` ↔ a block failed (copy restored, no entanglement found). -/
def repBlocks (eqv : Mat2 α → Mat2 α → Bool) (mux : Nat → Mat2 α) (d : Nat) :
    (reps base : Nat) → (Nat → Bool) → Option (Nat → Bool)
  | 0, _, cpy => some cpy
  | reps + 1, base, cpy =>
    match repVerify eqv mux d base (base + d) cpy with
    | none => none
    | some cpy' => repBlocks eqv mux d reps (base + 2 * d) cpy'

/-- `np.log2(d).is_integer()` for `d ≥ 1`. -/
def isPow2 (d : Nat) : Bool := 2 ^ Nat.log2 d == d

/-- one iteration `i` of the `for` loop of `_repetition_search(mux, n, mux_cpy)`;
state = (mask of `mux_cpy`, `dont_carry`). -/
def repStep (eqv : Mat2 α → Mat2 α → Bool) (mux : Nat → Mat2 α) (len nq : Nat)
    (st : (Nat → Bool) × List Nat) (i : Nat) : (Nat → Bool) × List Nat :=
  if isPow2 i && eqv (mux i) (mux 0) then
    let reps := len / (2 * i)
    if reps = 0 then st else
    match repBlocks eqv mux i reps 0 st.1 with
    | some cpy' => (cpy', st.2 ++ [nq + Nat.log2 i + 1])
    | none => st
  else st

/-- `_repetition_search(mux, n, mux_cpy)`: `for i in range(1, len(mux)//2 + 1)`. -/
def repSearch (eqv : Mat2 α → Mat2 α → Bool) (mux : Nat → Mat2 α) (len nq : Nat) :
    (Nat → Bool) × List Nat :=
  (List.range' 1 (len / 2)).foldl (repStep eqv mux len nq) (fun _ => true, [])

/-- `_simplify(mux, level)`: `(dont_carry, indices kept)`; the new multiplexer is `mux` restricted
to the kept indices in increasing order (`[m for m in mux_cpy if m is not None]`). -/
def simplify (eqv : Mat2 α → Mat2 α → Bool) (mux : Nat → Mat2 α) (len n level : Nat) :
    List Nat × List Nat :=
  if len > 1 then
    let r := repSearch eqv mux len (n - level)
    (r.2, (List.range len).filter r.1)
  else ([], List.range len)

/-- entry `k` of the simplified multiplexer. -/
def newMux (o : COps α) (mux : Nat → Mat2 α) (kept : List Nat) : Nat → Mat2 α :=
  fun k => match kept[k]? with | some i => mux i | none => eye o

/-- `mult_controls = [x for x in old_controls if x not in nc]` -/
def keptControls (old nc : List Nat) : List Nat := old.filter (fun x => !nc.contains x)

/-- index into the carried diagonal of the simplified multiplexer for parent index `k`:
bit `i` of the result is bit `pos[i]` of `k` (this is what `Operator(qc).to_matrix()` of the
diagonal placed on qubits `pos` computes). -/
def gather (pos : List Nat) (k : Nat) : Nat :=
  (pos.zipIdx.map (fun (p : Nat × Nat) => if k.testBit p.1 then 2 ^ p.2 else 0)).sum

/-- positions `ctrl_qc` used by `UCGEInitialize._apply_diagonal` for the kept controls. -/
def ctrlQc (n sizeRequired : Nat) (controls : List Nat) : List Nat :=
  controls.map (fun x => x - (n - sizeRequired))

/-- `UCGEInitialize._apply_diagonal`: as the plain class when `dont_carry` is empty, otherwise
the selected half of the diagonal is spread over the parent index through `ctrl_qc`. -/
def applyDiagonalE (o : COps α) (n : Nat) (bit : Bool) (parent : Nat → α) (diag : Nat → α)
    (dontCarry controls : List Nat) : Nat → α :=
  if dontCarry.isEmpty then applyDiagonal o bit parent diag
  else
    let pos := ctrlQc n (dontCarry.length + controls.length) controls
    fun k => o.mul (parent k) (o.conj (diag (2 * gather pos k + bit.toNat)))

/-! ### The level loop -/

/-- everything `_disentangle_qubit` decides at one level. -/
structure LevelPlan (α : Type) where
  level : Nat
  target : Nat
  oldControls : List Nat
  bit : Bool
  /-- `_build_multiplexor` output (length `2^(level-1)`) -/
  mux : Nat → Mat2 α
  kinds : Nat → Kind
  muxLen : Nat
  /-- UCGE: `dont_carry`, kept indices, kept controls (plain class: `[]`, all, all) -/
  dontCarry : List Nat
  kept : List Nat
  controls : List Nat

def levelPlan (o : COps α) (ucge : Bool) (eqv : Mat2 α → Mat2 α → Bool) (n t level : Nat)
    (children : Nat → α) : LevelPlan α :=
  let bit := bitTarget n t level
  let mux := buildMux o bit children
  let len := 2 ^ (level - 1)
  let ct := ctrlTarg n level
  let s := if ucge then simplify eqv mux len n level else ([], List.range len)
  { level := level, target := ct.2, oldControls := ct.1, bit := bit, mux := mux,
    kinds := buildKinds o children, muxLen := len,
    dontCarry := s.1, kept := s.2, controls := keptControls ct.1 s.1 }

/-- children of the next level (`_apply_diagonal` applied to `_update_parent(children)`). -/
def nextChildren (o : COps α) (ucge : Bool) (n : Nat) (p : LevelPlan α) (children : Nat → α)
    (diag : Nat → α) : Nat → α :=
  if ucge then applyDiagonalE o n p.bit (updateParent o children) diag p.dontCarry p.controls
  else applyDiagonal o p.bit (updateParent o children) diag

/-- `_define_initialize`: the children vector handed to the level with target wire `q`
(`tree_level = n - q`), `diags q'` being qiskit's diagonal of the level with target `q'`. -/
def childrenAt (o : COps α) (ucge : Bool) (eqv : Mat2 α → Mat2 α → Bool) (n t : Nat)
    (diags : Nat → Nat → α) (v : Nat → α) : Nat → Nat → α
  | 0 => v
  | q + 1 =>
    let c := childrenAt o ucge eqv n t diags v q
    nextChildren o ucge n (levelPlan o ucge eqv n t (n - q) c) c (diags q)

end Qclib.Ucg
