import QclibModel.Model.Schmidt
/-
  Model of the bounded-approximation search of `qclib/state_preparation/util/baa.py`
  (`adaptive_approximation`, `_build_approximation_tree`, `_split/_all/_greedy_combinations`,
  `_reduce_entanglement`, `_create_node`, `_search_leaves`, `_search_best`, `_count_saved_cnots`)
  and of the assembly of `BaaLowRankInitialize._define_initialize` (C08).
  Core Lean only; everything is executable (`Drivers/C08.lean` runs these very definitions).

  What is modelled and what is a parameter.  The *search logic* is modelled: candidate
  generation, the running `max_k`, loss composition, pruning, the list surgery of `_create_node`,
  the global→local partition index, the three-key choice, the early exit.  The *numerics* are a
  parameter (`Oracle`): `schmidt` stands for `schmidt_decomposition` + `low_rank_approximation`
  (what `_reduce_entanglement` gets back for a vector and a *local* partition: one
  `(rank, fidelity loss)` per admissible rank, with the names of the resulting sub-vectors) and
  `cnots` stands for `lowrank.cnot_count(vector, partition=…, low_rank=…)`.  Vectors are abstract
  names (`Nat`).  Arithmetic on losses is a parameter too (`LossOps`): the driver instantiates it
  with IEEE doubles (the very operations Python performs) and with exact rationals; the theorems
  instantiate it with an arbitrary linearly ordered field.
-/
namespace Qclib.Baa

/-! ### arithmetic on fidelity losses -/

structure LossOps (α : Type) where
  zero : α
  one : α
  sub : α → α → α
  mul : α → α → α
  le : α → α → Bool
  lt : α → α → Bool

/-- `1.0 - (1.0 - a) * (1.0 - b)`: the loss of two successive approximations. -/
def compose {α : Type} (L : LossOps α) (a b : α) : α :=
  L.sub L.one (L.mul (L.sub L.one a) (L.sub L.one b))

/-! ### data -/

/-- One answer of `_reduce_entanglement`'s loop over ranks: `rank`, `fidelity_loss`, and the names
of `svd_v.T[:, 0]`, `svd_u[:, 0]` (used when `rank = 1`) and of the recomposed approximate state
(used when `rank > 1`). -/
structure SvdInfo (α : Type) where
  rank : Nat
  loss : α
  vecV : Nat
  vecU : Nat
  vecA : Nat

structure Oracle (α : Type) where
  /-- `(vector, local partition, use_low_rank)` ↦ the list `_reduce_entanglement` builds. -/
  schmidt : Nat → List Nat → Bool → List (SvdInfo α)
  /-- `lowrank.cnot_count(vector, partition=…, low_rank=…)` (estimate). -/
  cnots : Nat → Option (List Nat) → Nat → Nat

/-- `Entanglement` dataclass. -/
structure EInfo (α : Type) where
  rank : Nat
  loss : α
  vecV : Nat
  vecU : Nat
  vecA : Nat
  register : List Nat
  partition : List Nat
  localPartition : List Nat

/-- One position of the four parallel lists `vectors / qubits / ranks / partitions` of a `Node`. -/
structure Entry where
  vec : Nat
  qubits : List Nat
  rank : Nat
  partition : Option (List Nat)
  deriving BEq, Repr

/-- `Node` dataclass without the `nodes` field (the tree is represented by its traversal). -/
structure Node (α : Type) where
  nodeSaved : Int
  totalSaved : Int
  nodeLoss : α
  totalLoss : α
  entries : List Entry

inductive Strategy | greedy | split | canonical | brute
  deriving BEq, DecidableEq, Repr

/-- Any other string takes the `else` branch (`_all_combinations`). -/
def Strategy.ofString : String → Strategy
  | "greedy" => .greedy
  | "split" => .split
  | "canonical" => .canonical
  | _ => .brute

/-- A call of `_reduce_entanglement` (for the tie: the sequence of calls is compared). -/
structure Query where
  vec : Nat
  register : List Nat
  partition : List Nat
  ulr : Bool
  deriving BEq, Repr

/-! ### small list helpers -/

/-- Insert into a strictly increasing list, dropping duplicates. -/
def insertU (a : Nat) : List Nat → List Nat
  | [] => [a]
  | b :: bs => if a < b then a :: b :: bs else if a = b then b :: bs else b :: insertU a bs

/-- `sorted(set(l))`. -/
def sortU : List Nat → List Nat
  | [] => []
  | a :: as => insertU a (sortU as)

/-- `itertools.combinations(l, k)` (lexicographic in positions). -/
def combinations : List Nat → Nat → List (List Nat)
  | _, 0 => [[]]
  | [], _+1 => []
  | x :: xs, k+1 => (combinations xs k).map (x :: ·) ++ combinations xs (k+1)

/-- `_split_combinations`. -/
def splitCombinations (qs : List Nat) (maxK : Nat) : List (List Nat) :=
  let combs := combinations qs maxK
  if qs.length % 2 = 0 ∧ qs.length / 2 = maxK then combs.take (combs.length / 2) else combs

/-- `_all_combinations`: sizes `1 … max_k-1` in full, then the split combinations of size `max_k`. -/
def allCombinations (qs : List Nat) (maxK : Nat) : List (List Nat) :=
  (List.range' 1 (maxK - 1)).flatMap (fun k => combinations qs k) ++ splitCombinations qs maxK

/-- First element with the smallest key (`min(l, key=…)`: replaced only on a strict `<`). -/
def firstMinBy {β γ : Type} (lt : γ → γ → Bool) (key : β → γ) : List β → Option β
  | [] => none
  | x :: xs => some (xs.foldl (fun best y => if lt (key y) (key best) then y else best) x)

/-! ### `_reduce_entanglement` -/

/-- `sum(i < q for i in register)` for every `q` of the partition. -/
def localPartition (register partition : List Nat) : List Nat :=
  partition.map (fun q => (register.filter (fun i => decide (i < q))).length)

def reduceEntanglement {α : Type} (O : Oracle α) (vec : Nat) (register partition : List Nat)
    (ulr : Bool) : List (EInfo α) :=
  let lp := localPartition register partition
  (O.schmidt vec lp ulr).map (fun s =>
    { rank := s.rank, loss := s.loss, vecV := s.vecV, vecU := s.vecU, vecA := s.vecA,
      register := register, partition := partition, localPartition := lp })

/-! ### `_create_node` -/

/-- The entries appended by `_create_node` in place of the register `orig`: for `rank == 1` the
partition (`partition2`, with `svd_v.T[:, 0]`) then the sorted rest (`partition1`, with
`svd_u[:, 0]`), single qubits marked `rank 1`; otherwise the same register with the approximate
state, its rank and the local partition. -/
def newEntries {α : Type} (e : EInfo α) (orig : Entry) : List Entry :=
  if e.rank = 1 then
    let p1 := sortU (orig.qubits.filter (fun q => !e.partition.contains q))
    [⟨e.vecV, e.partition, if e.partition.length = 1 then 1 else 0, none⟩,
     ⟨e.vecU, p1, if p1.length = 1 then 1 else 0, none⟩]
  else [⟨e.vecA, orig.qubits, e.rank, some e.localPartition⟩]

/-- `_count_saved_cnots` as called by `_create_node`. -/
def savedCnots {α : Type} (O : Oracle α) (e : EInfo α) (orig : Entry) : Int :=
  if e.rank = 1 then
    (O.cnots orig.vec orig.partition orig.rank : Int) - (O.cnots e.vecU none 0 : Int) - (O.cnots e.vecV none 0 : Int)
  else
    (O.cnots orig.vec orig.partition orig.rank : Int) - (O.cnots e.vecA (some e.localPartition) e.rank : Int) - 0

/-- `None` = `parent_node.qubits.index(e_info.register)` raises `ValueError`. -/
def createNode {α : Type} (L : LossOps α) (O : Oracle α) (parent : Node α) (e : EInfo α) :
    Option (Node α) :=
  match parent.entries.findIdx? (fun x => x.qubits == e.register) with
  | none => none
  | some idx =>
    match parent.entries[idx]? with
    | none => none
    | some orig =>
      some { nodeSaved := savedCnots O e orig
             totalSaved := parent.totalSaved + savedCnots O e orig
             nodeLoss := e.loss
             totalLoss := compose L e.loss parent.totalLoss
             entries := parent.entries.eraseIdx idx ++ newEntries e orig }

/-! ### `_search_best` -/

/-- `len(max(node.qubits, key=len))`. -/
def maxSubsystem {α : Type} (nd : Node α) : Nat :=
  (nd.entries.map (fun e => e.qubits.length)).foldl max 0

/-- `max(nodes, key=total_saved_cnots).total_saved_cnots`. -/
def maxSavedOf {α : Type} (n0 : Node α) (rest : List (Node α)) : Int :=
  rest.foldl (fun m x => if m < x.totalSaved then x.totalSaved else m) n0.totalSaved

/-- `_max_subsystem_size(min(nodes, key=_max_subsystem_size))`. -/
def minDepthOf {α : Type} : List (Node α) → Nat
  | [] => 0
  | a :: as => as.foldl (fun m x => if maxSubsystem x < m then maxSubsystem x else m) (maxSubsystem a)

/-- `None` = `max()` of an empty sequence raises. -/
def searchBest {α : Type} (L : LossOps α) (nodes : List (Node α)) : Option (Node α) :=
  match nodes with
  | [] => none
  | n0 :: rest =>
    let l1 := nodes.filter (fun x => x.totalSaved == maxSavedOf n0 rest)
    let l2 := l1.filter (fun x => maxSubsystem x == minDepthOf l1)
    firstMinBy L.lt (fun x => x.totalLoss) l2

/-! ### `_greedy_combinations` -/

/-- One round: disentangle each qubit of the last register in turn, keep the best node. -/
def greedyStep {α : Type} (L : LossOps α) (O : Oracle α) (st : Node α × List Query) :
    Node α × List Query :=
  match st.1.entries.getLast? with
  | none => st
  | some cur =>
    let nodes := cur.qubits.filterMap (fun q =>
      match reduceEntanglement O cur.vec cur.qubits [q] false with
      | [] => none                                   -- Python: IndexError
      | e :: _ => createNode L O st.1 e)
    let log := st.2 ++ cur.qubits.map (fun q => ⟨cur.vec, cur.qubits, [q], false⟩)
    match searchBest L nodes with
    | none => (st.1, log)
    | some b => (b, log)

def iter {β : Type} (f : β → β) : Nat → β → β
  | 0, x => x
  | k+1, x => iter f k (f x)

def greedyCombinations {α : Type} (L : LossOps α) (O : Oracle α) (vec : Nat) (qs : List Nat)
    (maxK : Nat) : List (List Nat) × List Query :=
  let start : Node α := ⟨0, 0, L.zero, L.zero, [⟨vec, qs, 0, none⟩]⟩
  let fin := iter (greedyStep L O) maxK (start, [])
  ((List.range' 1 maxK).map (fun k => sortU ((fin.1.entries.take k).flatMap (·.qubits))), fin.2)

/-! ### `_build_approximation_tree`: one node's expansion -/

structure ExpAcc (α : Type) where
  children : List (Node α)
  maxK : Nat
  log : List Query

structure Params (α : Type) where
  maxLoss : α
  strategy : Strategy
  ulr : Bool

/-- The inner `for e_info, loss in zip(...)`: keep the child iff the composed loss fits the budget
and the child saves at least one CNOT in total. -/
def addInfos {α : Type} (L : LossOps α) (O : Oracle α) (P : Params α) (node : Node α)
    (children : List (Node α)) (infos : List (EInfo α)) : List (Node α) :=
  infos.foldl (fun ch e =>
    if L.le (compose L e.loss node.totalLoss) P.maxLoss then
      match createNode L O node e with
      | some nn => if 0 < nn.totalSaved then ch ++ [nn] else ch
      | none => ch
    else ch) children

/-- The candidate bipartitions of one entangled register. -/
def candidates {α : Type} (L : LossOps α) (O : Oracle α) (s : Strategy) (ent : Entry)
    (maxK : Nat) : List (List Nat) × List Query :=
  match s with
  | .greedy => greedyCombinations L O ent.vec ent.qubits maxK
  | .split => (splitCombinations ent.qubits maxK, [])
  | .canonical => ([ent.qubits.take maxK], [])
  | .brute => (allCombinations ent.qubits maxK, [])

/-- `if not 1 <= max_k <= len(entangled_qubits) // 2: max_k = len(entangled_qubits) // 2`
(the variable is *not* reset between registers nor between levels). -/
def clampK (maxK len : Nat) : Nat := if 1 ≤ maxK ∧ maxK ≤ len / 2 then maxK else len / 2

/-- Body of `for entangled_qubits, entangled_vector in node_data`. -/
def expandReg {α : Type} (L : LossOps α) (O : Oracle α) (P : Params α) (node : Node α)
    (acc : ExpAcc α) (ent : Entry) : ExpAcc α :=
  let maxK := clampK acc.maxK ent.qubits.length
  let cl := candidates L O P.strategy ent maxK
  cl.1.foldl (fun (a : ExpAcc α) part =>
    { a with
      children := addInfos L O P node a.children (reduceEntanglement O ent.vec ent.qubits part P.ulr)
      log := a.log ++ [⟨ent.vec, ent.qubits, part, P.ulr⟩] })
    { acc with maxK := maxK, log := acc.log ++ cl.2 }

/-- Everything `_build_approximation_tree` does before recursing: the children kept (only the best
one for `greedy` / `canonical`), the value of `max_k` handed to the recursive calls, the calls of
`_reduce_entanglement` made. -/
def expand {α : Type} (L : LossOps α) (O : Oracle α) (P : Params α) (node : Node α) (maxK : Nat) :
    ExpAcc α :=
  let acc := (node.entries.filter (fun e => e.rank == 0)).foldl (expandReg L O P node) ⟨[], maxK, []⟩
  if acc.children.isEmpty then acc
  else if P.strategy == .greedy || P.strategy == .canonical then
    match searchBest L acc.children with
    | some b => { acc with children := [b] }
    | none => acc
  else acc

/-- `Node.is_leaf`. -/
def Node.isLeaf {α : Type} (nd : Node α) : Bool := nd.entries.all (fun e => decide (1 ≤ e.rank))

/-! ### the tree, as its pre-order traversal -/

structure Visit (α : Type) where
  depth : Nat
  node : Node α
  /-- `len(node.nodes) == 0` after the construction: what `_search_leaves` collects. -/
  leaf : Bool
  /-- the recursion budget of the model ran out (never happens with the budget used, see
  `adaptiveApproximation`; printed by the driver so that it could not go unnoticed). -/
  truncated : Bool
  log : List Query

def walk {α : Type} (L : LossOps α) (O : Oracle α) (P : Params α) :
    Nat → Nat → Node α → Nat → List (Visit α)
  | 0, depth, node, _ => [⟨depth, node, true, true, []⟩]
  | fuel+1, depth, node, maxK =>
    let r := expand L O P node maxK
    ⟨depth, node, r.children.isEmpty, false, r.log⟩ ::
      r.children.flatMap (fun c =>
        if c.isLeaf then [⟨depth + 1, c, true, false, []⟩] else walk L O P fuel (depth + 1) c r.maxK)

def rootNode {α : Type} (L : LossOps α) (n vec : Nat) : Node α :=
  ⟨0, 0, L.zero, L.zero, [⟨vec, List.range n, 0, none⟩]⟩

/-- Every level removes an entangled register of size `s` and adds registers whose entangled ones
weigh less (`2s-1` against `2k-1 + 2(s-k)-1`), so `2n` levels always suffice. -/
def fuelFor (n : Nat) : Nat := 2 * n + 2

def leavesOf {α : Type} (vs : List (Visit α)) : List (Node α) :=
  (vs.filter (·.leaf)).map (·.node)

/-- Root, construction, `_search_leaves`, `_search_best`. -/
def search {α : Type} (L : LossOps α) (O : Oracle α) (P : Params α) (n vec maxK : Nat) :
    Option (Node α) :=
  searchBest L (leavesOf (walk L O P (fuelFor n) 0 (rootNode L n vec) maxK))

/-- `adaptive_approximation(state_vector, max_fidelity_loss, strategy, max_combination_size,
use_low_rank)`. -/
def adaptiveApproximation {α : Type} (L : LossOps α) (O : Oracle α) (P : Params α)
    (n vec maxK : Nat) : Option (Node α) :=
  if P.strategy != .canonical then
    match search L O ⟨L.one, .canonical, false⟩ n vec 0 with
    | none => none
    | some prod =>
      if L.le prod.totalLoss P.maxLoss then some prod else search L O P n vec maxK
  else search L O P n vec maxK

/-- `_OptParams`: a `max_fidelity_loss` outside `[0,1]` is ignored. -/
def optMaxLoss {α : Type} (L : LossOps α) (l : α) : α :=
  if L.lt l L.zero || L.lt L.one l then L.zero else l

/-! ### assembly (`BaaLowRankInitialize._define_initialize`) -/

/-- The wire of the final circuit that carries qubit `k` of the factor gate placed on the
register `qs`: `compose(gate, qubits[::-1])` sends gate qubit `k` to `qs[::-1][k]`, the closing
`reverse_bits()` sends wire `w` to `n-1-w`. -/
def wireOf (n : Nat) (qs : List Nat) (k : Nat) : Nat := n - 1 - qs.reverse.getD k 0

/-- Little-endian index of the factor on `qs` selected by the little-endian index `I` of the whole
register: bit `k` of the result is bit `wireOf n qs k` of `I`. -/
def localIndex (n : Nat) (qs : List Nat) (I : Nat) : Nat :=
  (List.range qs.length).foldl (fun acc k => acc + if I.testBit (wireOf n qs k) then 2 ^ k else 0) 0

/-- Amplitude of the assembled circuit's state at index `I`: the factors sit on disjoint wires, so
it is the product of the factor amplitudes at the selected local indices. -/
def assembled {R : Type} [Mul R] (one : R) (n : Nat) (plan : List (List Nat × (Nat → R))) (I : Nat) : R :=
  plan.foldl (fun acc p => acc * p.2 (localIndex n p.1 I)) one

/-- The tensor described by the plan (what `Node.state_vector()` computes): axis `q` of the result
is the axis of the factor whose register contains `q`, at the position of `q` in that register. -/
def planTensor {R : Type} [Mul R] (one : R) (n : Nat) (plan : List (List Nat × (Nat → R))) (I : Nat) : R :=
  plan.foldl (fun acc p => acc * p.2 (Schmidt.ofBits (Schmidt.gather p.1 (Schmidt.toBits n I)))) one

end Qclib.Baa
