import QclibModel.Model.Tree
/-
  Model of `qclib/state_preparation/topdown.py::TopDownInitialize._define_initialize` (C01),
  built on the shared tree model `Model/Tree.lean` (state tree, angle tree, `add_register`,
  `top_down`).  Core Lean only; the number type `F` is abstract (`TOps F`): `Float` in the driver,
  `ℝ` in the theorems.

    data       = [Amplitude(i, a) ...]                      leaves `(abs a, cmath.phase a)` (input)
    state_tree = state_decomposition(num_qubits, data)      `stateTree`
    angle_tree = create_angles_tree(state_tree)             `angleTree`
    add_register(circuit, angle_tree, 0)                    `addRegister · 0`
    top_down(angle_tree, circuit, 0)                        `topDown · 0 0`
    circuit.global_phase += sum(np.angle(params)) / len     `meanArg` (if `global_phase`)

  `lib = 'qiskit'` hands the vector to qiskit's own `initialize` and is not modelled (K4).
-/
namespace Qclib

section
variable {F : Type} (o : TOps F)

/-- `len(self.params) = 2^n` as a number of type `F` (exact in floating point). -/
def pow2F : Nat → F
  | 0 => o.one
  | n+1 => o.mul o.two (pow2F n)

/-- Python's builtin `sum(np.angle(params))`: left to right, starting from `0`. -/
def sumArgs (len : Nat) (leaves : Nat → SV F) : F :=
  (List.range len).foldl (fun s k => o.add s (leaves k).arg) o.zero

/-- `sum(np.angle(self.params)) / len(self.params)`. -/
def meanArg (n : Nat) (leaves : Nat → SV F) : F :=
  o.div (sumArgs o (2^n) leaves) (pow2F o n)

structure TopDownOut (F : Type) where
  stree : BT (SV F)
  atree : BT (AV F)
  alloc : Alloc F
  /-- gate list of `top_down` (without the global phase) -/
  gates : Circ F
  /-- `circuit.global_phase` increment, `none` when `global_phase = False` -/
  phase : Option F

/-- `TopDownInitialize(params, opt_params={'global_phase': gp}).definition` for `len(params) = 2^n`;
`none` where the code raises (`_get_num_qubits` rejects `n = 0`; `add_register` failing). -/
def topDownInit (n : Nat) (leaves : Nat → SV F) (gp : Bool) : Option (TopDownOut F) :=
  if n = 0 then none else
  let st := stateTree o n leaves
  let atree := angleTree o st
  match addRegister atree 0 with
  | none => none
  | some a =>
    some ⟨st, atree, a, topDown o 0 0 a.tree, if gp then some (meanArg o n leaves) else none⟩

/-- The whole definition as a gate list; the global phase is the syntactic gate `gphase`
(denotation: multiplication of every amplitude by `e^{iθ}`). -/
def TopDownOut.circ (t : TopDownOut F) : Circ F :=
  (match t.phase with | some p => [G.gphase p] | none => []) ++ t.gates

/-! ### The multiplexer calls of `top_down`, as data (for the tie and the level theorem) -/

/-- One call `ucr(r_gate, angles, last_control)` appended on `ws = [target] + controls[::-1]`;
`rev` = `reverse_ops()` was applied (the RZ multiplexer). -/
structure MuxCall (F : Type) where
  ax : Axis
  last : Bool
  rev : Bool
  ws : List Nat
  angles : List F

def MuxCall.circ (c : MuxCall F) : Circ F :=
  let k := Nat.log2 c.angles.length
  let u := ucr o.aops c.ax .CX k (fun i => c.angles.getD i o.zero) c.last
  place (if c.rev then u.reverse else u) c.ws

/-- The calls made for one level (mirrors `levelMux`; `levelMux_eq_calls` proves they agree). -/
def levelCalls (ctrl : List Nat) (targets : List (BT (QV F))) : List (MuxCall F) :=
  match targets with
  | [] => []
  | t0 :: _ =>
    let ys := targets.map fun t => (t.valD ⟨o.zero, o.zero, none⟩).y
    let zs := targets.map fun t => (t.valD ⟨o.zero, o.zero, none⟩).z
    let anyY := ys.any o.neZero
    let anyZ := zs.any o.neZero
    let ws := wire (t0.valD ⟨o.zero, o.zero, none⟩).q :: ctrl.reverse
    (if anyY then [⟨.Y, !anyZ, false, ws, ys⟩] else [])
      ++ (if anyZ then [⟨.Z, !anyY, true, ws, zs⟩] else [])

def chainCalls : BT (QV F) → List Nat → List (BT (QV F)) → List (MuxCall F)
  | .nil, _, _ => []
  | .node v l _, ctrl, targets =>
    levelCalls o ctrl targets ++ chainCalls l (ctrl ++ [wire v.q]) (children targets)

/-- State-tree / angle-tree dumps: `(level, index, payload)` in pre-order. -/
def treeTable {α : Type} : Nat → Nat → BT α → List (Nat × Nat × α)
  | _, _, .nil => []
  | lvl, idx, .node v l r =>
    (lvl, idx, v) :: (treeTable (lvl+1) (2*idx) l ++ treeTable (lvl+1) (2*idx+1) r)

end
end Qclib
