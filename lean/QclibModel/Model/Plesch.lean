import QclibModel.Model.Schmidt
import QclibModel.Sem.Basic
/-
  C01 — the low-rank / SVD ("Plesch") ASSEMBLY of
  `qclib/state_preparation/lowrank.py::LowRankInitialize._define_initialize` / `_encode` and of
  `qclib/state_preparation/svd.py::SVDInitialize._define_initialize`.  Core Lean only, executable
  (the driver prints `encodeBranch`, `svdPlan` and `Schmidt.lowRankPlan`).

  * `encodeBranch` mirrors `_encode`'s `if / elif / elif / else` on `data.shape`, in that order.
  * `svdPlan` is the register / CNOT / sub-encoder plan of `SVDInitialize`.
  * `PG` is a gate syntax with OPAQUE register blocks (`block reg m` = "the sub-circuit composed on
    the circuit qubits `reg` has matrix `m`", gate qubit `i` ↦ `reg[i]`, gate qubit `i` = bit `i`
    of the gate's matrix index: qiskit is little-endian) and CNOTs, with its amplitude-function
    semantics on top of `Sem/Basic.lean`.
  * `pleschCirc` / `lowRankCirc` / `svdCirc` assemble phases 1–4 (+ `reverse_bits`) from a plan.
-/
namespace Qclib.Plesch
open Qclib.Schmidt

/-! ### `_encode`: which sub-encoder is called -/

/-- The four arms of `LowRankInitialize._encode`. -/
inductive EncBranch
  | sp        -- `data.shape[1] == 1`: nested `LowRankInitialize(data[:, 0])`
  | isoCsd    -- `data.shape[0] // 2 == data.shape[1]`: `decompose_isometry(data, scheme="csd")`
  | iso       -- `data.shape[0] > data.shape[1]`: `decompose_isometry(data, scheme=iso_scheme)`
  | unitary   -- else: `decompose_unitary(data, decomposition=unitary_scheme)`
  deriving DecidableEq, Repr, Inhabited

/-- `_encode`'s `if / elif / elif / else`, same guards, same order (`rows, cols = data.shape`). -/
def encodeBranch (rows cols : Nat) : EncBranch :=
  if cols = 1 then .sp
  else if rows / 2 = cols then .isoCsd
  else if rows > cols then .iso
  else .unitary

/-- Name of the callee with the scheme that is passed on (same strings as `Schmidt.encKind`). -/
def branchName : EncBranch → String → String → String
  | .sp, _, _ => "sp"
  | .isoCsd, _, _ => "iso:csd"
  | .iso, isoScheme, _ => "iso:" ++ isoScheme
  | .unitary, _, uniScheme => "unitary:" ++ uniScheme

/-- `if self.num_qubits < 2: return TopDownInitialize(self.params).definition`. -/
def lowRankTop (n : Nat) : Bool := decide (n < 2)

/-- Default partition `list(range(n // 2 + n % 2))` (`_default_partition`). -/
def defaultPartition (n : Nat) : List Nat := List.range (n / 2 + n % 2)

/-! ### `SVDInitialize` -/

structure SvdPlan where
  /-- circuit qubits of `reg_a` (columns of the reshaped state; gets `V.T`) -/
  regA : List Nat
  /-- circuit qubits of `reg_b` (rows; gets the singular values and `U`) -/
  regB : List Nat
  /-- `cx(reg_b[k], reg_a[k])`, `k < n // 2` -/
  cxs : List (Nat × Nat)
  /-- `len(matrix_d) > 2`: singular values prepared by a nested `SVDInitialize` (else `TopDown`) -/
  nestedSvd : Bool
  /-- number of singular values `min(rows, cols) = 2^(n//2)` -/
  lenD : Nat
  /-- `matrix_u` is `uSize × uSize` -/
  uSize : Nat
  /-- `matrix_v.T` is `vSize × vSize` -/
  vSize : Nat
  deriving Repr

/-- `state.shape = (2^(n//2), 2^(n//2+odd))`; `circuit = QuantumCircuit(reg_a, reg_b)`: `reg_a` are
the first `n//2+odd` circuit qubits, `reg_b` the following `n//2`. -/
def svdPlan (n : Nat) : SvdPlan :=
  let h := n / 2
  let odd := n % 2
  let regA := List.range (h + odd)
  let regB := (List.range h).map (fun k => h + odd + k)
  { regA := regA, regB := regB
    cxs := (List.range h).map (fun k => (regB.getD k 0, regA.getD k 0))
    nestedSvd := decide (2 ^ h > 2)
    lenD := 2 ^ h
    uSize := 2 ^ h
    vSize := 2 ^ (h + odd) }

/-! ### gate syntax with opaque register blocks -/

/-- `cx c t`, or a sub-circuit with matrix `m` composed on the wires `reg` (`reg[i]` = bit `i` of
the row / column index of `m`). -/
inductive PG (R : Type)
  | cx (c t : Nat)
  | block (reg : List Nat) (m : Nat → Nat → R)

/-- The number read on the register: `Σ_i (if b reg[i] then 2^i else 0)`. -/
def regVal : List Nat → Bits → Nat
  | [], _ => 0
  | q :: qs, b => (if b q then 1 else 0) + 2 * regVal qs b

/-- Write `x` on the register: wire `reg[i]` gets bit `i` of `x`, other wires are kept.  (For a wire
occurring twice the first occurrence counts; registers are duplicate free.) -/
def setReg (reg : List Nat) (x : Nat) (b : Bits) : Bits :=
  fun w => if w ∈ reg then x.testBit (reg.idxOf w) else b w

section Sem
variable {R : Type}

/-- A `2^|reg| × 2^|reg|` matrix on the wires `reg`:
`(M ψ)(b) = Σ_x M[regVal b, x] · ψ(b with reg := x)`. -/
def applyBlock [Zero R] [Add R] [Mul R] (reg : List Nat) (m : Nat → Nat → R) (ψ : State R) :
    State R :=
  fun b => sumTo (2 ^ reg.length) (fun x => m (regVal reg b) x * ψ (setReg reg x b))

/-- `cx` is denoted exactly like `denote (G.cx c t)`. -/
def denoteP [Zero R] [One R] [Add R] [Mul R] : PG R → State R → State R
  | .cx c t => applyMcu [(c, true)] Mat2.X t
  | .block reg m => applyBlock reg m

/-- Gates are applied in list order (head first). -/
def semP [Zero R] [One R] [Add R] [Mul R] (c : List (PG R)) (ψ : State R) : State R :=
  c.foldl (fun s g => denoteP g s) ψ

/-- `QuantumCircuit.reverse_bits()`: every wire `q ↦ n-1-q`. -/
def reverseBits (n : Nat) : PG R → PG R
  | .cx c t => .cx (n - 1 - c) (n - 1 - t)
  | .block reg m => .block (reg.map (fun q => n - 1 - q)) m

/-- Phases 1–4 of `LowRankInitialize._define_initialize` on the registers of `plan`, before
`reverse_bits`: singular values on `reg_sv` (skipped when `e_bits = 0`), fan-out CNOTs, `U` on
`reg_b`, `V.T` on `reg_a`. -/
def pleschCirc (plan : Plan) (Msv MU MV : Nat → Nat → R) : List (PG R) :=
  (if plan.ebits > 0 then [PG.block plan.regSv Msv] else []) ++
  plan.cxs.map (fun ct => PG.cx ct.1 ct.2) ++
  [PG.block plan.regB MU, PG.block plan.regA MV]

/-- `return circuit.reverse_bits()`. -/
def lowRankCirc (n : Nat) (plan : Plan) (Msv MU MV : Nat → Nat → R) : List (PG R) :=
  (pleschCirc plan Msv MU MV).map (reverseBits n)

/-- `SVDInitialize._define_initialize`: singular values on `reg_b` (always), CNOTs, `U` on `reg_b`,
`V.T` on `reg_a`; no `reverse_bits`. -/
def svdCirc (n : Nat) (Msv MU MV : Nat → Nat → R) : List (PG R) :=
  let p := svdPlan n
  [PG.block p.regB Msv] ++ p.cxs.map (fun ct => PG.cx ct.1 ct.2) ++
  [PG.block p.regB MU, PG.block p.regA MV]

end Sem

end Qclib.Plesch
