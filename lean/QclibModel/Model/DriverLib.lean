import Lean.Data.Json
/-
  Shared helpers of the line-protocol drivers (`lean/Drivers/Cxx.lean`, one per property, run with
  `lake env lean --run Drivers/Cxx.lean < ops.jsonl`): one JSON object per input line, a block of
  output lines terminated by `END` per op.
-/
open Lean
namespace Qclib.Drv

def jNat (j : Json) (k : String) : Nat := ((j.getObjValAs? Nat k).toOption).getD 0
def jInt (j : Json) (k : String) : Int := ((j.getObjValAs? Int k).toOption).getD 0
def jStr (j : Json) (k : String) : String := ((j.getObjValAs? String k).toOption).getD ""
def jBool (j : Json) (k : String) : Bool := ((j.getObjValAs? Bool k).toOption).getD false
def jFloat (j : Json) (k : String) : Float :=
  match j.getObjVal? k with
  | .ok (.num n) => n.toFloat
  | _ => 0.0
def jFloats (j : Json) (k : String) : Array Float :=
  match j.getObjVal? k with
  | .ok (.arr xs) => xs.map (fun x => match x with | .num n => n.toFloat | _ => 0.0)
  | _ => #[]
def jNats (j : Json) (k : String) : Array Nat :=
  match j.getObjVal? k with
  | .ok (.arr xs) => xs.map (fun x => (x.getNat?.toOption).getD 0)
  | _ => #[]
def jInts (j : Json) (k : String) : Array Int :=
  match j.getObjVal? k with
  | .ok (.arr xs) => xs.map (fun x => (x.getInt?.toOption).getD 0)
  | _ => #[]
def jStrs (j : Json) (k : String) : Array String :=
  match j.getObjVal? k with
  | .ok (.arr xs) => xs.map (fun x => (x.getStr?.toOption).getD "")
  | _ => #[]
def jArr (j : Json) (k : String) : Array Json :=
  match j.getObjVal? k with
  | .ok (.arr xs) => xs
  | _ => #[]

/-- Floats are printed as their IEEE bit pattern (`f<uint64>`): `toString` keeps six decimals
only.  The Python side decodes with `struct` (framework.decode_param). -/
def fbits (x : Float) : String := "f" ++ toString x.toBits

partial def loop (runOp : Json → List String) (h : IO.FS.Stream) (out : IO.FS.Stream) : IO Unit := do
  let line ← h.getLine
  if line.isEmpty then return ()
  let t := line.trimAscii.toString
  if t.isEmpty then loop runOp h out else
  match Json.parse t with
  | .ok j =>
    for l in runOp j do out.putStrLn l
    out.putStrLn "END"
    loop runOp h out
  | .error e =>
    out.putStrLn ("PARSE-ERROR " ++ e)
    out.putStrLn "END"
    loop runOp h out

def driverMain (runOp : Json → List String) : IO Unit := do
  loop runOp (← IO.getStdin) (← IO.getStdout)

end Qclib.Drv
