import QclibModel.Model.Ucr
/-
  Model of the tree machinery behind `BdspInitialize` / `DcspInitialize` (C11) — reusable for
  `TopDownInitialize` (C01):

    qclib/state_preparation/util/state_tree_preparation.py   `stateTree`
    qclib/state_preparation/util/angle_tree_preparation.py   `angleTree`
    qclib/state_preparation/util/tree_utils.py               `BT.leftmost`, `children`
    qclib/state_preparation/util/tree_register.py            `levelCounts`, `addRegAux`, `addRegister`
    qclib/state_preparation/util/tree_walk.py                `bottomUp`, `applyCswaps`, `topDown`
    qclib/state_preparation/bdsp.py, dcsp.py                 `bdsp`, `dcsp`, declared widths

  Core Lean only.  The number type `F` is abstract (operations passed as `TOps F`): `Float` in the
  driver, `ℝ` in the theorems.  Python `None` children are `BT.nil`; `level` is threaded through
  the recursions as an argument (Python stores it in the node).

  What is *input* to the model: the leaf values `(mag, arg) = (abs(a), cmath.phase(a))` of every
  amplitude — two Python builtins (K4 kernels).  Everything above the leaves is computed here.
-/
namespace Qclib

/-- Binary tree with a payload on every node; `nil` is Python's `None`. -/
inductive BT (α : Type) where
  | nil : BT α
  | node (v : α) (l r : BT α) : BT α
  deriving Repr

namespace BT
variable {α β : Type}

def isNil : BT α → Bool
  | nil => true
  | node .. => false

/-- `tree_utils.is_leaf` (on `None` Python raises; the model says `false`, never reached for n ≥ 1). -/
def isLeaf : BT α → Bool
  | node _ nil nil => true
  | _ => false

def valD (d : α) : BT α → α
  | nil => d
  | node v _ _ => v

def left : BT α → BT α
  | nil => nil
  | node _ l _ => l

def right : BT α → BT α
  | nil => nil
  | node _ _ r => r

/-- `tree_utils.leftmost`: `tree.left` if present, else `tree.right`. -/
def leftmost : BT α → BT α
  | nil => nil
  | node _ l r => if l.isNil then r else l

def size : BT α → Nat
  | nil => 0
  | node _ l r => l.size + r.size + 1

def map (f : α → β) : BT α → BT β
  | nil => nil
  | node v l r => node (f v) (l.map f) (r.map f)

def nonNil (t : BT α) : List (BT α) := if t.isNil then [] else [t]

/-- Payloads in pre-order (node, left, right). -/
def preorder : BT α → List α
  | nil => []
  | node v l r => v :: (l.preorder ++ r.preorder)

end BT

/-- `tree_utils.children`: the non-`None` children of a list of nodes, left to right. -/
def children {α : Type} (nodes : List (BT α)) : List (BT α) :=
  nodes.flatMap fun t => t.left.nonNil ++ t.right.nonNil

/-- Operations on the number type used by the tree construction. -/
structure TOps (F : Type) where
  zero : F
  one : F
  two : F
  pi : F
  neg : F → F
  add : F → F → F
  sub : F → F → F
  mul : F → F → F
  div : F → F → F
  /-- `x ** 2` -/
  sq : F → F
  sqrt : F → F
  asin : F → F
  lt : F → F → Bool
  /-- `x != 0.0` -/
  neZero : F → Bool
  /-- operations used by `ucr` (C13 model) -/
  aops : AOps F

/-- State-tree node payload: `Node.mag`, `Node.arg`. -/
structure SV (F : Type) where
  mag : F
  arg : F
  deriving Repr

/-- Angle-tree node payload: `NodeAngleTree.angle_y`, `angle_z`. -/
structure AV (F : Type) where
  y : F
  z : F
  deriving Repr

/-- Angle-tree node after `add_register`: `qubit` is `none` where Python never set the attribute. -/
structure QV (F : Type) where
  y : F
  z : F
  q : Option Nat
  deriving Repr

section
variable {F : Type} (o : TOps F)

/-- `state_decomposition(n, data)`: the complete tree of height `n` over the leaves
`a 0 … a (2^n - 1)`; an inner node has `mag = sqrt(l.mag**2 + r.mag**2)`, `arg = (l.arg+r.arg)/2`.
(The code pairs neighbours level by level from the bottom; written here as the equivalent
recursion from the root: the left half of the leaves forms the left sub-tree.) -/
def stateTree : Nat → (Nat → SV F) → BT (SV F)
  | 0, a => .node (a 0) .nil .nil
  | n+1, a =>
    let l := stateTree n a
    let r := stateTree n (fun i => a (i + 2^n))
    let lv := l.valD ⟨o.zero, o.zero⟩
    let rv := r.valD ⟨o.zero, o.zero⟩
    .node ⟨o.sqrt (o.add (o.sq lv.mag) (o.sq rv.mag)), o.div (o.add lv.arg rv.arg) o.two⟩ l r

/-- `angle_y` of `create_angles_tree` from the node's and its right child's magnitude. -/
def angleY (mag rmag : F) : F :=
  let m := if o.neZero mag then o.div rmag mag else o.zero
  if o.lt m (o.neg o.one) then o.neg o.pi
  else if o.lt o.one m then o.pi
  else o.mul o.two (o.asin m)

/-- `angle_z = 2 * (right.arg - arg)`. -/
def angleZ (arg rarg : F) : F := o.mul o.two (o.sub rarg arg)

/-- `create_angles_tree(state_tree)`; children are created iff `not is_leaf(state_tree.left)`. -/
def angleTree : BT (SV F) → BT (AV F)
  | .nil => .nil
  | .node v l r =>
    let rv := r.valD ⟨o.zero, o.zero⟩
    let av : AV F := ⟨angleY o v.mag rv.mag, angleZ o v.arg rv.arg⟩
    if l.isLeaf then .node av .nil .nil else .node av (angleTree l) (angleTree r)

end

/-! ### tree_register.py -/

section
variable {α : Type}

def levelCountsAux : Nat → List (BT α) → List Nat
  | 0, _ => []
  | fuel+1, nodes =>
    if nodes.isEmpty then [] else nodes.length :: levelCountsAux fuel (children nodes)

/-- `level_nodes` of `add_register`: number of nodes per level (`while len(nodes) > 0`; the fuel
`size + 1` is never exhausted). -/
def levelCounts (t : BT α) : List Nat := levelCountsAux (t.size + 1) [t]

end

section
variable {F : Type}

def unalloc : BT (AV F) → BT (QV F) := BT.map fun v => ⟨v.y, v.z, none⟩

/-- `_add_register(angle_tree, qubits, start_level)`: `qubits.pop(0)` for the node, then both
children above the split, only `left` (or `right` if there is no left) from the split downwards.
Returns the annotated tree and the qubits not consumed; `none` = `IndexError` of `pop`. -/
def addRegAux (sl : Nat) : Nat → BT (AV F) → List Nat → Option (BT (QV F) × List Nat)
  | _, .nil, qs => some (.nil, qs)
  | lvl, .node v l r, qs =>
    match qs with
    | [] => none
    | q :: qs =>
      if lvl < sl then
        match addRegAux sl (lvl+1) l qs with
        | none => none
        | some (l', qs1) =>
          match addRegAux sl (lvl+1) r qs1 with
          | none => none
          | some (r', qs2) => some (.node ⟨v.y, v.z, some q⟩ l' r', qs2)
      else if l.isNil then
        match addRegAux sl (lvl+1) r qs with
        | none => none
        | some (r', qs1) => some (.node ⟨v.y, v.z, some q⟩ .nil r', qs1)
      else
        match addRegAux sl (lvl+1) l qs with
        | none => none
        | some (l', qs1) => some (.node ⟨v.y, v.z, some q⟩ l' (unalloc r), qs1)

/-- Result of `add_register`. -/
structure Alloc (F : Type) where
  tree : BT (QV F)
  /-- `nqubits` computed from the level counts -/
  nqubits : Nat
  noutput : Nat
  /-- width of the circuit: `noutput` + (ancilla register if `nancilla > 0`) -/
  circWidth : Nat
  /-- qubits of the list that `_add_register` did not consume -/
  rest : List Nat

/-- The list handed to `_add_register`: `output[::-1]` then `ancilla[::-1]`. -/
def qubitOrder (noutput nqubits : Nat) : List Nat :=
  (List.range noutput).reverse
    ++ (if noutput < nqubits then (List.range' noutput (nqubits - noutput)).reverse else [])

/-- `add_register(circuit, angle_tree, start_level)`; `none` = `IndexError`
(`level_nodes[start_level]` out of range, or `pop` from an empty list). -/
def addRegister (t : BT (AV F)) (sl : Nat) : Option (Alloc F) :=
  let ln := levelCounts t
  let noutput := ln.length
  match ln[sl]? with
  | none => none
  | some c =>
    let nqubits := (ln.take sl).sum + c * (noutput - sl)
    match addRegAux sl 0 t (qubitOrder noutput nqubits) with
    | none => none
    | some (t', rest) => some ⟨t', nqubits, noutput, noutput + (nqubits - noutput), rest⟩

/-- Reading `.qubit`.  On a node that never received one Python raises `AttributeError`; the
model returns wire 0 there — `readsOk` below is the executable check that this is never reached,
and `C11_alloc` proves it for every complete tree. -/
def wire (q : Option Nat) : Nat := q.getD 0

/-! ### tree_walk.py -/

/-- The `while left and right` loop of `_apply_cswaps`. -/
def cswapChain (c : Nat) : BT (QV F) → BT (QV F) → Circ F
  | .node vl ll _, .node vr rl rr =>
    .cswap c (wire vl.q) (wire vr.q) :: cswapChain c ll (BT.leftmost (.node vr rl rr))
  | _, _ => []

variable (o : TOps F)

/-- `_apply_cswaps(angle_tree, circuit)`. -/
def applyCswaps : BT (QV F) → Circ F
  | .nil => []
  | .node v l r => if o.neZero v.y then cswapChain (wire v.q) l r else []

def nodeRots (v : QV F) : Circ F :=
  (if o.neZero v.y then [G.ry v.y (wire v.q)] else [])
    ++ (if o.neZero v.z then [G.rz v.z (wire v.q)] else [])

/-- `bottom_up(angle_tree, circuit, start_level)` (`lvl` = `angle_tree.level`). -/
def bottomUp (sl : Nat) : Nat → BT (QV F) → Circ F
  | _, .nil => []
  | lvl, .node v l r =>
    if lvl < sl then
      nodeRots o v ++ bottomUp sl (lvl+1) l ++ bottomUp sl (lvl+1) r ++ applyCswaps o (.node v l r)
    else []

/-- The two multiplexers `top_down` appends for one level of a sub-tree: targets = all nodes of
that level (left to right), target wire = wire of the first, controls = wires of the chain nodes
above, passed to `append` as `[target] + controls[::-1]`. -/
def levelMux (ctrl : List Nat) (targets : List (BT (QV F))) : Circ F :=
  match targets with
  | [] => []          -- `target_nodes[0]` IndexError; never reached (the chain node is a target)
  | t0 :: _ =>
    let ys := targets.map fun t => (t.valD ⟨o.zero, o.zero, none⟩).y
    let zs := targets.map fun t => (t.valD ⟨o.zero, o.zero, none⟩).z
    let k := Nat.log2 targets.length
    let anyY := ys.any o.neZero
    let anyZ := zs.any o.neZero
    let ws := wire (t0.valD ⟨o.zero, o.zero, none⟩).q :: ctrl.reverse
    (if anyY then place (ucr o.aops .Y .CX k (fun i => ys.getD i o.zero) (!anyZ)) ws else [])
      ++ (if anyZ then place (ucr o.aops .Z .CX k (fun i => zs.getD i o.zero) (!anyY)).reverse ws
          else [])

/-- `top_down` from a sub-tree root downwards along `angle_tree.left`
(`control_nodes` as wires, `target_nodes` already advanced to the current level). -/
def topDownChain : BT (QV F) → List Nat → List (BT (QV F)) → Circ F
  | .nil, _, _ => []
  | .node v l _, ctrl, targets =>
    levelMux o ctrl targets ++ topDownChain l (ctrl ++ [wire v.q]) (children targets)

/-- `top_down(angle_tree, circuit, start_level)`. -/
def topDown (sl : Nat) : Nat → BT (QV F) → Circ F
  | _, .nil => []
  | lvl, .node v l r =>
    if lvl < sl then topDown sl (lvl+1) l ++ topDown sl (lvl+1) r
    else topDownChain o (.node v l r) [] [.node v l r]

/-! ### Which `.qubit` attributes the walks read -/

def hasQ (t : BT (QV F)) : Bool :=
  match t with
  | .nil => false
  | .node v _ _ => v.q.isSome

/-- Every node on the `left…`/`leftmost…` descent of `_apply_cswaps` has a qubit. -/
def chainOk : BT (QV F) → BT (QV F) → Bool
  | .node vl ll lr, .node vr rl rr =>
    hasQ (.node vl ll lr) && hasQ (.node vr rl rr) && chainOk ll (BT.leftmost (.node vr rl rr))
  | _, _ => true

def spineOk : BT (QV F) → Bool
  | .nil => true
  | .node v l _ => v.q.isSome && spineOk l

/-- All `.qubit` reads of `bottom_up` + `top_down` hit nodes that received a qubit. -/
def readsOk (sl : Nat) : Nat → BT (QV F) → Bool
  | _, .nil => true
  | lvl, .node v l r =>
    if lvl < sl then
      v.q.isSome && chainOk l r && readsOk sl (lvl+1) l && readsOk sl (lvl+1) r
    else spineOk (.node v l r)

/-! ### bdsp.py / dcsp.py -/

/-- `int(ceil(log2(len(params)) / 2))` — `log2` of a power of two is exact in IEEE, so this is
`⌈n/2⌉ = (n+1)/2` in integer arithmetic with `n = log2 len`. -/
def bdspDefaultSplit (len : Nat) : Nat := (Nat.log2 len + 1) / 2

/-- `BdspInitialize._get_num_qubits`: `(split + 1) * 2 ** (n_qubits - split) - 1` with
`n_qubits = int(log2(len))` (modelled for `split ≤ n_qubits`, where `**` stays an integer). -/
def bdspDeclared (len s : Nat) : Nat := (s + 1) * 2 ^ (Nat.log2 len - s) - 1

/-- `DcspInitialize._get_num_qubits`: `len(params) - 1`. -/
def dcspDeclared (len : Nat) : Nat := len - 1

structure TreeOut (F : Type) where
  split : Nat
  declared : Nat
  alloc : Alloc F
  startLevel : Nat
  gates : Circ F

/-- `BdspInitialize(params, opt_params={'split': s})` → declared width and `definition`.
Domain of the model: `len = 2^n`, `n ≥ 1`, `1 ≤ split ≤ n` (the property's quantifier); `none`
outside it and where the code raises. -/
def bdsp (len : Nat) (leaves : Nat → SV F) (split : Option Nat) : Option (TreeOut F) :=
  let n := Nat.log2 len
  let s := split.getD (bdspDefaultSplit len)
  if n = 0 ∨ s = 0 ∨ n < s then none else
  let atree := angleTree o (stateTree o n leaves)
  match addRegister atree (n - s) with
  | none => none
  | some a =>
    some ⟨s, bdspDeclared len s, a, n - s,
      topDown o (n - s) 0 a.tree ++ bottomUp o (n - s) 0 a.tree⟩

/-- `DcspInitialize(params)`: `add_register(…, n-1)` then `bottom_up(…, n)`. -/
def dcsp (len : Nat) (leaves : Nat → SV F) : Option (TreeOut F) :=
  let n := Nat.log2 len
  if n = 0 then none else
  let atree := angleTree o (stateTree o n leaves)
  match addRegister atree (n - 1) with
  | none => none
  | some a => some ⟨1, dcspDeclared len, a, n, bottomUp o n 0 a.tree⟩

/-- Allocation table: `(level, index, qubit or -1)` of every node, pre-order. -/
def allocTable : Nat → Nat → BT (QV F) → List (Nat × Nat × Int)
  | _, _, .nil => []
  | lvl, idx, .node v l r =>
    (lvl, idx, match v.q with | some q => (q : Int) | none => -1)
      :: (allocTable (lvl+1) (2*idx) l ++ allocTable (lvl+1) (2*idx+1) r)

end
end Qclib
