import QclibModel.Model.Gate
/-
  Model of `qclib/state_preparation/fnpoints.py::FnPointsInitialize` (C18).  Core Lean only.

  Register layout of `_define_initialize` (circuit `QuantumCircuit(reg_x, reg_g, reg_c)`):
    x : qubits `0 … n-1`, **reversed** by `reg_x = reg_x[::-1]`, so character `j` of a key sits on
        qubit `n-1-j` (⇒ `int(key, 2)` is the little-endian index of the x register);
    g : qubits `n … 2n-2` (`n-1` work qubits);  c : `c[0] = 2n-1`, `c[1] = 2n`.
  A point is (bit pattern `z`, output value `s`); `z j` is character `j` of the key.

  The code iterates `list(enumerate(params))[::-1]`: the model recurses over the *reversed* point
  list; the enumerate index `idx_p` of the head is then the length of the tail.
-/
namespace Qclib

structure FnPoint where
  z : Nat → Bool
  s : Int

/-- Wire names used by one instance of the circuit. -/
structure FnLayout where
  xw : Nat → Nat      -- wire of `reg_x[j]` *after* the reversal
  gw : Nat → Nat      -- wire of `reg_g[k]`
  c0 : Nat
  c1 : Nat

/-- The layout the code builds. -/
def fnCodeLayout (n : Nat) : FnLayout :=
  { xw := fun j => n - 1 - j, gw := fun k => n + k, c0 := 2 * n - 1, c1 := 2 * n }

/-- Gate parameters as functions of the enumerate index and the output value.  `theta p` stands
for `-2·arccos √(p/(p+1))`, `lam s` for `-s·2π/N'`, `phi s` for `-lam s`, `zero` for the fourth
(`gamma`) argument `0` of `cu`. -/
structure FnAngles (Θ : Type) where
  theta : Nat → Θ
  lam : Int → Θ
  phi : Int → Θ
  zero : Θ

section
variable {Θ : Type}

/-- `_flipflop01`. -/
def fnFlipflop01 (L : FnLayout) (z : Nat → Bool) : Circ Θ :=
  (if z 0 then [] else [G.x (L.xw 0)]) ++ (if z 1 then [] else [G.x (L.xw 1)])

/-- First ladder stage: `_flipflop01; ccx(x[0], x[1], g[0]); _flipflop01`. -/
def fnStage0 (L : FnLayout) (z : Nat → Bool) : Circ Θ :=
  fnFlipflop01 L z ++ [G.ccx (L.xw 0) (L.xw 1) (L.gw 0)] ++ fnFlipflop01 L z

/-- Ladder stage `k ≥ 2`: optional X, `ccx(x[k], g[k-2], g[k-1])`, optional X. -/
def fnStage (L : FnLayout) (z : Nat → Bool) (k : Nat) : Circ Θ :=
  (if z k then [] else [G.x (L.xw k)])
  ++ [G.ccx (L.xw k) (L.gw (k - 2)) (L.gw (k - 1))]
  ++ (if z k then [] else [G.x (L.xw k)])

/-- The two-stage Toffoli ladder of one iteration: compute the AND chain into `g`, copy
`g[n-2]` onto `c[0]`, uncompute. -/
def fnLadder (L : FnLayout) (n : Nat) (z : Nat → Bool) : Circ Θ :=
  fnStage0 L z
  ++ (List.range (n - 2)).flatMap (fun i => fnStage L z (i + 2))
  ++ [G.cx (L.gw (n - 2)) L.c0]
  ++ (List.range (n - 2)).reverse.flatMap (fun i => fnStage L z (i + 2))
  ++ fnStage0 L z

/-- Indices `j < n` where the previous point's bits differ from this one's. -/
def fnDiff (n : Nat) (prev z : Nat → Bool) : List Nat :=
  (List.range n).filter (fun j => prev j != z j)

/-- Head of one iteration: move the "generator" branch (`c[1] = 0`) from the previous point to
this one and raise `c[0]` on it. -/
def fnMove (L : FnLayout) (n : Nat) (prev z : Nat → Bool) : Circ Θ :=
  [G.x L.c1]
  ++ (fnDiff n prev z).map (fun j => G.cx L.c1 (L.xw j))
  ++ [G.cx L.c1 L.c0, G.x L.c1]

/-- `_apply_smatrix`: `circuit.cu(theta, phi, lamb, 0, reg_c[0], reg_c[1])`. -/
def fnSmatrix (L : FnLayout) (A : FnAngles Θ) (idx : Nat) (s : Int) : Circ Θ :=
  [G.cu (A.theta idx) (A.phi s) (A.lam s) A.zero L.c0 L.c1]

/-- One iteration of the loop body. -/
def fnIter (L : FnLayout) (n : Nat) (A : FnAngles Θ) (prev : Nat → Bool) (idx : Nat)
    (pt : FnPoint) : Circ Θ :=
  fnMove L n prev pt.z ++ fnSmatrix L A idx pt.s ++ fnLadder L n pt.z

/-- The loop over the reversed point list; `prev` is `bits_z0`. -/
def fnLoop (L : FnLayout) (n : Nat) (A : FnAngles Θ) : (Nat → Bool) → List FnPoint → Circ Θ
  | _, [] => []
  | prev, pt :: rest => fnIter L n A prev rest.length pt ++ fnLoop L n A pt.z rest

/-- `_define_initialize` for the points in dictionary order. -/
def fnPointsAt (L : FnLayout) (n : Nat) (A : FnAngles Θ) (pts : List FnPoint) : Circ Θ :=
  fnLoop L n A (fun _ => false) pts.reverse ++ [G.x L.c1]

end

/-- `max(params.values())` (the caller guarantees a non-empty list). -/
def fnMaxS (ss : List Int) : Int := ss.foldl max (ss.headD 0)

/-- `self.n_output_values` as `__init__` computes it: the default `max s − 1`, or the larger of the
requested value and that default. -/
def fnNPrime (N : Option Int) (ss : List Int) : Int :=
  let d := fnMaxS ss - 1
  match N with
  | none => d
  | some v => max v d

/-- The whole constructor + `_define`: rejects what the code rejects, in the code's order (no
points: `list(params.keys())[0]` raises IndexError; `N' = 0`: float division by zero in
`_apply_smatrix`, reached before the ladder; `n < 2`: IndexError in `_flipflop01`). -/
def fnPointsCode {Θ : Type} (mk : Int → FnAngles Θ) (n : Nat) (pts : List FnPoint)
    (N : Option Int) : Except String (Circ Θ) :=
  if pts.isEmpty then .error "IndexError"
  else
    let N' := fnNPrime N (pts.map (·.s))
    if N' == 0 then .error "ZeroDivisionError"
    else if n < 2 then .error "IndexError"
    else .ok (fnPointsAt (fnCodeLayout n) n (mk N') pts)

/-- Float parameters, evaluated in the code's order:
`theta = -2 * arccos(sqrt(idx / (idx + 1)))`, `lamb = -s * 2 * pi / N'`, `phi = -lamb`. -/
def fnFloatAngles (N' : Int) : FnAngles Float :=
  let pi : Float := 3.141592653589793
  let lam := fun (s : Int) => (-(Float.ofInt s)) * 2 * pi / Float.ofInt N'
  { theta := fun p => -2 * Float.acos (Float.sqrt (p.toFloat / (p.toFloat + 1)))
    lam := lam
    phi := fun s => -(lam s)
    zero := 0 }

end Qclib
