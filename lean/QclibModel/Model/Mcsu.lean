import QclibModel.Sem.Basic
import QclibModel.Model.Gate
import QclibModel.Model.Mcx
/-
  Model of `qclib/gates/ldmcsu.py` (`Ldmcsu`, `LdMcSpecialUnitary`),
  `qclib/gates/multitargetmcsu2.py` (`MultiTargetMCSU2`) and of the pattern / wire slicing they
  share (C04, part A).  Core Lean only.

  The generators emit the gate *skeleton* of the definition in the order of `QuantumCircuit.data`:
  `x`, `h`, `cx`, `ccx`, opaque one-qubit `unitary` gates with their 2×2 matrices, the one-control
  controlled unitary that qiskit's `.control(1, ctrl_state)` builds (K4: one opaque gate), and the
  dirty-ancilla MCX sub-circuits as ONE constructor each (`mcxv` for `McxVchainDirty(...).definition`
  appended on a wire list, `lmcx` for `LinearMcx(...).definition`).  For the tie the driver expands
  those two constructors to primitives through the C05 model (`vchainW`, `linearMcx` of
  `Model/Mcx.lean`, with qiskit's `.inverse()` = reversed list of inverted gates); the theorems
  interpret them through an explicit hypothesis (the ideal MCX), see `Spec/Mcsu.lean`.

  Numbers: the real-number operations are a parameter (`ROps K`): `Float` in the driver, `ℝ` in
  the theorems, so the functions the tie executes are the functions the theorems speak about.
-/
namespace Qclib.Mcsu

/-! ### Scalars, complex numbers, 2×2 complex matrices -/

/-- The operations on reals the code uses.  `isZero` is both `x_value == 0` and
`cmath.isclose(x, 0.0)` (default `rel_tol = 1e-9`, `abs_tol = 0`: true iff `x = 0`).
`le` is only used by the unitarity check of `UnitaryGate`. -/
structure ROps (K : Type) where
  zero : K
  one : K
  two : K
  add : K → K → K
  sub : K → K → K
  mul : K → K → K
  div : K → K → K
  neg : K → K
  sqrt : K → K
  /-- `cos (θ / 2)` and `sin (θ / 2)` -/
  cosH : K → K
  sinH : K → K
  /-- principal fourth root of a complex number (`(z + 0j) ** (1 / 4)`), as a pair -/
  root4 : K → K → K × K
  isZero : K → Bool
  /-- `x < 0` -/
  isNeg : K → Bool
  /-- closeness test of qiskit's `is_unitary_matrix` (`np.allclose`, `atol = 1e-8`, `rtol = 1e-5`)
  for one complex entry: `close dre dim tgt` ↔ `hypot(dre, dim) <= atol + rtol * abs(tgt)` where
  `dre + i·dim` is entry minus target.  A `NaN` fails it. -/
  close : K → K → K → Bool

/-- A complex number as a pair of reals. -/
structure Cx (K : Type) where
  re : K
  im : K

variable {K : Type}

namespace Cx
def ofReal (o : ROps K) (x : K) : Cx K := ⟨x, o.zero⟩
def zero (o : ROps K) : Cx K := ⟨o.zero, o.zero⟩
def one (o : ROps K) : Cx K := ⟨o.one, o.zero⟩
def add (o : ROps K) (z w : Cx K) : Cx K := ⟨o.add z.re w.re, o.add z.im w.im⟩
def sub (o : ROps K) (z w : Cx K) : Cx K := ⟨o.sub z.re w.re, o.sub z.im w.im⟩
def neg (o : ROps K) (z : Cx K) : Cx K := ⟨o.neg z.re, o.neg z.im⟩
def conj (o : ROps K) (z : Cx K) : Cx K := ⟨z.re, o.neg z.im⟩
def mul (o : ROps K) (z w : Cx K) : Cx K :=
  ⟨o.sub (o.mul z.re w.re) (o.mul z.im w.im), o.add (o.mul z.re w.im) (o.mul z.im w.re)⟩
end Cx

abbrev CMat (K : Type) := Mat2 (Cx K)

/-- Conjugate transpose (`UnitaryGate.inverse()`). -/
def adj (o : ROps K) (m : CMat K) : CMat K :=
  ⟨Cx.conj o m.a, Cx.conj o m.c, Cx.conj o m.b, Cx.conj o m.d⟩

def cmul (o : ROps K) (m n : CMat K) : CMat K :=
  ⟨Cx.add o (Cx.mul o m.a n.a) (Cx.mul o m.b n.c), Cx.add o (Cx.mul o m.a n.b) (Cx.mul o m.b n.d),
   Cx.add o (Cx.mul o m.c n.a) (Cx.mul o m.d n.c), Cx.add o (Cx.mul o m.c n.b) (Cx.mul o m.d n.d)⟩

/-- qiskit's `is_unitary_matrix` (`np.allclose(M†·M, I)`), which `UnitaryGate(data)` runs and
raises `ValueError("Input matrix is not unitary.")` on.  A `NaN` entry fails it. -/
def unitaryOk (o : ROps K) (m : CMat K) : Bool :=
  let p := cmul o (adj o m) m
  o.close (o.sub p.a.re o.one) p.a.im o.one && o.close p.b.re p.b.im o.zero
    && o.close p.c.re p.c.im o.zero && o.close (o.sub p.d.re o.one) p.d.im o.one

/-! ### Skeleton gates -/

/-- Gates of the skeleton.  `mcxv k nt ws cs ao inv` is
`McxVchainDirty(k, num_target_qubit = nt, ctrl_state = cs, action_only = ao).definition`
(`.inverse()` of it when `inv`) appended on the wire list `ws` (controls, then dirty ancillas,
then targets); `lmcx k ws ao inv` is `LinearMcx(k, action_only = ao).definition` on `ws`
(controls, target, ancilla). -/
inductive SG (K : Type) where
  | x (q : Nat)
  | h (q : Nat)
  | cx (c t : Nat)
  | ccx (a b t : Nat)
  | un (m : CMat K) (q : Nat)
  | cun (m : CMat K) (c t : Nat) (v : Bool)
  | mcxv (k nt : Nat) (ws : List Nat) (cs : Option (List Bool)) (ao inv : Bool)
  | lmcx (k : Nat) (ws : List Nat) (ao inv : Bool)

/-! ### Pattern and wire slicing (`linear_depth_mcv`, `half_linear_depth_mcv`, `clinear_depth_mcv`) -/

/-- `k_1 = int(np.ceil(num_ctrl / 2.0))` -/
def k1 (k : Nat) : Nat := (k + 1) / 2
/-- `k_2 = int(np.floor(num_ctrl / 2.0))` -/
def k2 (k : Nat) : Nat := k / 2

/-- Python `l[a:b]` for `0 ≤ a, b`. -/
def pySlice {α : Type} (l : List α) (a b : Nat) : List α := (l.take b).drop a

/-- `ctrl_state[::-1][:k_1][::-1]` -/
def csK1 {α : Type} (cs : List α) (k : Nat) : List α := ((cs.reverse).take (k1 k)).reverse
/-- `ctrl_state[::-1][k_1:][::-1]` -/
def csK2 {α : Type} (cs : List α) (k : Nat) : List α := ((cs.reverse).drop (k1 k)).reverse

/-- `controls[:k_1] + controls[k_1 : 2 * k_1 - 2] + targets` -/
def wires1 (cw : List Nat) (ts : List Nat) : List Nat :=
  let k := cw.length
  cw.take (k1 k) ++ pySlice cw (k1 k) (2 * k1 k - 2) ++ ts
/-- `controls[k_1:] + controls[k_1 - k_2 + 2 : k_1] + targets` -/
def wires2 (cw : List Nat) (ts : List Nat) : List Nat :=
  let k := cw.length
  cw.drop (k1 k) ++ pySlice cw (k1 k - k2 k + 2) (k1 k) ++ ts

/-- The MCX on the first half (`mcx_1`, `mcx_3`). -/
def mcxHalf1 (cw ts : List Nat) (cs : Option (List Bool)) : SG K :=
  .mcxv (k1 cw.length) ts.length (wires1 cw ts) (cs.map (csK1 · cw.length)) false false
/-- The MCX on the second half (`mcx_2`, `mcx_4`; `McxVchainDirty(0)` when there is one control
has an empty definition – the model keeps the constructor with `k = 0`, which expands to `[]`). -/
def mcxHalf2 (cw ts : List Nat) (cs : Option (List Bool)) (ao inv : Bool) : SG K :=
  .mcxv (k2 cw.length) ts.length (wires2 cw ts) (cs.map (csK2 · cw.length)) ao inv

/-! ### `_get_x_z`, `_compute_gate_a`, the `s_op` of `half_linear_depth_mcv` -/

def secondaryReal (o : ROps K) (u : CMat K) : Bool := o.isZero u.b.im && o.isZero u.c.im
def mainReal (o : ROps K) (u : CMat K) : Bool := o.isZero u.a.im && o.isZero u.d.im

/-- `Ldmcsu._get_x_z`: `(x, z)`; `x` is real in both branches (first branch: `x_value = su2[0, 1].real`; the
imaginary part passed the `isclose(·, 0.0, abs_tol=1e-12)` test, which the exact reading `isZero` takes as `= 0` –
the driver snaps imaginary parts up to 1e-12 to 0 before calling the model, see `Drivers/C04.lean`). -/
def getXZ (o : ROps K) (u : CMat K) : K × Cx K :=
  if secondaryReal o u then (u.b.re, u.d)
  else (o.neg u.b.re, ⟨u.d.re, o.sub u.d.im u.b.im⟩)

/-- `[[alpha, -conj(beta)], [beta, conj(alpha)]]` with `beta` real. -/
def sMat (o : ROps K) (alpha : Cx K) (beta : K) : CMat K :=
  ⟨alpha, ⟨o.neg beta, o.zero⟩, ⟨beta, o.zero⟩, Cx.conj o alpha⟩

/-- `|a|` from the sign test. -/
def absK (o : ROps K) (a : K) : K := if o.isNeg a then o.neg a else a

/-- `np.hypot(a, b)`: `sqrt(a² + b²)` without squaring a small number, as
`m · sqrt(1 + (n/m)²)` with `m = max(|a|, |b|)`, `n = min(|a|, |b|)` (`0` when both vanish).
Over `ℝ` this is `Real.sqrt (a*a + b*b)` (`hypotK_real`). -/
def hypotK (o : ROps K) (a b : K) : K :=
  let a' := absK o a
  let b' := absK o b
  let sw := o.isNeg (o.sub a' b')
  let m := if sw then b' else a'
  let n := if sw then a' else b'
  if o.isZero m then o.zero
  else o.mul m (o.sqrt (o.add o.one (o.mul (o.div n m) (o.div n m))))

/-- `Ldmcsu._compute_gate_a(x, z)` (formulation of /repo 0b6c65b: `root = sqrt(1 + Re z)` is
`hypot(x, Im z) / sqrt(1 - Re z)` when `Re z < 0`, so that `x²` cannot underflow next to `z = -1`;
the test `x == 0 or root == 0` is the nested `if`).  In exact arithmetic this is the closed form
of the earlier `one_plus_re` formulation (`sqrt(one_plus_re / 2) = root / sqrt 2`,
`2 sqrt(one_plus_re · c) = 2 · root · sqrt c`): `computeGateA_eq` states the same matrix. -/
def computeGateA (o : ROps K) (x : K) (z : Cx K) : CMat K :=
  if o.isZero x then
    let r := o.root4 z.re z.im
    sMat o ⟨r.1, r.2⟩ o.zero
  else
    let root := if o.isNeg z.re then
        o.div (hypotK o x z.im) (o.sqrt (o.sub o.one z.re))
      else o.sqrt (o.add z.re o.one)
    if o.isZero root then
      let r := o.root4 z.re z.im
      sMat o ⟨r.1, r.2⟩ o.zero
    else
      -- `half = root / np.sqrt(2.0) + 1.0`
      let half := o.add (o.div root (o.sqrt o.two)) o.one
      let den := o.mul (o.mul o.two root) (o.sqrt half)
      sMat o ⟨o.sqrt (o.div half o.two), o.div z.im den⟩ (o.div x den)

/-- `s_op` of `half_linear_depth_mcv(x, z)`. -/
def halfS (o : ROps K) (x : K) (z : Cx K) : CMat K :=
  let den := o.sqrt (o.mul o.two (o.add z.re o.one))
  sMat o ⟨o.sqrt (o.div (o.add z.re o.one) o.two), o.div z.im den⟩ (o.div x den)

/-- `np.array([[-1, 1], [1, 1]]) * 1 / np.sqrt(2)` -/
def hEquiv (o : ROps K) : CMat K :=
  let r := o.div o.one (o.sqrt o.two)
  ⟨⟨o.neg r, o.zero⟩, ⟨r, o.zero⟩, ⟨r, o.zero⟩, ⟨r, o.zero⟩⟩

/-- Emit an opaque `UnitaryGate`; `none` when qiskit's constructor raises. -/
def unGate (o : ROps K) (m : CMat K) (q : Nat) : Option (SG K) :=
  if unitaryOk o m then some (.un m q) else none

/-! ### `Ldmcsu` -/

/-- `linear_depth_mcv(su2, controls, target, ctrl_state, general_su2_optimization)`. -/
def linearDepthMcv (o : ROps K) (u : CMat K) (cw : List Nat) (t : Nat) (cs : Option (List Bool))
    (gso : Bool) : Option (List (SG K)) :=
  let xz := getXZ o u
  let opA := computeGateA o xz.1 xz.2
  match unGate o opA t, unGate o (adj o opA) t with
  | some ga, some gai =>
    some ((if gso then [] else [mcxHalf1 cw [t] cs])
      ++ [ga, mcxHalf2 cw [t] cs gso true, gai, mcxHalf1 cw [t] cs, ga,
          mcxHalf2 cw [t] cs false false, gai])
  | _, _ => none

/-- `half_linear_depth_mcv(x, z, controls, target, ctrl_state, inverse)`. -/
def halfLinearDepthMcv (o : ROps K) (x : K) (z : Cx K) (cw : List Nat) (t : Nat)
    (cs : Option (List Bool)) (inverse : Bool) : Option (List (SG K)) :=
  let s := halfS o x z
  match unGate o s t, unGate o (adj o s) t, unGate o (hEquiv o) t with
  | some gs, some gsi, some gh =>
    if inverse then
      some [.h t, gs, mcxHalf2 cw [t] cs true false, gsi, gh]
    else
      some [mcxHalf1 cw [t] cs, gh, gs, mcxHalf2 cw [t] cs false false, gsi, .h t]
  | _, _, _ => none

/-- The value `.control(1, ctrl_state = s)` gives the control: `None ↦ 1`, else the character. -/
def oneCtrlVal (cs : Option (List Bool)) : Bool :=
  match cs with
  | none => true
  | some p => p.getLastD true

/-- `Ldmcsu(unitary, k, ctrl_state).definition` on controls `cw`, target `t`.  `eig` is the result
of `np.linalg.eig(unitary)` (a K4 input): the two eigenvalues and the matrix of eigenvectors. -/
def ldmcsu (o : ROps K) (u : CMat K) (eig : Cx K × Cx K × CMat K) (cw : List Nat) (t : Nat)
    (cs : Option (List Bool)) : Option (List (SG K)) :=
  match cw with
  | [] => none
  | [c] => some [.cun u c t (oneCtrlVal cs)]
  | _ =>
    let mr := mainReal o u
    let sr := secondaryReal o u
    if !mr && !sr then
      -- `x_vecs = -eig_vecs[0, 1].real`, `z_vecs = eig_vecs[1, 1] - eig_vecs[0, 1].imag * 1.0j`: the eigenvector
      -- matrix has a real main diagonal, so the code reads it with that formula of `_get_x_z` in every case (also when
      -- the eigenvectors are real: rotations about an axis in the XZ plane).
      let v := eig.2.2
      let xz : K × Cx K := (o.neg v.b.re, ⟨v.d.re, o.sub v.d.im v.b.im⟩)
      let d : CMat K := ⟨eig.1, Cx.zero o, Cx.zero o, eig.2.1⟩
      match halfLinearDepthMcv o xz.1 xz.2 cw t cs true, linearDepthMcv o d cw t cs true,
            halfLinearDepthMcv o xz.1 xz.2 cw t cs false with
      | some a, some b, some c => some (a ++ b ++ c)
      | _, _, _ => none
    else
      match linearDepthMcv o u cw t cs false with
      | some b => some ((if !sr then [.h t] else []) ++ b ++ (if !sr then [.h t] else []))
      | none => none

/-! ### `LdMcSpecialUnitary` -/

def rzMat (o : ROps K) (θ : K) : CMat K :=
  ⟨⟨o.cosH θ, o.neg (o.sinH θ)⟩, Cx.zero o, Cx.zero o, ⟨o.cosH θ, o.sinH θ⟩⟩
def ryMat (o : ROps K) (θ : K) : CMat K :=
  ⟨⟨o.cosH θ, o.zero⟩, ⟨o.neg (o.sinH θ), o.zero⟩, ⟨o.sinH θ, o.zero⟩, ⟨o.cosH θ, o.zero⟩⟩

/-- `get_abc_operators(beta, gamma, delta)` → `(A, B, C)`. -/
def abcOperators (o : ROps K) (beta gamma delta : K) : CMat K × CMat K × CMat K :=
  let a := cmul o (rzMat o beta) (ryMat o (o.div gamma o.two))
  let b := cmul o (ryMat o (o.neg (o.div gamma o.two)))
    (rzMat o (o.neg (o.div (o.add delta beta) o.two)))
  let c := rzMat o (o.div (o.sub delta beta) o.two)
  (a, b, c)

/-- ZYZ angles `(theta, phi, lam)` as `_params_zyz` returns them (K4 input). -/
structure Zyz (K : Type) where
  theta : K
  phi : K
  lam : K

/-- `apply_ctrl_state`: `for i, ctrl in enumerate(ctrl_state[::-1]): if ctrl == '0': x(controls[i])`.
`zeroWires cw r` walks the control list and the *reversed* string `r` together and returns the
wires that get an `x`; `none` on the `IndexError` (a `'0'` at a position beyond the controls). -/
def zeroWires : List Nat → List Bool → Option (List Nat)
  | _, [] => some []
  | [], v :: r => if v then zeroWires [] r else none
  | c :: cw, v :: r => (zeroWires cw r).map (fun zs => if v then zs else c :: zs)

def ctrlXsSG (cw : List Nat) (cs : List Bool) : Option (List (SG K)) :=
  (zeroWires cw cs.reverse).map (fun zs => zs.map SG.x)

/-- The five-gate "controlled-`M` on one control by ABC": `c, cx, b, cx, a`. -/
def ctrlByAbc (o : ROps K) (z : Zyz K) (anc t : Nat) : Option (List (SG K)) :=
  let abc := abcOperators o z.phi z.theta z.lam
  match unGate o abc.2.2 t, unGate o abc.2.1 t, unGate o abc.1 t with
  | some c, some b, some a => some [c, .cx anc t, b, .cx anc t, a]
  | _, _, _ => none

/-- qiskit `mcx(controls, target)` for one or two controls. -/
def smallMcx (cw : List Nat) (t : Nat) : Option (SG K) :=
  match cw with
  | [c] => some (.cx c t)
  | [c, d] => some (.ccx c d t)
  | _ => none

/-- `LdMcSpecialUnitary(unitary, k, ctrl_state).definition`; `zu` are the ZYZ angles of the
unitary, `za zb zc` those of the matrices `A`, `B`, `C` (used when `k ≥ 3`).  `cs = none` stands
for the default `'1' * k`. -/
def ldmcSpecial (o : ROps K) (zu za zb zc : Zyz K) (cw : List Nat) (t : Nat)
    (cs : Option (List Bool)) : Option (List (SG K)) :=
  if cw.length = 0 then none else
  let pat := cs.getD (List.replicate cw.length true)
  match ctrlXsSG cw pat with
  | none => none
  | some xs =>
    let abc := abcOperators o zu.phi zu.theta zu.lam
    let body : Option (List (SG K)) :=
      if cw.length < 3 then
        match unGate o abc.2.2 t, smallMcx cw t, unGate o abc.2.1 t, unGate o abc.1 t with
        | some c, some m, some b, some a => some [c, m, b, m, a]
        | _, _, _, _ => none
      else
        let anc := cw.getLastD 0
        let ao := !(decide (cw.length < 6))
        let ws := cw.dropLast ++ [t] ++ [anc]
        match ctrlByAbc o zc anc t, ctrlByAbc o zb anc t, ctrlByAbc o za anc t with
        | some gc, some gb, some ga =>
          some (gc ++ [.lmcx (cw.length - 1) ws ao false] ++ gb
            ++ [.lmcx (cw.length - 1) ws ao true] ++ ga)
        | _, _, _ => none
    body.map (fun b => xs ++ b ++ xs)

/-! ### `MultiTargetMCSU2` -/

/-- Sequence all `Option`s. -/
def allSome {α : Type} : List (Option α) → Option (List α)
  | [] => some []
  | none :: _ => none
  | some a :: r => (allSome r).map (a :: ·)

/-- `MultiTargetMCSU2(unitaries, k, num_target, ctrl_state).definition` for a *list* of unitaries
(controls `cw`, targets `ts`, `unitaries[j]` on `ts[j]`; the gates `A_j` are appended on the wires
`num_ctrl + idx`, i.e. `ts[idx]` in the definition's own layout). -/
def multiTarget (o : ROps K) (us : List (CMat K)) (cw ts : List Nat) (cs : Option (List Bool)) :
    Option (List (SG K)) :=
  -- one control: every target gets the plain controlled gate (`.control(1, ctrl_state)`)
  if cw.length = 1 then
    some ((us.zipIdx).map (fun (u, i) => SG.cun u (cw.getD 0 0) (ts.getD i 0) (oneCtrlVal cs)))
  else
  let hs : List (SG K) := (us.zipIdx).flatMap (fun (u, i) =>
    if !secondaryReal o u && mainReal o u then [SG.h (ts.getD i 0)] else [])
  let opAs := us.map (fun u => let xz := getXZ o u; computeGateA o xz.1 xz.2)
  let gas := allSome ((opAs.zipIdx).map (fun (m, i) => unGate o m (cw.length + i)))
  let gais := allSome ((opAs.zipIdx).map (fun (m, i) => unGate o (adj o m) (cw.length + i)))
  match gas, gais with
  | some ga, some gai =>
    some (hs ++ [mcxHalf1 cw ts cs] ++ ga ++ [mcxHalf2 cw ts cs false true] ++ gai
      ++ [mcxHalf1 cw ts cs] ++ ga ++ [mcxHalf2 cw ts cs false false] ++ gai ++ hs)
  | _, _ => none

/-! ### Expansion of the MCX constructors through the C05 model (used by the driver) -/

/-- qiskit `QuantumCircuit.inverse()` on the primitive alphabet: reversed order, each gate
inverted (`u(θ,φ,λ)⁻¹ = u(-θ,-λ,-φ)`; `x cx ccx mcx` are self-inverse). -/
def invCirc {Θ : Type} (neg : Θ → Θ) (c : Circ Θ) : Circ Θ :=
  c.reverse.map (fun g => match g with
    | .u θ φ l q => .u (neg θ) (neg l) (neg φ) q
    | g => g)

/-- `McxVchainDirty(k, nt, cs, action_only = ao).definition` placed on `ws`. -/
def expandMcxv {Θ : Type} (a : McxAngles Θ) (k nt : Nat) (ws : List Nat) (cs : Option (List Bool))
    (ao : Bool) : Option (Circ Θ) :=
  if k = 0 then some [] else
  vchainW a k nt (fun i => ws.getD i 0) (fun i => ws.getD (k + i) 0)
    (fun i => ws.getD (k + (k - 2) + i) 0) cs false ao

def expandLmcx {Θ : Type} (a : McxAngles Θ) (k : Nat) (ws : List Nat) (ao : Bool) :
    Option (Circ Θ) :=
  (linearMcx a k none ao).map (fun c => place c ws)

end Qclib.Mcsu
