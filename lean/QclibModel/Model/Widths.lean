/-
  C15 — width table.  For every initializer and gate class of qclib:

  * `declaredWidth c p` — the number of qubits the constructor passes to `super().__init__`
    (written the way the code computes it), and
  * `circuitRegisters c p` — the sizes of the quantum registers the class's `_define` allocates, in
    the order it allocates them (`none` where the code raises, e.g. a register of size `-1`);
    `circuitWidth` is their sum.

  Core Lean only.  Float idioms: `int(log2(len))` of a power of two is `Nat.log2 len`;
  `int(ceil(log2(m)))` is `clog2 m`; Python's `max(x - 1, 0)` is truncated subtraction.
-/
namespace Qclib
namespace Widths

/-- `⌈log₂ x⌉` for `x ≥ 1` (`int(ceil(log2(x)))`), as `⌊log₂ (2x − 1)⌋`; `clog2 0 = 0`. -/
def clog2 (x : Nat) : Nat := Nat.log2 (2 * x - 1)

inductive Cls
  | topDown | lowRank | svd | ucg | ucge | isometry | baa | bdsp | dcsp | mixed | blackBox
  | merge | pivot | cvoqram | fnPoints | pqm
  | mcxVchainDirty | linearMcx | toffoli | ldmcu | ldmcsu | ldMcSpecialUnitary | qdmcu | mcg | mcu
  | multiTargetMCSU2
  deriving DecidableEq, Repr

/-- Everything a width depends on.  Unused fields keep their defaults. -/
structure Params where
  /-- `len(params)`: number of amplitudes (dense classes), length of one ensemble vector (mixed). -/
  len : Nat := 2
  /-- length of the dictionary keys (sparse classes) / of the pattern (pqm). -/
  n : Nat := 1
  /-- number of dictionary entries (sparse classes) / of ensemble vectors (mixed). -/
  m : Nat := 1
  /-- `split` of `BdspInitialize` (the default `⌈n/2⌉` is resolved by the caller). -/
  s : Nat := 1
  /-- `aux` of `PivotInitialize`, `with_aux` of `CvoqramInitialize`. -/
  aux : Bool := false
  /-- `is_classical_pattern` of `pqm.initialize`. -/
  classical : Bool := true
  /-- `num_controls`. -/
  k : Nat := 1
  /-- `num_target_qubit` / `num_target`. -/
  t : Nat := 1
  deriving Repr

/-- `Initialize._get_num_qubits`: `int(log2(len(params)))`. -/
def denseQubits (p : Params) : Nat := Nat.log2 p.len

/-- `num_ancilla` of `McxVchainDirty.__init__`: `num_controls - 2` if that is positive, else `0`. -/
def vchainAncillas (k : Nat) : Nat := if k - 2 > 0 then k - 2 else 0

def declaredWidth : Cls → Params → Nat
  -- Initialize subclasses: `super().__init__(name, self.num_qubits, …)` with `num_qubits = int(log2(len))`
  | .topDown, p | .lowRank, p | .svd, p | .ucg, p | .ucge, p | .isometry, p | .baa, p => denseQubits p
  -- BdspInitialize._get_num_qubits: `(split + 1) * 2 ** (n_qubits - split) - 1`
  | .bdsp, p => (p.s + 1) * 2 ^ (denseQubits p - p.s) - 1
  -- DcspInitialize._get_num_qubits: `len(params) - 1`
  | .dcsp, p => p.len - 1
  -- InitializeMixed._get_num_qubits: `ceil(log2(len(params[0]))) + ceil(log2(len(params)))`
  | .mixed, p => clog2 p.len + clog2 p.m
  -- BlackBoxInitialize: `self.num_qubits += 1`
  | .blackBox, p => denseQubits p + 1
  -- InitializeSparse._get_num_qubits: `len(bit_string)`
  | .merge, p => p.n
  -- PivotInitialize: `width = n; if aux: width += max(int(ceil(log2(m))) - 1, 0)`
  | .pivot, p => p.n + (if p.aux then max (clog2 p.m - 1) 0 else 0)
  -- CvoqramInitialize: `width = n + 1; if with_aux: width += n - 1`
  | .cvoqram, p => p.n + 1 + (if p.aux then p.n - 1 else 0)
  -- FnPointsInitialize: `width = 2 * n + 1`
  | .fnPoints, p => 2 * p.n + 1
  -- pqm.initialize is a function: the registers handed to it (memory, auxiliary, quantum pattern)
  | .pqm, p => p.n + 1 + (if p.classical then 0 else p.n)
  -- McxVchainDirty: `num_controls + num_ancilla + num_target_qubit`
  | .mcxVchainDirty, p => p.k + vchainAncillas p.k + p.t
  -- LinearMcx: `num_controls + 2`
  | .linearMcx, p => p.k + 2
  | .toffoli, _ => 3
  -- Ldmcu, LdMcSpecialUnitary, Qdmcu, Mcg: `self.num_qubits = num_controls + 1`;
  -- Ldmcsu: `self.num_controls = num_controls + 1`; MCU: `num_controls + 1`
  | .ldmcu, p | .ldmcsu, p | .ldMcSpecialUnitary, p | .qdmcu, p | .mcg, p | .mcu, p => p.k + 1
  -- MultiTargetMCSU2: `num_controls + num_target`
  | .multiTargetMCSU2, p => p.k + p.t

/-- `level_nodes` of the complete angle tree with `n` levels: `[1, 2, 4, …, 2^(n-1)]`. -/
def levelNodes (n : Nat) : List Nat := (List.range n).map (fun i => 2 ^ i)

/-- Registers of `tree_register.add_register(circuit, angle_tree, start_level)` for the complete
angle tree with `n` levels: `output` (one qubit per level) and, only if positive, `ancilla`
(`nqubits - noutput` with `nqubits = sum(level_nodes[:sl]) + level_nodes[sl] * (noutput - sl)`);
`level_nodes[sl]` raises `IndexError` when `sl ≥ n`. -/
def treeRegisters (n sl : Nat) : Option (List Nat) :=
  match (levelNodes n)[sl]? with
  | none => none
  | some c =>
    let nq := ((levelNodes n).take sl).sum + c * (n - sl)
    some (if nq - n > 0 then [n, nq - n] else [n])

/-- A register of `size - 1` qubits; qiskit raises for a negative size. -/
def regPred (size : Nat) : Option Nat := if size = 0 then none else some (size - 1)

def circuitRegisters : Cls → Params → Option (List Nat)
  -- `add_register(circuit, angle_tree, 0)`
  | .topDown, p => treeRegisters (denseQubits p) 0
  -- `QuantumCircuit(self.num_qubits)`
  | .lowRank, p | .baa, p => some [denseQubits p]
  -- `reg_a = QuantumRegister(n // 2 + odd)`, `reg_b = QuantumRegister(n // 2)`
  | .svd, p => some [denseQubits p / 2 + denseQubits p % 2, denseQubits p / 2]
  -- `self.register = QuantumRegister(self.num_qubits)`
  | .ucg, p | .ucge, p => some [denseQubits p]
  -- `isometry.decompose`: `QuantumRegister(log_lines)`
  | .isometry, p => some [Nat.log2 p.len]
  -- `add_register(circuit, angle_tree, n_qubits - self.split)`
  | .bdsp, p => treeRegisters (denseQubits p) (denseQubits p - p.s)
  -- `add_register(circuit, angle_tree, n_qubits - 1)`
  | .dcsp, p => treeRegisters (denseQubits p) (denseQubits p - 1)
  -- registers `aux` (`_num_ctrl_qubits = ceil(log2 k)`) and `rho` (`initializer(params[0]).num_qubits`,
  -- default initializer LowRankInitialize)
  | .mixed, p => some [clog2 p.m, denseQubits p]
  -- `QuantumCircuit(self.num_qubits)` after `self.num_qubits += 1`
  | .blackBox, p => some [denseQubits p + 1]
  -- `QuantumRegister(len(b_strings[0]))`
  | .merge, p => some [p.n]
  -- aux: `anc = QuantumRegister(n_anci - 1)` with `n_anci = len(range(n - target_size, n))`, then the
  -- data register; otherwise `QuantumCircuit(n)`
  | .pivot, p =>
    if p.aux then (regPred (p.n - (p.n - clog2 p.m))).map (fun a => [a, p.n]) else some [p.n]
  -- `aux (1)`, `anc (n - 1)` only with_aux, `memory (n)`
  | .cvoqram, p => if p.aux then (regPred p.n).map (fun a => [1, a, p.n]) else some [1, p.n]
  -- `reg_x (n)`, `reg_g (n - 1)`, `reg_c (2)`
  | .fnPoints, p => (regPred p.n).map (fun g => [p.n, g, 2])
  -- wires the function acts on: memory, auxiliary, quantum pattern
  | .pqm, p => some (if p.classical then [p.n, 1] else [p.n, p.n, 1])
  -- `QuantumCircuit(control_qubits, ancilla_qubits, target_qubits)`
  | .mcxVchainDirty, p => some [p.k, vchainAncillas p.k, p.t]
  -- `QuantumCircuit(self.num_qubits)`
  | .linearMcx, p => some [p.k + 2]
  | .toffoli, _ => some [3]
  -- `QuantumCircuit(self.control_qubits, self.target_qubit)` (no control register when k = 0)
  | .ldmcu, p | .ldMcSpecialUnitary, p | .mcu, p => some (if p.k > 0 then [p.k, 1] else [1])
  -- `QuantumCircuit(self.controls, self.target)`
  | .ldmcsu, p | .qdmcu, p | .mcg, p => some [p.k, 1]
  | .multiTargetMCSU2, p => some [p.k, p.t]

def circuitWidth (c : Cls) (p : Params) : Option Nat := (circuitRegisters c p).map List.sum

/-- The parameters for which the real constructor and `_define` succeed (the domain of the width
theorem).  Dense vectors have `2^n` entries with `n ≥ 1`; the Bdsp split satisfies `1 ≤ s ≤ n`; a
mixed ensemble has at least one vector; `PivotInitialize(aux=True)` needs `2 ≤ m ≤ 2^n` (with one
string the ancilla register would have size `-1`); `CvoqramInitialize` and `FnPointsInitialize`
need at least one data qubit. -/
def InDomain : Cls → Params → Prop
  | .topDown, p | .lowRank, p | .svd, p | .ucg, p | .ucge, p | .isometry, p | .baa, p | .blackBox, p
  | .dcsp, p => ∃ n, 1 ≤ n ∧ p.len = 2 ^ n
  | .bdsp, p => ∃ n, p.len = 2 ^ n ∧ 1 ≤ p.s ∧ p.s ≤ n
  | .mixed, p => (∃ n, 1 ≤ n ∧ p.len = 2 ^ n) ∧ 1 ≤ p.m
  | .pivot, p => p.aux = true → 2 ≤ p.m ∧ p.m ≤ 2 ^ p.n
  | .cvoqram, p | .fnPoints, p => 1 ≤ p.n
  | _, _ => True

def Cls.ofString : String → Option Cls
  | "topDown" => some .topDown | "lowRank" => some .lowRank | "svd" => some .svd | "ucg" => some .ucg
  | "ucge" => some .ucge | "isometry" => some .isometry | "baa" => some .baa | "bdsp" => some .bdsp
  | "dcsp" => some .dcsp | "mixed" => some .mixed | "blackBox" => some .blackBox | "merge" => some .merge
  | "pivot" => some .pivot | "cvoqram" => some .cvoqram | "fnPoints" => some .fnPoints | "pqm" => some .pqm
  | "mcxVchainDirty" => some .mcxVchainDirty | "linearMcx" => some .linearMcx | "toffoli" => some .toffoli
  | "ldmcu" => some .ldmcu | "ldmcsu" => some .ldmcsu | "ldMcSpecialUnitary" => some .ldMcSpecialUnitary
  | "qdmcu" => some .qdmcu | "mcg" => some .mcg | "mcu" => some .mcu
  | "multiTargetMCSU2" => some .multiTargetMCSU2
  | _ => none

end Widths
end Qclib
