/-
  Model of `qclib/state_preparation/mixed.py::MixedInitialize` and
  `qclib/gates/initialize_mixed.py::InitializeMixed._get_num_qubits` (C14).
  Core Lean only.  Every definition mirrors the Python statement named in its doc comment; numeric
  types are passed as explicit operation records so that the *same* definitions run on `Float`
  (driver, tie) and are reasoned about over ordered fields / star rings (theorems).
-/
namespace Qclib.Mixed

/-! ### `int(ceil(log2(k)))` -/

/-- search upwards from `a` for the first exponent with `k ≤ 2^a` (`fuel` steps at most). -/
def clog2Go (k : Nat) : Nat → Nat → Nat
  | 0, a => a
  | fuel + 1, a => if k ≤ 2 ^ a then a else clog2Go k fuel (a + 1)

/-- Model of the float idiom `int(ceil(log2(k)))` for `k ≥ 1`: the least `a` with `k ≤ 2^a`.
(`math.log2` is exact on powers of two and strictly increasing on the integers below `2^48`, so
the float expression and this function agree for `1 ≤ k < 2^48`; tied by correspondence.) -/
def clog2 (k : Nat) : Nat := clog2Go k k 0

/-- `Initialize._get_num_qubits`: `log2(len) != 0 and log2(len).is_integer()`. -/
def isPow2Pos (d : Nat) : Bool := decide (2 ≤ d) && (2 ^ clog2 d == d)

/-! ### The validation chain of `MixedInitialize.__init__` -/

/-- Number operations the validation chain uses. -/
structure VOps (α : Type) where
  /-- int → number (`0.0`, `1.0`, the int `0` that `sum` starts from) -/
  ofNat : Nat → α
  add : α → α → α
  sub : α → α → α
  mul : α → α → α
  /-- `1/len(params)` (true division) -/
  inv : Nat → α
  abs : α → α
  lt : α → α → Bool
  le : α → α → Bool
  eq : α → α → Bool
  isInf : α → Bool
  /-- `rel_tol` default of `math.isclose` = 1e-09 -/
  relTol : α
  /-- `abs_tol` default of `math.isclose` = 0.0 -/
  absTol : α

/-- CPython `math.isclose(a, b)` (`Modules/mathmodule.c::math_isclose_impl`), statement by
statement:  `if a == b: True; if isinf(a) or isinf(b): False; diff = fabs(b - a);
return diff <= fabs(rel_tol*b) or diff <= fabs(rel_tol*a) or diff <= abs_tol`. -/
def isclose {α} (o : VOps α) (a b : α) : Bool :=
  if o.eq a b then true
  else if o.isInf a || o.isInf b then false
  else
    let diff := o.abs (o.sub b a)
    o.le diff (o.abs (o.mul o.relTol b)) || o.le diff (o.abs (o.mul o.relTol a))
      || o.le diff o.absTol

/-- builtin `sum(probabilities)`: left fold starting from the int `0`.  (CPython ≥ 3.12 adds a
Neumaier compensation term; the difference is a few ulp and only matters within the excluded band
around the `isclose` threshold.) -/
def pySum {α} (o : VOps α) (ps : List α) : α := ps.foldl o.add (o.ofNat 0)

/-- Exception raised by `__init__`, in the order the code can raise them. -/
inductive Exc where
  | typeError        -- initializer is not a subclass of Initialize / InitializeSparse
  | zeroDivision     -- `1/len(params)` with no states
  | valueNeg         -- "All probabilities must greater than or equal to 0."
  | valueGt1         -- "All probabilities must less than or equal to 1."
  | valueSum         -- "The sum of the probabilities must be 1.0."
  | indexError       -- `params[0]` with no states
  | mathDomain       -- `log2(0)`
  | notPow2          -- `initializer(params[0])`: length is not a positive power of two
  deriving Repr, BEq, DecidableEq

def Exc.name : Exc → String
  | .typeError => "TypeError:initializer"
  | .zeroDivision => "ZeroDivisionError"
  | .valueNeg => "ValueError:neg"
  | .valueGt1 => "ValueError:gt1"
  | .valueSum => "ValueError:sum"
  | .indexError => "IndexError"
  | .mathDomain => "ValueError:mathdomain"
  | .notPow2 => "ValueError:notpow2"

/-- What an accepted constructor call fixes. -/
structure Accepted (α : Type) where
  /-- `self._probabilities` -/
  probs : List α
  /-- `self.num_qubits` -/
  numQubits : Nat
  /-- `self._num_ctrl_qubits` -/
  numCtrl : Nat
  /-- `self._num_data_qubits` -/
  numData : Nat

/-- The `if probabilities is None … elif … elif … elif` chain (lines 74-81). -/
def checkProbs {α} (o : VOps α) (k : Nat) : Option (List α) → Except Exc (List α)
  | none => if k = 0 then .error .zeroDivision else .ok (List.replicate k (o.inv k))
  | some ps =>
    if ps.any (fun i => o.lt i (o.ofNat 0)) then .error .valueNeg
    else if ps.any (fun i => o.lt (o.ofNat 1) i) then .error .valueGt1
    else if !(isclose o (pySum o ps) (o.ofNat 1)) then .error .valueSum
    else .ok ps

/-- `InitializeMixed._get_num_qubits`:
`int(ceil(log2(len(params[0]))) + ceil(log2(len(params))))` for `len(params) = k ≥ 1`,
`len(params[0]) = d ≥ 1`. -/
def numQubits (d k : Nat) : Nat := clog2 d + clog2 k

/-- `MixedInitialize.__init__` as a decision function.  `dims` = the lengths of the state vectors
(`k = dims.length`), `initOk` = the `issubclass` test, `probs = none` ↔ `probabilities=None`. -/
def initDecision {α} (o : VOps α) (initOk : Bool) (dims : List Nat) (probs : Option (List α)) :
    Except Exc (Accepted α) :=
  if !initOk then .error .typeError else
  match checkProbs o dims.length probs with
  | .error e => .error e
  | .ok ps =>
    match dims with
    | [] => .error .indexError                        -- `params[0]`
    | d :: _ =>
      if d = 0 then .error .mathDomain                -- `log2(len(params[0]))`
      else if !(isPow2Pos d) then .error .notPow2     -- `initializer(params[0]).num_qubits`
      else .ok ⟨ps, numQubits d dims.length, clog2 dims.length, clog2 d⟩

/-! ### Classical purification (`_define_initialize`, `classical=True`) -/

/-- Amplitude operations of the purification. -/
structure POps (α : Type) where
  zero : α
  one : α
  add : α → α → α
  mul : α → α → α
  /-- `np.sqrt` applied to a probability -/
  sqrt : α → α

/-- `np.kron(A, B)[idx]` for `len(B) = lenB`. -/
def kronAt {α} (o : POps α) (A B : Nat → α) (lenB idx : Nat) : α :=
  o.mul (A (idx / lenB)) (B (idx % lenB))

/-- `basis = np.zeros(2**a); basis[index] = 1`. -/
def basisVec {α} (o : POps α) (index : Nat) : Nat → α := fun j => if j = index then o.one else o.zero

/-- The accumulation loop `for index, (state_vector, prob) in enumerate(zip(...)):
pure_state += np.kron(np.sqrt(prob) * state_vector, basis)`, after `m` iterations. -/
def purifLoop {α} (o : POps α) (a : Nat) (ψ : Nat → Nat → α) (p : Nat → α) : Nat → Nat → α
  | 0 => fun _ => o.zero
  | m + 1 => fun idx =>
    o.add (purifLoop o a ψ p m idx)
      (kronAt o (fun x => o.mul (o.sqrt (p m)) (ψ m x)) (basisVec o m) (2 ^ a) idx)

/-- `pure_state` for `k` states, `lenP` probabilities (`zip` stops at the shorter list),
`a = _num_ctrl_qubits`. -/
def purification {α} (o : POps α) (a k lenP : Nat) (ψ : Nat → Nat → α) (p : Nat → α) : Nat → α :=
  purifLoop o a ψ p (min k lenP)

/-! ### In-circuit purification (`classical=False`) -/

/-- `np.concatenate((np.sqrt(p), [0] * (2**a - len(p))))`: entry `i`. -/
def auxState {α} (o : POps α) (lenP : Nat) (p : Nat → α) : Nat → α :=
  fun i => if i < lenP then o.sqrt (p i) else o.zero

/-- its length (`[0] * negative = []`: truncated subtraction). -/
def auxLen (a lenP : Nat) : Nat := lenP + (2 ^ a - lenP)

/-- `f"{index:0{a}b}"` as a list of bits, most significant first (for `index < 2^a`). -/
def ctrlStateStr (a index : Nat) : List Bool := (List.range a).reverse.map (fun j => index.testBit j)

/-- qiskit: `int(ctrl_state, 2)`. -/
def ctrlStateInt (s : List Bool) : Nat := s.foldl (fun acc b => 2 * acc + b.toNat) 0

/-- qiskit: control qubit `j` of a `ControlledGate` is active on bit `j` of the integer
`ctrl_state`.  The controls of step `index` are the wires `0..a-1` (`compose(sub_circuit,
purified_circuit.qubits)`: controls first). -/
def ctrlLits (a index : Nat) : List (Nat × Bool) :=
  (List.range a).map (fun j => (j, (ctrlStateInt (ctrlStateStr a index)).testBit j))

/-- One controlled sub-initializer of the in-circuit variant. -/
structure CtrlStep where
  index : Nat
  lits : List (Nat × Bool)
  targets : List Nat
  deriving Repr

/-- The loop `for index, state in enumerate(self._list_params)`: `k` steps, step `index` prepares
state `index` on wires `a..a+n-1` controlled on the literals `ctrlLits a index`. -/
def inCircuitSteps (a n k : Nat) : List CtrlStep :=
  (List.range k).map (fun i => ⟨i, ctrlLits a i, (List.range n).map (· + a)⟩)

/-- `circuit.reset(range(a))` if `reset`. -/
def resetWires (reset : Bool) (a : Nat) : List Nat := if reset then List.range a else []

end Qclib.Mixed
