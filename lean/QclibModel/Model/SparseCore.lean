/-
  C06 — shared vocabulary of the sparse state-preparation models (merge.py, pivot.py, cvoqram.py).

  * Bit strings are `List Bool` (`'0' ↦ false`, `'1' ↦ true`), position `i` of the list = character
    `i` of the Python key.
  * A dictionary is an association list in Python insertion order.
  * `NumOps α` is the small numeric interface the angle formulas need; the driver instantiates it
    with `Float` (the tie), the theorems with `ℝ` (Proofs/SparseReal.lean) — one definition of
    the formulas serves both.
  * `SG α` is the gate alphabet of the three generators.  Multi-controlled one-qubit gates are
    kept opaque (back-end name, control wires, 2×2 given by its `U(θ,φ,λ)` angles or `X`): their
    decompositions are properties C04/C05.
  Core Lean only.
-/
namespace Qclib.Sparse

abbrev Str := List Bool

/-- character `i` of the key (`false` beyond the end; the generators never index there). -/
def bitAt (s : Str) (i : Nat) : Bool := s.getD i false

/-! ### `_compute_op_x`, `_compute_op_cx` (merge.py, module level) -/

/-- `xlist[:idx] + ('1' if xlist[idx]=='0' else '0') + xlist[idx+1:]` -/
def computeOpX (s : Str) (idx : Nat) : Str :=
  if bitAt s idx == false then s.take idx ++ [true] ++ s.drop (idx + 1)
  else s.take idx ++ [false] ++ s.drop (idx + 1)

/-- `xlist[:t] + str((not int(xlist[t]))*1) + xlist[t+1:] if xlist[c]=='1' else xlist` -/
def computeOpCx (s : Str) (c t : Nat) : Str :=
  if bitAt s c == true then s.take t ++ [!(bitAt s t)] ++ s.drop (t + 1) else s

/-! ### numbers -/

class NumOps (α : Type) where
  zero : α
  one : α
  two : α
  add : α → α → α
  sub : α → α → α
  mul : α → α → α
  div : α → α → α
  neg : α → α
  sqrt : α → α
  asin : α → α
  acos : α → α
  atan2 : α → α → α
  pi : α
  lt : α → α → Bool

instance : NumOps Float where
  zero := 0.0
  one := 1.0
  two := 2.0
  add := (· + ·)
  sub := (· - ·)
  mul := (· * ·)
  div := (· / ·)
  neg := fun x => -x
  sqrt := Float.sqrt
  asin := Float.asin
  acos := Float.acos
  atan2 := Float.atan2
  pi := 3.141592653589793
  lt := fun a b => a < b

/-- An amplitude as the Python code sees it: `complex` (`cplx = true`) or a real scalar
(`numpy.float64`, produced by `np.linalg.norm` in the merge step; `im` is then unused). -/
structure Amp (α : Type) where
  re : α
  im : α
  cplx : Bool

abbrev Dict (α : Type) := List (Str × Amp α)

def Dict.keys {α} (d : Dict α) : List Str := d.map (·.1)

def Dict.lookup {α} (d : Dict α) (k : Str) : Option (Amp α) :=
  (d.find? (fun kv => kv.1 == k)).map (·.2)

/-- relabel every key (the dictionary update for an `x` / `cx` gate) -/
def Dict.mapKeys {α} (f : Str → Str) (d : Dict α) : Dict α := d.map (fun kv => (f kv.1, kv.2))

/-! ### gates -/

inductive SG (α : Type) where
  | x (q : Nat)
  /-- `cx` with `ctrl_state` (`cv = true` is the ordinary CX) -/
  | cx (c t : Nat) (cv : Bool)
  | rccx (a b t : Nat)
  | u (θ φ lam : α) (q : Nat)
  | cu (θ φ lam : α) (c t : Nat)
  /-- opaque multi-controlled `U(θ,φ,λ)`: back-end, control wires (all required `1`), target -/
  | mcu (backend : String) (cs : List Nat) (θ φ lam : α) (t : Nat)
  /-- opaque multi-controlled `X` built from a 2×2 matrix by a qclib back-end -/
  | mcuX (backend : String) (cs : List Nat) (t : Nat)
  /-- qiskit `mcx(..., mode='v-chain-dirty')` with its borrowed wires -/
  | mcxd (cs : List Nat) (t : Nat) (dirty : List Nat)
  /-- dense hand-off (`LowRankInitialize`) of the vector `vec` on `ws` -/
  | dense (ws : List Nat) (vec : List (Amp α))

def SG.mapWires {α} (f : Nat → Nat) : SG α → SG α
  | .x q => .x (f q)
  | .cx c t cv => .cx (f c) (f t) cv
  | .rccx a b t => .rccx (f a) (f b) (f t)
  | .u θ φ l q => .u θ φ l (f q)
  | .cu θ φ l c t => .cu θ φ l (f c) (f t)
  | .mcu be cs θ φ l t => .mcu be (cs.map f) θ φ l (f t)
  | .mcuX be cs t => .mcuX be (cs.map f) (f t)
  | .mcxd cs t d => .mcxd (cs.map f) (f t) (d.map f)
  | .dense ws v => .dense (ws.map f) v

end Qclib.Sparse
