/-
  C02 / QR — the location search of `_get_row_col` (`qclib/unitary.py`), generic in the entry type.
  Core Lean only, executable (driver `Drivers/C02QR.lean`).

      row = 2 ** n_qubits - 1 ; col = row - 1                # default: the last two levels
      located = False
      for row_idx in range(2 ** n_qubits):
          for col_idx in range(row_idx):
              if m[row_idx][col_idx] != 0 and np.not_equal(m[row_idx][col_idx], 1):
                  col = col_idx ; row = row_idx ; located = True   # no break: the LAST hit wins
      if not located:
          rest = m.copy() ; rest[row][row] = 1
          if not np.allclose(rest, np.eye(N)): raise ValueError
-/
namespace Qclib.QrLoc

/-- the scan order `for row_idx in range(N): for col_idx in range(row_idx)`, entries `(row, col)`. -/
def scanNat (N : Nat) : List (Nat × Nat) :=
  (List.range N).flatMap (fun r => (List.range r).map (fun c => (r, c)))

/-- the test of the `if`: entry `!= 0` and `!= 1`. -/
def isHit {α : Type} [DecidableEq α] [Zero α] [One α] (M : Nat → Nat → α) (p : Nat × Nat) : Bool :=
  decide (M p.1 p.2 ≠ 0 ∧ M p.1 p.2 ≠ 1)

/-- the acceptance test of an unlocated matrix: with its `[N-1][N-1]` entry replaced by `1` it is
the identity (the code uses `np.allclose`; the model exact equality): every off-diagonal entry is
`0` and every diagonal entry except the last is `1`. -/
def isIdButLast {α : Type} [DecidableEq α] [Zero α] [One α] (N : Nat) (M : Nat → Nat → α) : Bool :=
  (List.range N).all (fun i => (List.range N).all (fun j =>
    if i = N - 1 ∧ j = N - 1 then true
    else if i = j then decide (M i j = 1) else decide (M i j = 0)))

/-- `(row, col)` at the end of `_get_row_col` for an `N × N` matrix `M` (`N = 2 ** n_qubits`), `none`
where it raises `ValueError`: start from `(N - 1, N - 2)`, `located = False`; every hit in scan order
overrides and sets `located`; if nothing was located the matrix must be the identity except
possibly its last diagonal entry. -/
def getRowColG {α : Type} [DecidableEq α] [Zero α] [One α] (N : Nat) (M : Nat → Nat → α) :
    Option (Nat × Nat) :=
  let st := (scanNat N).foldl (fun (acc : (Nat × Nat) × Bool) p => if isHit M p then (p, true) else acc)
    ((N - 1, N - 2), false)
  if st.2 then some st.1 else if isIdButLast N M then some st.1 else none

/-- three-valued entries for the tie: `zero` (`== 0`), `one` (`== 1`), `other`. -/
inductive Code where
  | zero | one | other
  deriving DecidableEq, Repr

instance : Zero Code := ⟨Code.zero⟩
instance : One Code := ⟨Code.one⟩

def Code.ofCode : Nat → Code
  | 0 => .zero
  | 1 => .one
  | _ => .other

end Qclib.QrLoc
