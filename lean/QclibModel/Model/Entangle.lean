/-
  C20 — executable model of `qclib/entanglement.py` lines 29-158 (core Lean only):
  `_get_iota`, `generalized_cross_product`, `meyer_wallach_entanglement`, `_to_qubits`, and the
  post-processing part of `geometric_entanglement` (everything after `tucker(...)` returned).

  The numeric definitions are polymorphic in the amplitude type `K` and the "real" type `R`
  (`nsq : K → R` is `np.abs(·)**2`), so that the SAME definitions are
    * run by the driver over Gaussian rationals (`GRat`/`Rat`, exact) and over `CF`/`Float`,
    * the subject of the theorems over `ℂ`/`ℝ` (Props/C20.lean).
-/
namespace Qclib.Ent

/-! ### `_get_iota` (entanglement.py:29-40) -/

/-- Hand model of `_get_iota(qubit_idx, qubits, selector_bit, basis_state)`, statement by
statement.  `none` = the `assert selector_bit in [0, 1]` fails.  (Python would also raise on a
negative shift count, i.e. for `qubit_idx > qubits`; every caller has `qubit_idx < qubits`.) -/
def getIota (qubitIdx qubits selectorBit basisState : Nat) : Option (Bool × Nat) :=
  if selectorBit = 0 ∨ selectorBit = 1 then
    let fullMask := 2 ^ qubits - 1
    let maskJ := 1 <<< qubitIdx
    let value := (maskJ &&& basisState) >>> qubitIdx
    let lowMask := fullMask >>> (qubits - qubitIdx)
    let highMask := fullMask &&& (fullMask <<< (qubitIdx + 1))
    let newBasisState := ((basisState &&& highMask) >>> 1) + (basisState &&& lowMask)
    some (value == selectorBit, newBasisState)
  else none

/-- `_to_qubits(n) = int(ceil(log2 n))` for `n > 0`, else `0`: least `k` with `2^k ≥ n`. -/
def toQubits (len : Nat) : Nat :=
  if len ≤ 1 then 0 else Nat.log2 (len - 1) + 1

/-! ### finite sums -/

/-- `Σ_{i<n} f i`, added in increasing order of `i`. -/
def sumTo {R : Type} [Add R] [OfNat R 0] : Nat → (Nat → R) → R
  | 0, _ => 0
  | n + 1, f => sumTo n f + f n

/-! ### `generalized_cross_product` (entanglement.py:43-62) -/

/-- `for j in range(len u): for i in range(j): |u[i] v[j] − u[j] v[i]|²`, summed.
`none` = `v` shorter than `u` (numpy `IndexError`). -/
def gcp {K R : Type} [Sub K] [Mul K] [Add R] [OfNat R 0] (nsq : K → R) (z : K)
    (u v : Array K) : Option R :=
  if v.size < u.size then none else
  some (sumTo u.size fun j => sumTo j fun i =>
    nsq (u.getD i z * v.getD j z - u.getD j z * v.getD i z))

/-! ### `meyer_wallach_entanglement` (entanglement.py:65-99) -/

/-- One iteration of `for basis_state, entry in enumerate(vector)` for qubit `j`:
`psi_s[new_basis_state] = entry` whenever `_get_iota(j, n, s, basis_state)` says so.
`none` = an index out of bounds (numpy `IndexError`) or a failed assertion. -/
def slicesStep {K : Type} (z : K) (j n : Nat) (vec : Array K)
    (acc : Option (Array K × Array K)) (b : Nat) : Option (Array K × Array K) :=
  match acc, getIota j n 0 b, getIota j n 1 b with
  | some (p0, p1), some (d0, r0), some (d1, r1) =>
    if (d0 && decide (vec.size / 2 ≤ r0)) || (d1 && decide (vec.size / 2 ≤ r1)) then none
    else some (if d0 then p0.setIfInBounds r0 (vec.getD b z) else p0,
               if d1 then p1.setIfInBounds r1 (vec.getD b z) else p1)
  | _, _, _ => none

/-- The inner loop of `meyer_wallach_entanglement` for one qubit `j`: two zero vectors of length
`len // 2`, then every basis state in increasing order.  (`none` happens exactly when the length
is not a power of two.) -/
def slices {K : Type} (z : K) (j n : Nat) (vec : Array K) : Option (Array K × Array K) :=
  (List.range vec.size).foldl (slicesStep z j n vec)
    (some (Array.replicate (vec.size / 2) z, Array.replicate (vec.size / 2) z))

/-- The per-qubit entry `meyer_wallach_entry[j] = generalized_cross_product(psi_0, psi_1)`. -/
def mwEntry {K R : Type} [Sub K] [Mul K] [Add R] [OfNat R 0] (nsq : K → R) (z : K)
    (n : Nat) (vec : Array K) (j : Nat) : Option R :=
  match slices z j n vec with
  | some (p0, p1) => gcp nsq z p0 p1
  | none => none

/-- `meyer_wallach_entanglement(vector)`: `np.sum(entries) * (4 / num_qb)`.
`none` = the real code raises (`ZeroDivisionError` for length ≤ 1, `IndexError` for a length that
is not a power of two). -/
def meyerWallach {K R : Type} [Sub K] [Mul K] [Add R] [Mul R] [Div R] [OfNat R 0]
    (nsq : K → R) (ofNat : Nat → R) (z : K) (vec : Array K) : Option R :=
  let n := toQubits vec.size
  if n = 0 then none else
  if (List.range n).all (fun j => (mwEntry nsq z n vec j).isSome) then
    some (sumTo n (fun j => (mwEntry nsq z n vec j).getD 0) * (ofNat 4 / ofNat n))
  else none

/-! ### post-processing of `geometric_entanglement` (entanglement.py:139-158)

`tucker(tensor, rank=[1]*n, init="random")` is a numerical kernel (K4) and is NOT modelled: the
model takes what it returned — per restart a core (one number) and `n` factors (each a 2-vector,
`factors[k][:, 0]`) — and mirrors what the code does with it. -/

/-- One Tucker result of multilinear rank (1,…,1). -/
structure Tucker1 (K : Type) where
  core : K
  factors : List (K × K)

/-- `np.kron(f_0, np.kron(f_1, …))` with the empty product `[1]`: first factor most significant
(C-order flattening of the outer product, as `tucker_to_vec` does). -/
def kronAll {K : Type} [Mul K] (one : K) : List (K × K) → List K
  | [] => [one]
  | f :: fs => let t := kronAll one fs; t.map (f.1 * ·) ++ t.map (f.2 * ·)

/-- `tucker_to_vec(decomp)`: `core · ⊗ factors`. -/
def tuckerToVec {K : Type} [Mul K] (one : K) (t : Tucker1 K) : List K :=
  (kronAll one t.factors).map (t.core * ·)

/-- `fidelity_loss = 1 - np.abs(core)**2`. -/
def fidelityLoss {K R : Type} [Sub R] (nsq : K → R) (one : R) (t : Tucker1 K) : R :=
  one - nsq t.core

/-- `results[fidelity_loss] = decomp` in a dict, then `min(results)`: the smallest loss, and for
equal losses the LAST restart with that loss (a later dict assignment overwrites). -/
def pickMin {K R : Type} [Sub R] (nsq : K → R) (one : R) (le : R → R → Bool) :
    List (Tucker1 K) → Option (R × Tucker1 K)
  | [] => none
  | t :: ts =>
    let l := fidelityLoss nsq one t
    match pickMin nsq one le ts with
    | none => some (l, t)
    | some (l', t') => if le l' l then some (l', t') else some (l, t)

/-- Sum of a list. -/
def sumL {R : Type} [Add R] [OfNat R 0] : List R → R
  | [] => 0
  | x :: xs => x + sumL xs

/-- `product_state / np.linalg.norm(product_state)` (`norm = sqrt(Σ|x|²)`); `sqrt` and the
embedding `R → K` are parameters. -/
def normalise {K R : Type} [Add R] [OfNat R 0] [Div K] (nsq : K → R) (sqrt : R → R) (emb : R → K)
    (v : List K) : List K :=
  v.map (· / emb (sqrt (sumL (v.map nsq))))

/-- What `geometric_entanglement(state, True, True)` returns, given the four Tucker results:
`(min_fidelity_loss, product_state, factors)`. -/
def geoPost {K R : Type} [Mul K] [Div K] [Add R] [Sub R] [OfNat R 0]
    (nsq : K → R) (oneK : K) (oneR : R) (le : R → R → Bool) (sqrt : R → R) (emb : R → K)
    (results : List (Tucker1 K)) : Option (R × List K × List (K × K)) :=
  match pickMin nsq oneR le results with
  | none => none
  | some (l, t) => some (l, normalise nsq sqrt emb (tuckerToVec oneK t), t.factors)

/-! ### number types used by the driver -/

/-- Gaussian rationals. -/
structure GRat where
  re : Rat
  im : Rat
deriving BEq, Repr

instance : Sub GRat := ⟨fun a b => ⟨a.re - b.re, a.im - b.im⟩⟩
instance : Mul GRat := ⟨fun a b => ⟨a.re * b.re - a.im * b.im, a.re * b.im + a.im * b.re⟩⟩
def GRat.nsq (a : GRat) : Rat := a.re * a.re + a.im * a.im
def GRat.zero : GRat := ⟨0, 0⟩

/-- Complex doubles. -/
structure CF where
  re : Float
  im : Float

instance : Sub CF := ⟨fun a b => ⟨a.re - b.re, a.im - b.im⟩⟩
instance : Mul CF := ⟨fun a b => ⟨a.re * b.re - a.im * b.im, a.re * b.im + a.im * b.re⟩⟩
instance : Div CF := ⟨fun a b =>
  let d := b.re * b.re + b.im * b.im
  ⟨(a.re * b.re + a.im * b.im) / d, (a.im * b.re - a.re * b.im) / d⟩⟩
def CF.nsq (a : CF) : Float := a.re * a.re + a.im * a.im
def CF.zero : CF := ⟨0, 0⟩
def CF.one : CF := ⟨1, 0⟩

end Qclib.Ent
