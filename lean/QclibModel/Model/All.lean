import QclibModel.Model.Gate
import QclibModel.Model.Ucr
import QclibModel.Model.FloatOps
import QclibModel.Model.Pqm
