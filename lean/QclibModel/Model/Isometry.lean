import QclibModel.Sem.Basic
/-
  C03 — model of `qclib/isometry.py`.  Core Lean only.

  * column-by-column decomposition (`_ccd`, `_g_k`): the index helpers `_a`, `_b`, `_k_s`, the
    schedule `(k, i) ↦ [optional MCG, UCG]` with the condition `k_s == 0 and b != 0`, the control
    lists, `_mc_gate`'s selection of the `1`-bits of `k_bin`, `_uc_unitaries`' `start` and index
    pairs, the wires after `reverse_bits`, the closing diagonal;
  * Lemma 2 (`_unitary`) as a 2×2 matrix over any ring with a conjugation;
  * the *action* of the scheduled gates on a column of the working isometry (`applyUc`, `applyMc`),
    which is what `C03_ccd_schedule` reasons about;
  * Knill: which eigenvalues are skipped and the gate skeleton per retained eigenvalue.
-/
namespace Qclib.Iso

/-! ### `_a`, `_b`, `_k_s` -/

/-- `_a(col_index, bit_index) = col_index // 2**bit_index`. -/
def aFn (k i : Nat) : Nat := k / 2 ^ i
/-- `_b(col_index, bit_index) = col_index - _a(col_index, bit_index) * 2**bit_index`. -/
def bFn (k i : Nat) : Nat := k - aFn k i * 2 ^ i
/-- `_k_s(col_index, bit_index) = (col_index & 2**bit_index) // 2**bit_index`. -/
def kS (k i : Nat) : Nat := (k &&& 2 ^ i) / 2 ^ i

/-! ### schedule of `_g_k` -/

/-- `k_bin[q] == "1"` for `k_bin = f"{k:0{n}b}"` and `k < 2^n`: position `q` holds bit `n-1-q`. -/
def kBin (n k q : Nat) : Bool := k.testBit (n - 1 - q)

/-- `target = log_lines - i - 1`. -/
def target (n i : Nat) : Nat := n - i - 1
/-- `control = list(range(target))`. -/
def control (n i : Nat) : List Nat := List.range (target n i)
/-- `ancilla = list(range(target + 1, log_lines))`. -/
def ancilla (n i : Nat) : List Nat := (List.range (n - target n i - 1)).map (fun q => q + target n i + 1)

/-- the condition of `_g_k` for a multi-controlled gate at step `(k, i)`. -/
def hasMcg (k i : Nat) : Bool := kS k i == 0 && bFn k (i + 1) != 0

/-- `controls` of `_mc_gate`: the positions of `control + ancilla` where `k_bin` is `'1'`. -/
def mcCtrls (n k i : Nat) : List Nat := (control n i ++ ancilla n i).filter (kBin n k)

/-- qubits the MCG's `UCGate` is appended on: `[target] + controls[::-1]`. -/
def mcWires (n k i : Nat) : List Nat := target n i :: (mcCtrls n k i).reverse

/-- `idx1, idx2` of `_mc_unitary`. -/
def mcIdx (k i : Nat) : Nat × Nat :=
  (2 * aFn k (i + 1) * 2 ^ i + bFn k (i + 1), (2 * aFn k (i + 1) + 1) * 2 ^ i + bFn k (i + 1))

/-- `start` of `_uc_unitaries`. -/
def ucStart (k i : Nat) : Nat :=
  let start := aFn k (i + 1) + 1
  if bFn k (i + 1) == 0 then start - 1 else start

/-- `idx1, idx2` of `_uc_unitaries` for block `j`. -/
def ucIdx (k i j : Nat) : Nat × Nat := (2 * j * 2 ^ i + bFn k i, (2 * j + 1) * 2 ^ i + bFn k i)

/-- qubits the UCG is appended on: `[target] + control[::-1]` (`[target]` alone: `UnitaryGate`). -/
def ucWires (n i : Nat) : List Nat := target n i :: (control n i).reverse

/-- `reverse_bits()`. -/
def revWires (n : Nat) (ws : List Nat) : List Nat := ws.map (fun q => n - 1 - q)

private def ws (l : List Nat) : String := " ".intercalate (l.map toString)

/-- Canonical dump of step `(k, i)` of `_g_k`:
`mcg k i idx1 idx2 | wires` (only when scheduled), `ucg k i start basis nblocks | wires`,
`pair k i j idx1 idx2` for every non-identity block. -/
def stepLines (n k i : Nat) : List String :=
  (if hasMcg k i then
    [s!"mcg {k} {i} {(mcIdx k i).1} {(mcIdx k i).2} {ws (revWires n (mcWires n k i))} ;"] else [])
  ++ [s!"ucg {k} {i} {ucStart k i} {kS k i} {2 ^ (n - i - 1)} {ws (revWires n (ucWires n i))} ;"]
  ++ ((List.range (2 ^ (n - i - 1) - ucStart k i)).map (fun d =>
        let j := ucStart k i + d
        s!"pair {k} {i} {j} {(ucIdx k i j).1} {(ucIdx k i j).2} ;"))

/-- `_ccd(iso, n, m)` before the final `inverse()`. -/
def ccdLines (n m : Nat) : List String :=
  (List.range (2 ^ m)).flatMap (fun k => (List.range n).flatMap (fun i => stepLines n k i))
  ++ (if m > 0 then [s!"diag {ws (List.range m)} ;"] else [])

/-! ### Lemma 2 (`_unitary`) -/

/-- `_unitary([[a],[b]], basis)` for a non-zero pair, with `s = 1/‖(a,b)‖`:
`basis = 0`: `s·[[ā, b̄], [-b, a]]`; `basis = 1`: `s·[[-b, a], [ā, b̄]]`. -/
def lemma2 {R : Type} [Mul R] [Neg R] (conj : R → R) (s a b : R) (basis : Nat) : Mat2 R :=
  if basis = 0 then ⟨s * conj a, s * conj b, s * -b, s * a⟩
  else ⟨s * -b, s * a, s * conj a, s * conj b⟩

/-! ### action of the scheduled gates on a column (rows are numbers, bit `i` = qubit `n-1-i` before
`reverse_bits`, = wire `i` after) -/

/-- Row pair `(r0, r1)` of `r` with respect to bit `i`: same other bits, bit `i` cleared / set. -/
def row0 (i r : Nat) : Nat := if r.testBit i then r - 2 ^ i else r
def row1 (i r : Nat) : Nat := if r.testBit i then r else r + 2 ^ i

/-- One-qubit gate on bit `i` whose 2×2 matrix is chosen by the row (`M r`, which for the gates of
the schedule depends on `r` only through the bits the gate is controlled on). -/
def applyOn {R : Type} [Add R] [Mul R] (i : Nat) (M : Nat → Mat2 R) (v : Nat → R) : Nat → R :=
  fun r =>
    if r.testBit i then (M r).c * v (row0 i r) + (M r).d * v (row1 i r)
    else (M r).a * v (row0 i r) + (M r).b * v (row1 i r)

/-- The UCG of step `(k, i)`: block `j = r / 2^(i+1)` (the bits above `i`), identity for `j < start`
(the padding of `_uc_unitaries`), `L j` otherwise.  The bits below `i` are not controls. -/
def ucMat {R : Type} [Zero R] [One R] (k i : Nat) (L : Nat → Mat2 R) (r : Nat) : Mat2 R :=
  if r / 2 ^ (i + 1) < ucStart k i then Mat2.one else L (r / 2 ^ (i + 1))

/-- Does row `r` satisfy the controls of the MCG of step `(k, i)`?  The controls are the qubits
`q ∈ mcCtrls n k i`, and qubit `q` carries bit `n-1-q` of the row. -/
def mcActive (n k i r : Nat) : Bool := (mcCtrls n k i).all (fun q => r.testBit (n - 1 - q))

/-- The MCG of step `(k, i)`: `U` where all controls are `1`, identity elsewhere. -/
def mcMat {R : Type} [Zero R] [One R] (n k i : Nat) (U : Mat2 R) (r : Nat) : Mat2 R :=
  if mcActive n k i r then U else Mat2.one

/-- Step `(k, i)` of `_g_k` applied to a column `v`: optional MCG (matrix `U`), then the UCG
(blocks `L`). -/
def stepCol {R : Type} [Add R] [Mul R] [Zero R] [One R] (n k i : Nat) (U : Mat2 R)
    (L : Nat → Mat2 R) (v : Nat → R) : Nat → R :=
  applyOn i (ucMat k i L) (if hasMcg k i then applyOn i (mcMat n k i U) v else v)

/-- A chooser of the gates from the current column (what `_mc_unitary` / `_uc_unitaries` do). -/
structure Chooser (R : Type) where
  mc : Nat → Nat → (Nat → R) → Mat2 R              -- k i column ↦ U
  uc : Nat → Nat → (Nat → R) → Nat → Mat2 R        -- k i column (after the MCG) j ↦ block

/-- `G_k` applied to a column: steps `i = 0 … steps-1` in order. -/
def gkCol {R : Type} [Add R] [Mul R] [Zero R] [One R] (ch : Chooser R) (n k : Nat) :
    Nat → (Nat → R) → (Nat → R)
  | 0, v => v
  | s + 1, v =>
    let w := gkCol ch n k s v
    let U := ch.mc k s w
    let w' := if hasMcg k s then applyOn s (mcMat n k s U) w else w
    applyOn s (ucMat k s (ch.uc k s w')) w'

/-! ### Knill -/

/-- eigenvalues that get a factor: `np.abs(arg[i]) > 10**-7` (indices into the eigen list). -/
def knillKept (absBig : α → Bool) (args : List α) : List Nat :=
  (List.range args.length).filter (fun i => match args[i]? with | some a => absBig a | none => false)

/-- names of the top-level instructions `_knill` emits for one retained eigenvalue on `n` qubits:
`prep†`, `x`×n, `mcphase` on `0 … n-1`, `x`×n, `prep`. -/
def knillFactor (n i : Nat) : List String :=
  [s!"prep_dg {i} ;"] ++ (List.range n).map (fun q => s!"x {q} ;")
  ++ [s!"mcp {ws (List.range n)} ;"] ++ (List.range n).map (fun q => s!"x {q} ;") ++ [s!"prep {i} ;"]

end Qclib.Iso
