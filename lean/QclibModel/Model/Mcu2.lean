import QclibModel.Model.Mcx
/-
  Model of the U(2) multi-controlled gates of C04, part B (core Lean only):

  * `qclib/gates/ldmcu.py`  — `Ldmcu._define`, `Ldmcu._c1c2` (pair schedule, exponents, signs);
  * `qclib/gates/qdmcu.py`  — `Qdmcu._define` (recursive square-root construction);
  * `qclib/gates/mcg.py`    — `Mcg._define` (dispatch);
  * `qclib/gates/mcu.py`    — `MCU.__init__` (accept / reject), `_c1c2`, `_calc_extra_qubits`,
                              `_compute_param`, `_compute_qubit_pairs`.

  Gate lists are *skeletons*: a controlled root of the input matrix `U` is recorded as
  `croot c t cv p s` = "`U^(s/p)` on `t` controlled by wire `c` reading `cv`" (the 2×2 root itself
  is `np.linalg.eig`, a K4 kernel); a `crx(s·π/p)` as `crx c t p s`.
-/
namespace Qclib.Mcu2

/-! ### The pair schedule (`_c1c2` / `_compute_qubit_pairs`) -/

/-- `[pairs(control, target) for target in range(n) for control in range(start, target)]`
(target-major comprehension order). -/
def rawPairs (n start : Nat) : List (Nat × Nat) :=
  (List.range n).flatMap fun t => (List.range' start (t - start)).map fun c => (c, t)

/-- The sort key `e.control + e.target`. -/
def key (p : Nat × Nat) : Nat := p.1 + p.2

/-- `list.sort(key=…, reverse=rev)`: Python's sort is stable, and `reverse=True` keeps the original
relative order of elements with equal keys (it is *not* the reversal of the ascending sort).
`List.mergeSort` is stable for a total preorder `le`. -/
def sortPairs (rev : Bool) (l : List (Nat × Nat)) : List (Nat × Nat) :=
  l.mergeSort (fun a b => if rev then decide (key b ≤ key a) else decide (key a ≤ key b))

/-- `step == 1` ↦ `start = 0, reverse = True`; otherwise `start = 1, reverse = False`. -/
def qubitPairs (n : Nat) (fwd : Bool) : List (Nat × Nat) :=
  if fwd then sortPairs true (rawPairs n 0) else sortPairs false (rawPairs n 1)

/-- `exponent = target - control; if control == 0: exponent -= 1` (`param = 2 ** exponent`). -/
def exponent (p : Nat × Nat) : Nat := if p.1 = 0 then p.2 - p.1 - 1 else p.2 - p.1

def param (p : Nat × Nat) : Nat := 2 ^ exponent p

/-- `signal = -1 if (control == 0 and not first) else 1; signal = step * signal`. -/
def signal (p : Nat × Nat) (first fwd : Bool) : Int :=
  (if fwd then 1 else -1) * (if p.1 = 0 ∧ first = false then -1 else 1)

/-! ### Skeleton gates -/

inductive LG (Θ : Type) where
  /-- `x` of `apply_ctrl_state` -/
  | x (q : Nat)
  /-- uncontrolled `unitary(U^(s/p))` on `t` -/
  | root (t : Nat) (p : Nat) (s : Int)
  /-- `U^(s/p)` on `t`, controlled by wire `c` reading `cv` -/
  | croot (c t : Nat) (cv : Bool) (p : Nat) (s : Int)
  /-- `crx(s·π/p, c, t)` -/
  | crx (c t : Nat) (p : Nat) (s : Int)
  /-- `MultiTargetMCSU2.multi_target_mcsu2(circ, [RX(s_j·π/p_j)], ctrls, tgts)` (kept opaque:
  part A of C04) -/
  | mtmcsu2 (ctrls tgts : List Nat) (rx : List (Nat × Int))
  /-- an opaque call of another multi-controlled gate class with `U^(s/p)` (Mcg dispatch) -/
  | call (cls : String) (ctrls : List Nat) (t : Nat) (cs : Option (List Bool)) (p : Nat) (s : Int)
  /-- a primitive gate of the shared alphabet (the linear MCX inside Qdmcu) -/
  | prim (g : G Θ)
  deriving Repr

variable {Θ : Type}

def LG.mapWires (f : Nat → Nat) : LG Θ → LG Θ
  | .x q => .x (f q)
  | .root t p s => .root (f t) p s
  | .croot c t cv p s => .croot (f c) (f t) cv p s
  | .crx c t p s => .crx (f c) (f t) p s
  | .mtmcsu2 cs ts rx => .mtmcsu2 (cs.map f) (ts.map f) rx
  | .call cls cs t pat p s => .call cls (cs.map f) (f t) pat p s
  | .prim g => .prim (g.mapWires f)

/-- The X conjugation of `apply_ctrl_state` on controls `0..k-1` (`none`: IndexError). -/
def ctrlXsL (k : Nat) (cs : Option (List Bool)) : Option (List (LG Θ)) :=
  (ctrlXs (Θ := Θ) k (fun i => i) cs).map (fun l => l.filterMap fun g =>
    match g with | .x q => some (LG.x q) | _ => none)

/-! ### `Ldmcu` -/

/-- One call of `Ldmcu._c1c2(unitary, n_qubits, circ, first, step)`. -/
def c1c2 (n : Nat) (first fwd : Bool) : List (LG Θ) :=
  (qubitPairs n fwd).map fun pr =>
    if pr.2 = n - 1 ∧ first = true then LG.croot pr.1 pr.2 true (param pr) (signal pr first fwd)
    else LG.crx pr.1 pr.2 (param pr) (signal pr first fwd)

/-- The four sweeps on `k` controls `0..k-1` and target `k` (`num_qubits = k + 1`). -/
def ladder (k : Nat) : List (LG Θ) :=
  c1c2 (k + 1) true true ++ c1c2 (k + 1) true false ++ c1c2 k false true ++ c1c2 k false false

/-- `Ldmcu(U, k, ctrl_state).definition`. -/
def ldmcu (k : Nat) (cs : Option (List Bool)) : Option (List (LG Θ)) :=
  if k = 0 then some [LG.root 0 1 1] else
  match ctrlXsL k cs with
  | none => none
  | some xs => some (xs ++ ladder k ++ xs)

/-! ### `Qdmcu` -/

/-- `circuit.inverse()` of a list of primitive gates of the linear MCX (self-inverse gates and
`u(θ,φ,λ)⁻¹ = u(-θ,-λ,-φ)`); `none` for a gate kind the linear MCX never contains. -/
def invG (neg : Θ → Θ) : G Θ → Option (G Θ)
  | .x q => some (.x q)
  | .cx c t => some (.cx c t)
  | .ccx a b t => some (.ccx a b t)
  | .mcx cs t => some (.mcx cs t)
  | .u θ φ l q => some (.u (neg θ) (neg l) (neg φ) q)
  | _ => none

def invCirc (neg : Θ → Θ) (c : Circ Θ) : Option (Circ Θ) :=
  c.reverse.mapM (invG neg)

/-- `Qdmcu(U^(1/2^d), k, ctrl_state).definition` placed on wires `ctrls ++ [t]`.
`pat` is the `ctrl_state` string (character `j` ↦ `pat[j]`), already defaulted to `'1'*k`;
`fuel` bounds the recursion (`≥ k`).  The first character goes with the LAST control
(`ctrl_state[:1]` with `controls[-1]`), the rest (`ctrl_state[1:]`) with `controls[:-1]`, both for the
linear MCX and for the recursive call.  The linear MCX acts on `[*controls[:-1], controls[-1],
target]`: its target is the peeled control and its (dirty) ancilla is the real target. -/
def qdmcuRec (o : McxAngles Θ) (neg : Θ → Θ) :
    Nat → Nat → List Nat → Nat → List Bool → Option (List (LG Θ))
  | 0, _, _, _, _ => none
  | fuel + 1, d, ctrls, t, pat =>
    let k := ctrls.length
    if k = 0 ∨ pat.length ≠ k then none
    else if k = 1 then
      some [LG.croot (ctrls.getD 0 0) t (pat.getD 0 true) (2 ^ d) 1]
    else
      let last := ctrls.getD (k - 1) 0
      let rest := ctrls.take (k - 1)
      let cv := pat.getD 0 true
      match linearMcx o (k - 1) (some (pat.drop 1)) true with
      | none => none
      | some lin =>
        match invCirc neg lin with
        | none => none
        | some linInv =>
          let ws := rest ++ [last, t]
          match qdmcuRec o neg fuel (d + 1) rest t (pat.drop 1) with
          | none => none
          | some tail =>
            some ([LG.croot last t cv (2 ^ (d + 1)) 1]
              ++ (place lin ws).map LG.prim
              ++ [LG.croot last t cv (2 ^ (d + 1)) (-1)]
              ++ (place linInv ws).map LG.prim
              ++ tail)

/-- `Qdmcu(U, k, ctrl_state).definition` (`ctrl_state = None` ↦ all ones).  `k = 0` and a pattern
of the wrong length are outside the model. -/
def qdmcu (o : McxAngles Θ) (neg : Θ → Θ) (k : Nat) (cs : Option (List Bool)) :
    Option (List (LG Θ)) :=
  qdmcuRec o neg (k + 1) 0 (List.range k) k (cs.getD (List.replicate k true))

/-! ### `Mcg` -/

/-- `Mcg._define`: the callee and what it is given.  `su2` is the outcome of `check_su2`
(`isclose(det, 1)`), `utd` the flag `up_to_diagonal`.  With `up_to_diagonal` a matrix outside
SU(2) is normalised (`u2_to_su2`: `U / det(U)^(1/2)`, principal root) and handed to a nested `Mcg`
with the same controls, target and pattern (class tag `"mcg:su2"`: the matrix is the
normalisation of `U`, not a root of it). -/
def mcg (k : Nat) (cs : Option (List Bool)) (su2 utd : Bool) : Option (List (LG Θ)) :=
  if k = 0 then some [LG.root 0 1 1]
  else if k = 1 then
    -- `u_gate.control(1, ctrl_state=self.ctrl_state)`
    some [LG.croot 0 1 ((cs.getD [true]).getD 0 true) 1 1]
  else if su2 then some [LG.call "ldmcsu" (List.range k) k cs 1 1]
  else if utd then some [LG.call "mcg:su2" (List.range k) k cs 1 1]
  else some [LG.call "Ldmcu" (List.range k) k cs 1 1]

/-! ### `MCU` (approximate) -/

/-- `MCU.__init__` after `_get_num_base_ctrl_qubits` returned `b`:
`b == 0` ↦ `ValueError`, `b > num_controls` ↦ `ValueError`, otherwise accepted (negative `b`
included). -/
def mcuAccept (k : Nat) (b : Int) : Bool := !(b == 0) && !(b > (k : Int))

/-- One call of `MCU._c1c2(n_qubits, circ, first, step)` with `n_ctrl_base = b`. -/
def mcuC1c2 (nq : Nat) (b : Int) (first fwd : Bool) : List (LG Θ) :=
  -- `_calc_extra_qubits`
  let nBase : Int := if first then b + 1 else b
  let nb : Nat := nBase.toNat                      -- `range` of a negative number is empty
  let extra : Nat := ((nq : Int) - nBase).toNat    -- only used when a pair exists (then `nBase ≥ 2`)
  let step (acc : List (LG Θ) × List (Nat × Int) × List Nat) (pr : Nat × Nat) :=
    let (out, ulist, tgts) := acc
    let p := param pr
    let s := signal pr first fwd
    if pr.2 = nb - 1 ∧ first = true then
      if pr.1 ≠ 0 then (out ++ [LG.croot (pr.1 + extra) (pr.2 + extra) true p s], ulist, tgts)
      else (out, ulist, tgts)
    else if pr.1 = 0 ∧ extra ≥ 1 then
      let ulist' := ulist ++ [(p, s)]
      let tgts' := tgts ++ [pr.2 + extra]
      if pr.2 = 1 then
        (out ++ [LG.mtmcsu2 (List.range (extra + 1)) tgts' ulist'], ulist', tgts')
      else (out, ulist', tgts')
    else (out ++ [LG.crx (pr.1 + extra) (pr.2 + extra) p s], ulist, tgts)
  ((qubitPairs nb fwd).foldl step ([], [], [])).1

/-- `MCU(U, k, error, ctrl_state).definition` given the base-control count `b`; `none` = the
constructor raises (or `apply_ctrl_state` does). -/
def mcu (k : Nat) (b : Int) (cs : Option (List Bool)) : Option (List (LG Θ)) :=
  if !mcuAccept k b then none
  else if k = 0 then some [LG.root 0 1 1]
  else
    match ctrlXsL k cs with
    | none => none
    | some xs =>
      some (xs ++ mcuC1c2 (k + 1) b true true ++ mcuC1c2 (k + 1) b true false
        ++ mcuC1c2 k b false true ++ mcuC1c2 k b false false ++ xs)

end Qclib.Mcu2
