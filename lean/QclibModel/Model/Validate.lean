/-
  C16 — model of qclib's input validation.  Core Lean only.

  The validators of qclib (`Initialize._get_num_qubits`, `isometry.decompose` + `_check_isometry` +
  `_is_isometry`, `gates/util.check_u2`, `check_su2`, the guard at the top of `unitary.unitary`) are
  straight-line sequences of `if <test>: raise <Exc>(…)`.  They are read from the CURRENT source on
  every run by `tools/props/c16.py::generate` and written to `Gen/Validate.lean` as DATA of the types
  below (`Step`, `Cond`, `Atom` — one constructor per recognised Python expression form, anything
  else is refused by the extractor) together with the entry-point table (`Entry`, `Ev`: which
  validator every public constructor / function calls, in statement order, before it builds).
  This file is the *interpreter* of that data: the same functions run on `Float` (driver: the tie
  against the real constructors) and are reasoned about over an ordered field (theorems).

  Number operations are an explicit record so that no `Float` occurs here.
-/
namespace Qclib.Validate

/-- A decimal literal of the Python source: `m`·10^(−`e`)  (`1e-10` is `⟨1, 10⟩`, `0.0` is `⟨0, 0⟩`). -/
structure Dec where
  m : Nat
  e : Nat
  deriving DecidableEq, Repr

/-- Number operations used by the validators. -/
structure NOps (α : Type) where
  ofNat : Nat → α
  /-- value of a decimal literal (correctly rounded in the `Float` instance, exact in a field) -/
  ofDec : Dec → α
  add : α → α → α
  sub : α → α → α
  mul : α → α → α
  abs : α → α
  /-- `a <= b` (false when either side is NaN) -/
  le : α → α → Bool
  /-- `a == b` -/
  eq : α → α → Bool
  isInf : α → Bool

/-- A complex number as a pair. -/
structure Cx (α : Type) where
  re : α
  im : α

section ops
variable {α : Type} (o : NOps α)

def czero : Cx α := ⟨o.ofNat 0, o.ofNat 0⟩
def cadd (a b : Cx α) : Cx α := ⟨o.add a.re b.re, o.add a.im b.im⟩
def csub (a b : Cx α) : Cx α := ⟨o.sub a.re b.re, o.sub a.im b.im⟩
def cmul (a b : Cx α) : Cx α :=
  ⟨o.sub (o.mul a.re b.re) (o.mul a.im b.im), o.add (o.mul a.re b.im) (o.mul a.im b.re)⟩
/-- `conj(a) * b` = `(a.re b.re + a.im b.im) + i (a.re b.im − a.im b.re)`. -/
def cmulConjL (a b : Cx α) : Cx α :=
  ⟨o.add (o.mul a.re b.re) (o.mul a.im b.im), o.sub (o.mul a.re b.im) (o.mul a.im b.re)⟩
/-- `a * conj(b)` = `(a.re b.re + a.im b.im) + i (a.im b.re − a.re b.im)`. -/
def cmulConjR (a b : Cx α) : Cx α :=
  ⟨o.add (o.mul a.re b.re) (o.mul a.im b.im), o.sub (o.mul a.im b.re) (o.mul a.re b.im)⟩
/-- `|a|²` (numpy computes `abs(a)**2` through `hypot`; equal up to an ulp). -/
def normSq (a : Cx α) : α := o.add (o.mul a.re a.re) (o.mul a.im a.im)

/-- `Σ_{k<n} f k`, left fold from `0` (Python's `sum`, numpy's `dot` up to association). -/
def sumRange (n : Nat) (f : Nat → α) : α := (List.range n).foldl (fun acc k => o.add acc (f k)) (o.ofNat 0)
def csumRange (n : Nat) (f : Nat → Cx α) : Cx α :=
  ⟨sumRange o n (fun k => (f k).re), sumRange o n (fun k => (f k).im)⟩

end ops

/-- The array handed to a validator: `ndim`, `shape[0]`, `shape[1]` and the entries.
A state vector is `ndim = 1`, `rows = len`, `cols = 1`, entries `ent k 0` (this is also what
`decompose` makes of a 1-D input with `iso.reshape(n, 1)`). -/
structure Arr (α : Type) where
  ndim : Nat
  rows : Nat
  cols : Nat
  ent : Nat → Nat → Cx α

inductive Dim where
  | rows | cols
  deriving DecidableEq, Repr

def Arr.dim {α} (A : Arr α) : Dim → Nat
  | .rows => A.rows
  | .cols => A.cols

/-- Which Gram matrix: `left` = `conj(M.T) @ M` (`cols × cols`), `right` = `M @ conj(M.T)` (`rows × rows`). -/
inductive Side where
  | left | right
  deriving DecidableEq, Repr

/-- The recognised test expressions.  `d` is `len(params)` / `shape[0]` (`rows`) or `shape[1]` (`cols`). -/
inductive Atom where
  /-- `log2(d).is_integer()` — `math.log2(0)` raises `ValueError` -/
  | logIsInt (d : Dim)
  /-- `log2(d) == 0` -/
  | logEqZero (d : Dim)
  /-- `log2(d) < 0` -/
  | logNeg (d : Dim)
  /-- `log2(a) > log2(b)` -/
  | logGt (a b : Dim)
  /-- `matrix.ndim != k` -/
  | ndimNe (k : Nat)
  /-- `matrix.shape[0] != matrix.shape[1]` -/
  | rowsNeCols
  /-- `matrix.shape != (r, c)` -/
  | shapeNe (r c : Nat)
  /-- `math.isclose(sum(np.absolute(params) ** 2), 1.0, rel_tol=rel, abs_tol=abs)` -/
  | normClose (rel abs : Dec)
  /-- `np.allclose(G, I, rtol, atol)` for the Gram matrix `G` of the given side -/
  | gramClose (s : Side) (rtol atol : Dec)
  /-- `cmath.isclose(np.linalg.det(matrix), 1.0, rel_tol=rel, abs_tol=abs)` (2×2 determinant) -/
  | detClose (rel abs : Dec)
  deriving DecidableEq, Repr

inductive Cond where
  | atom (a : Atom)
  | not (c : Cond)
  | or (a b : Cond)
  | and (a b : Cond)
  deriving DecidableEq, Repr

/-- One statement of a validator. -/
inductive Step where
  /-- `x = log2(d)` bound before the tests: raises `ValueError` (math domain error) when `d = 0` -/
  | log2 (d : Dim)
  /-- `if c: raise exc(…)` -/
  | rejectIf (c : Cond) (exc : String)
  /-- `if c: <an expression statement>` — the test is evaluated, nothing is raised
  (what `if …: Exception("…")` without `raise` does) -/
  | skipIf (c : Cond)
  deriving DecidableEq, Repr

/-- `log2(n).is_integer()` for `n ≥ 1` (pattern rule: `math.log2` is exact on powers of two and is
not an integer on any other integer below 2^53). -/
def isPow2 (n : Nat) : Bool := decide (0 < n) && (2 ^ Nat.log2 n == n)

section eval
variable {α : Type} (o : NOps α) (A : Arr α)

/-- Python's sum of the squared moduli of a vector. -/
def vecNormSq : α := sumRange o A.rows (fun k => normSq o (A.ent k 0))

/-- CPython `math.isclose(a, b, rel_tol, abs_tol)` (`Modules/mathmodule.c`), statement by statement. -/
def mathIsclose (rel abs : Dec) (a b : α) : Bool :=
  if o.eq a b then true
  else if o.isInf a || o.isInf b then false
  else
    let diff := o.abs (o.sub b a)
    o.le diff (o.abs (o.mul (o.ofDec rel) b)) || o.le diff (o.abs (o.mul (o.ofDec rel) a))
      || o.le diff (o.ofDec abs)

/-- Entry `(i, j)` of the Gram matrix. -/
def gram (s : Side) (i j : Nat) : Cx α :=
  match s with
  | .left => csumRange o A.rows (fun k => cmulConjL o (A.ent k i) (A.ent k j))
  | .right => csumRange o A.cols (fun k => cmulConjR o (A.ent i k) (A.ent j k))

def gramSize (s : Side) : Nat :=
  match s with
  | .left => A.cols
  | .right => A.rows

/-- `np.isclose(x, δ)` for one entry against the identity's entry `δ ∈ {0, 1}`:
`|x − δ| ≤ atol + rtol·|δ|`, compared through squares (both sides are non-negative). -/
def entryClose (rtol atol : Dec) (x : Cx α) (δ : Nat) : Bool :=
  let t := o.add (o.ofDec atol) (o.mul (o.ofDec rtol) (o.abs (o.ofNat δ)))
  o.le (normSq o (csub o x ⟨o.ofNat δ, o.ofNat 0⟩)) (o.mul t t)

def gramCloseB (s : Side) (rtol atol : Dec) : Bool :=
  (List.range (gramSize A s)).all fun i =>
    (List.range (gramSize A s)).all fun j =>
      entryClose o rtol atol (gram o A s i j) (if i = j then 1 else 0)

/-- 2×2 determinant. -/
def det2 : Cx α := csub o (cmul o (A.ent 0 0) (A.ent 1 1)) (cmul o (A.ent 0 1) (A.ent 1 0))

/-- CPython `cmath.isclose(a, 1.0)`, moduli compared through squares. -/
def cIsclose1 (rel abs : Dec) (a : Cx α) : Bool :=
  if o.eq a.re (o.ofNat 1) && o.eq a.im (o.ofNat 0) then true
  else if o.isInf a.re || o.isInf a.im then false
  else
    let d2 := normSq o (csub o a ⟨o.ofNat 1, o.ofNat 0⟩)
    let r2 := o.mul (o.ofDec rel) (o.ofDec rel)
    o.le d2 r2 || o.le d2 (o.mul r2 (normSq o a)) || o.le d2 (o.mul (o.ofDec abs) (o.ofDec abs))

def evalAtom : Atom → Except String Bool
  | .logIsInt d => if A.dim d = 0 then .error "ValueError" else .ok (isPow2 (A.dim d))
  | .logEqZero d => if A.dim d = 0 then .error "ValueError" else .ok (A.dim d == 1)
  | .logNeg d => if A.dim d = 0 then .error "ValueError" else .ok false
  | .logGt a b =>
      if A.dim a = 0 || A.dim b = 0 then .error "ValueError" else .ok (decide (A.dim b < A.dim a))
  | .ndimNe k => .ok (A.ndim != k)
  | .rowsNeCols => .ok (A.rows != A.cols)
  | .shapeNe r c => .ok (!(A.ndim == 2 && A.rows == r && A.cols == c))
  | .normClose rel abs => .ok (mathIsclose o rel abs (vecNormSq o A) (o.ofNat 1))
  | .gramClose s rtol atol => .ok (gramCloseB o A s rtol atol)
  | .detClose rel abs => .ok (cIsclose1 o rel abs (det2 o A))

def evalCond : Cond → Except String Bool
  | .atom a => evalAtom o A a
  | .not c =>
      match evalCond c with
      | .error e => .error e
      | .ok b => .ok (!b)
  | .or a b =>
      match evalCond a with
      | .error e => .error e
      | .ok true => .ok true
      | .ok false => evalCond b
  | .and a b =>
      match evalCond a with
      | .error e => .error e
      | .ok false => .ok false
      | .ok true => evalCond b

def runStep : Step → Except String Unit
  | .log2 d => if A.dim d = 0 then .error "ValueError" else .ok ()
  | .rejectIf c exc =>
      match evalCond o A c with
      | .error e => .error e
      | .ok true => .error exc
      | .ok false => .ok ()
  | .skipIf c =>
      match evalCond o A c with
      | .error e => .error e
      | .ok _ => .ok ()

/-- Run a validator: `.ok ()` = accepted, `.error cls` = the exception class raised. -/
def run : List Step → Except String Unit
  | [] => .ok ()
  | s :: rest =>
      match runStep o A s with
      | .error e => .error e
      | .ok () => run rest

end eval

/-! ### Entry points -/

/-- What a statement of a constructor / public function does, as far as validation is concerned
(statements that neither validate nor build are not listed). -/
inductive Ev where
  /-- `validator(<the input>)` as a statement: its exception propagates -/
  | validate (v : String)
  /-- the same inside `for u in <the input list>:` — applied to every element -/
  | validateEach (v : String)
  /-- `if not predicate(<the input>): raise exc(…)` -/
  | requireTrue (p : String) (exc : String)
  /-- `predicate(<the input>)` as a statement: the result is dropped -/
  | ignored (p : String)
  /-- a validator / predicate applied to something that is NOT the input -/
  | misapplied (v : String)
  /-- `if <test on the input>: raise …` written in the function itself; `g` names the generated step list -/
  | guard (g : String)
  /-- another `if …: raise …` whose test does not concern the matrix/vector (e.g. MCU's number of base qubits) -/
  | opaqueGuard (exc : String)
  /-- the first statement that creates the gate / circuit (`super().__init__`, `build_unitary`, `return _ccd(…)`) -/
  | build (what : String)
  deriving DecidableEq, Repr

/-- Kind of input an entry point takes = which validity condition the property states for it. -/
inductive Kind where
  | dense | unitary | isometry | u2
  deriving DecidableEq, Repr

structure Entry where
  /-- `module:Class` or `module:function`, plus `[list]` / `[single]` for MultiTargetMCSU2's two branches -/
  name : String
  kind : Kind
  evs : List Ev
  deriving DecidableEq, Repr

/-- The validator event the property requires for a kind of input. -/
def Kind.required : Kind → List Ev
  | .dense => [.validate "Initialize._get_num_qubits"]
  | .unitary => [.guard "unitary"]
  | .isometry => [.validate "_check_isometry"]
  | .u2 => [.validate "check_u2", .validateEach "check_u2"]

/-- `need` occurs in `evs` before any `build`. -/
def guardedBy (need : List Ev) : List Ev → Bool
  | [] => false
  | e :: rest =>
      if need.contains e then true
      else match e with
        | .build _ => false
        | _ => guardedBy need rest

def Entry.guarded (e : Entry) : Bool := guardedBy e.kind.required e.evs

section decide
variable {α : Type} (o : NOps α)

/-- The generated validators, by name: step lists and predicates. -/
structure Validators where
  steps : String → List Step
  preds : String → Cond

/-- Decision of an entry point on one input array: run the events in statement order up to the
first `build`.  (`validateEach` is given the element under test; the harness sends lists whose
other elements are valid.) -/
def entryDecide (V : Validators) (A : Arr α) : List Ev → Except String Unit
  | [] => .ok ()
  | e :: rest =>
      match e with
      | .validate v | .validateEach v | .guard v =>
          match run o A (V.steps v) with
          | .error x => .error x
          | .ok () => entryDecide V A rest
      | .requireTrue p exc =>
          match evalCond o A (V.preds p) with
          | .error x => .error x
          | .ok false => .error exc
          | .ok true => entryDecide V A rest
      | .ignored _ | .misapplied _ | .opaqueGuard _ => entryDecide V A rest
      | .build _ => .ok ()

end decide

end Qclib.Validate
