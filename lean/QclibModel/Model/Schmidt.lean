/-
  Model of the bipartition reshape, the rank rule and the Schmidt composition of
  `qclib/entanglement.py` (C09, C07), and of the register / encoder plan of
  `qclib/state_preparation/lowrank.py::LowRankInitialize._define_initialize` (C07; the partition is
  sorted by `_create_quantum_circuit` before the registers are formed).
  Core Lean only; everything is executable (the drivers `Drivers/C09.lean`, `Drivers/C07.lean` run
  these very definitions).

  Conventions (numpy, C order).  A vector of length `2^n` reshaped to `(2,)*n` has **axis `a` =
  bit `n-1-a`** of the flat index (axis 0 is the most significant bit).  qclib's `partition` is a
  list of *axes* (= qubit labels in qclib's big-endian convention).  `np.moveaxis(T, src, dst)`
  with `dst` the trailing `|src|` axes in increasing order is `T.transpose(rest ++ src)`, `rest` the
  axes not in `src` in increasing order (numpy builds `order` by inserting `src[m]` at `dst[m]`,
  smallest destination first); `transpose(order)` puts old axis `order[p]` at new position `p`.
  The opposite call (`src` = trailing axes, `dst = sorted(partition)`) is the transposition by the
  inverse permutation.  These two facts about numpy are the specification of `moveaxis` this model
  relies on; the tie validates them on every run (exact diff against the real functions).
-/
namespace Qclib.Schmidt

/-! ### flat index ↔ axis values -/

/-- Axis values (most significant first) of the flat index `i` of a `(2,)*n` tensor. -/
def toBits : Nat → Nat → List Bool
  | 0, _ => []
  | n+1, i => i.testBit n :: toBits n i

/-- Flat (C-order) index of a list of axis values, most significant first. -/
def ofBits : List Bool → Nat
  | [] => 0
  | b :: bs => (if b then 2 ^ bs.length else 0) + ofBits bs

/-- `T.transpose(ord)` read at axis values `b` of the *source*: new position `p` holds old axis
`ord[p]`. -/
def gather (ord : List Nat) (b : List Bool) : List Bool := ord.map (fun a => b.getD a false)

/-! ### which axes are moved: `sorted(partition)` followed by numpy's axis normalisation -/

/-- numpy `normalize_axis_index`: `-n ≤ a < n`, negative axes count from the end. -/
def normAxis (n : Nat) (a : Int) : Option Nat :=
  if 0 ≤ a ∧ a < n then some a.toNat
  else if -(n : Int) ≤ a ∧ a < 0 then some (a + n).toNat
  else none

def normAxes (n : Nat) : List Int → Option (List Nat)
  | [] => some []
  | a :: as =>
    match normAxis n a, normAxes n as with
    | some x, some xs => some (x :: xs)
    | _, _ => none

/-- Insertion sort (structural, so that it evaluates inside the kernel); `sorted(...)` of Python. -/
def insertBy {α : Type} (le : α → α → Bool) (a : α) : List α → List α
  | [] => [a]
  | b :: bs => if le a b then a :: b :: bs else b :: insertBy le a bs

def isort {α : Type} (le : α → α → Bool) : List α → List α
  | [] => []
  | a :: as => insertBy le a (isort le as)

def hasDup : List Nat → Bool
  | [] => false
  | a :: as => as.contains a || hasDup as

/-- `from_move = sorted(partition)` as numpy understands it: Python sorts the integers as they are
(negative ones first), then numpy normalises every axis and rejects out-of-range (`AxisError`) and
repeated (`ValueError`) axes.  `none` = the real code raises. -/
def sepAxes (n : Nat) (partition : List Int) : Option (List Nat) :=
  match normAxes n (isort (fun a b => decide (a ≤ b)) partition) with
  | some src => if hasDup src then none else some src
  | none => none

/-- Axes that are not moved, in increasing order. -/
def restAxes (n : Nat) (src : List Nat) : List Nat :=
  (List.range n).filter (fun a => !src.contains a)

/-- The transposition `moveaxis(·, src, trailing axes)` performs. -/
def sepOrder (n : Nat) (src : List Nat) : List Nat := restAxes n src ++ src

/-! ### the two index maps -/

/-- `_separation_matrix`: where entry `i` of the vector lands: `(row, col)` of the
`2^(n-k) × 2^k` matrix (`k = |src|`). -/
def sepIndexAx (n : Nat) (src : List Nat) (i : Nat) : Nat × Nat :=
  let j := ofBits (gather (sepOrder n src) (toBits n i))
  (j / 2 ^ src.length, j % 2 ^ src.length)

/-- `_undo_separation_matrix`: where entry `(row, col)` of the matrix lands in the vector. -/
def undoIndexAx (n : Nat) (src : List Nat) (r c : Nat) : Nat :=
  let b := toBits n (r * 2 ^ src.length + c)
  let ord := sepOrder n src
  ofBits ((List.range n).map (fun a => b.getD (ord.idxOf a) false))

/-- `_separation_matrix(n, v, partition)` (numpy "pull" semantics of `transpose`: the result is
read from the source). -/
def sepMat {α : Type} (n : Nat) (src : List Nat) (v : Nat → α) : Nat → Nat → α :=
  fun r c => v (undoIndexAx n src r c)

/-- `_undo_separation_matrix(n, M, partition)`. -/
def undoVec {α : Type} (n : Nat) (src : List Nat) (M : Nat → Nat → α) : Nat → α :=
  fun i => M (sepIndexAx n src i).1 (sepIndexAx n src i).2

/-- The real entry points, on a `partition` as the user passes it. -/
def sepIndex (n : Nat) (partition : List Int) (i : Nat) : Option (Nat × Nat) :=
  (sepAxes n partition).map (fun src => sepIndexAx n src i)

def undoIndex (n : Nat) (partition : List Int) (r c : Nat) : Option Nat :=
  (sepAxes n partition).map (fun src => undoIndexAx n src r c)

/-! ### rank rule (`_effective_rank`, `low_rank_approximation`) -/

/-- `sum(j > 10**-7 for j in singular_values)`. -/
def effRank {α : Type} [LT α] [DecidableRel (fun a b : α => a < b)] (thr : α) (s : List α) : Nat :=
  (s.filter (fun x => decide (thr < x))).length

/-- `ceil(log2(x))` for an integer `x ≥ 1` (the float idiom is exact far beyond any reachable
size: `math.log2` is exact on powers of two and `log2(2^k+1)` only rounds to `k` for `k ≥ 49`). -/
def ceilLog2 (x : Nat) : Nat := if x ≤ 1 then 0 else (x - 1).log2 + 1

/-- `int(2 ** ceil(log2(x)))`: least power of two `≥ x`. -/
def clp2 (x : Nat) : Nat := 2 ^ ceilLog2 x

/-- `if 0 < low_rank < effective_rank: effective_rank = low_rank`. -/
def cappedRank (lowRank : Int) (eff : Nat) : Nat :=
  if 0 < lowRank ∧ lowRank < (eff : Int) then lowRank.toNat else eff

/-- The `rank` returned by `low_rank_approximation`; `none` = `math.log2(0)` raises `ValueError`
(no singular value above the threshold, e.g. the zero vector). -/
def rankRule (lowRank : Int) (eff : Nat) : Option Nat :=
  let e := cappedRank lowRank eff
  if e = 0 then none else some (clp2 e)

/-! ### composition (`schmidt_composition`) -/

/-- `Σ_{i<k} f i`. -/
def sumTo {α : Type} [Zero α] [Add α] : Nat → (Nat → α) → α
  | 0, _ => 0
  | k+1, f => sumTo k f + f k

/-- `(svd_u[:, :rank] * singular_values) @ svd_v[:rank, :]`. -/
def composeMat {α : Type} [Zero α] [Add α] [Mul α] (rank : Nat) (U : Nat → Nat → α) (s : Nat → α)
    (V : Nat → Nat → α) : Nat → Nat → α :=
  fun r c => sumTo rank (fun i => U r i * s i * V i c)

/-- `schmidt_composition(svd_u, svd_v, singular_values, partition)` for an already normalised
axis list. -/
def schmidtCompose {α : Type} [Zero α] [Add α] [Mul α] (n : Nat) (src : List Nat) (rank : Nat)
    (U : Nat → Nat → α) (s : Nat → α) (V : Nat → Nat → α) : Nat → α :=
  undoVec n src (composeMat rank U s V)

/-- `singular_values / np.linalg.norm(singular_values)` (the norm is passed in). -/
def renorm {α : Type} [Div α] (nrm : α) (s : Nat → α) : Nat → α := fun i => s i / nrm

/-- Entry-wise inner product `Σ_{r<rows} Σ_{c<cols} conj(A r c) · B r c`. -/
def inner2 {α : Type} [Zero α] [Add α] [Mul α] (conj : α → α) (rows cols : Nat)
    (A B : Nat → Nat → α) : α :=
  sumTo rows (fun r => sumTo cols (fun c => conj (A r c) * B r c))

/-! ### the plan of `LowRankInitialize._define_initialize` (registers, CNOT fan-out, encoders) -/

/-- `_to_qubits(x) = int(ceil(log2(x)))` for `x ≥ 1`. -/
def toQubits (x : Nat) : Nat := ceilLog2 x

/-- `_encode`'s choice, by the shape of `data`: `"sp"` (nested state preparation), `"iso:csd"`
(isometry `2^(m-1) → 2^m`, always csd), `"iso:<iso_scheme>"`, `"unitary:<unitary_scheme>"`. -/
def encKind (rows cols : Nat) (isoScheme uniScheme : String) : String :=
  if cols = 1 then "sp"
  else if rows / 2 = cols then "iso:csd"
  else if rows > cols then "iso:" ++ isoScheme
  else "unitary:" ++ uniScheme

structure Plan where
  rank : Nat
  ebits : Nat
  regA : List Nat
  regB : List Nat
  regSv : List Nat
  cxs : List (Nat × Nat)
  encSv : Option String
  encU : String
  encV : String
  deriving Repr

/-- `partition` (as given, natural numbers, any order), `eff` = number of singular values above
the threshold.  `_create_quantum_circuit` first replaces the partition by `sorted(partition)`;
`reg_a = sorted(partition)[::-1]`, `reg_b = sorted(complement)[::-1]`; the Schmidt decomposition is
taken across the same sorted list (see `sepAxes`). -/
def lowRankPlan (n : Nat) (partition : List Nat) (lowRank : Int) (eff : Nat)
    (isoScheme uniScheme : String) : Option Plan :=
  match rankRule lowRank eff with
  | none => none
  | some rank =>
    let sorted := isort (fun a b => decide (a ≤ b)) partition
    let regA := sorted.reverse
    let regB := (restAxes n sorted).reverse
    let e := toQubits rank
    some { rank := rank, ebits := e, regA := regA, regB := regB, regSv := regB.take e
           cxs := (List.range e).map (fun j => (regB.getD j 0, regA.getD j 0))
           encSv := if e > 0 then some (encKind rank 1 isoScheme uniScheme) else none
           encU := encKind (2 ^ regB.length) rank isoScheme uniScheme
           encV := encKind (2 ^ regA.length) rank isoScheme uniScheme }

end Qclib.Schmidt
