/-
  Syntactic gates emitted by the generator models.  `Θ` is the type of gate parameters
  (`Float` in the driver, an abstract angle group in the theorems).  Wires are naturals.
-/
namespace Qclib

inductive G (Θ : Type) where
  | x (q : Nat)
  | h (q : Nat)
  | cx (c t : Nat)
  | cz (c t : Nat)
  | ccx (a b t : Nat)
  | mcx (cs : List Nat) (t : Nat)          -- all-ones controls
  | ry (θ : Θ) (q : Nat)
  | rz (θ : Θ) (q : Nat)
  | p (θ : Θ) (q : Nat)
  | cp (θ : Θ) (c t : Nat)
  | u (θ φ lam : Θ) (q : Nat)
  | cu (θ φ lam γ : Θ) (c t : Nat)
  | swap (a b : Nat)
  | cswap (c a b : Nat)
  | gphase (θ : Θ)
  deriving Repr, BEq, DecidableEq

namespace G
variable {Θ : Type}

private def ws (l : List Nat) : String := " ".intercalate (l.map toString)

/-- One protocol line per gate: `name wires ; params`. -/
def toLine [ToString Θ] : G Θ → String
  | x q => s!"x {q} ;"
  | h q => s!"h {q} ;"
  | cx c t => s!"cx {c} {t} ;"
  | cz c t => s!"cz {c} {t} ;"
  | ccx a b t => s!"ccx {a} {b} {t} ;"
  | mcx cs t => s!"mcx {ws (cs ++ [t])} ;"
  | ry θ q => s!"ry {q} ; {θ}"
  | rz θ q => s!"rz {q} ; {θ}"
  | p θ q => s!"p {q} ; {θ}"
  | cp θ c t => s!"cp {c} {t} ; {θ}"
  | u θ φ l q => s!"u {q} ; {θ} {φ} {l}"
  | cu θ φ l g c t => s!"cu {c} {t} ; {θ} {φ} {l} {g}"
  | swap a b => s!"swap {a} {b} ;"
  | cswap c a b => s!"cswap {c} {a} {b} ;"
  | gphase θ => s!"gphase ; {θ}"

/-- Rename wires. -/
def mapWires (f : Nat → Nat) : G Θ → G Θ
  | x q => x (f q)
  | h q => h (f q)
  | cx c t => cx (f c) (f t)
  | cz c t => cz (f c) (f t)
  | ccx a b t => ccx (f a) (f b) (f t)
  | mcx cs t => mcx (cs.map f) (f t)
  | ry θ q => ry θ (f q)
  | rz θ q => rz θ (f q)
  | p θ q => p θ (f q)
  | cp θ c t => cp θ (f c) (f t)
  | u θ φ l q => u θ φ l (f q)
  | cu θ φ l g c t => cu θ φ l g (f c) (f t)
  | swap a b => swap (f a) (f b)
  | cswap c a b => cswap (f c) (f a) (f b)
  | gphase θ => gphase θ

end G

abbrev Circ (Θ : Type) := List (G Θ)

/-- Place a sub-circuit written on local wires `0..k-1` onto the wires listed in `ws`
(`QuantumCircuit.append(sub, ws)`). -/
def place {Θ : Type} (c : Circ Θ) (ws : List Nat) : Circ Θ :=
  c.map (G.mapWires (fun i => ws.getD i 0))

end Qclib
