import QclibModel.Model.Ucr
/-  Float instances used only by the driver (the tie), never by theorems. -/
namespace Qclib

def floatOps : AOps Float :=
  ⟨(· + ·), (· - ·), (· * 0.5), fun x => !(x.abs > 1e-8)⟩

/-- Floats are printed as their IEEE bit pattern (`f<uint64>`): Lean's `toString` keeps only six
decimals.  The Python side decodes with `struct`. -/
structure FBits where
  v : Float

instance : ToString FBits := ⟨fun x => "f" ++ toString x.v.toBits⟩

def G.mapParams {Θ Ψ} (f : Θ → Ψ) : G Θ → G Ψ
  | .x q => .x q
  | .h q => .h q
  | .cx c t => .cx c t
  | .cz c t => .cz c t
  | .ccx a b t => .ccx a b t
  | .mcx cs t => .mcx cs t
  | .ry θ q => .ry (f θ) q
  | .rz θ q => .rz (f θ) q
  | .p θ q => .p (f θ) q
  | .cp θ c t => .cp (f θ) c t
  | .u θ φ l q => .u (f θ) (f φ) (f l) q
  | .cu θ φ l g c t => .cu (f θ) (f φ) (f l) (f g) c t
  | .swap a b => .swap a b
  | .cswap c a b => .cswap c a b
  | .gphase θ => .gphase (f θ)

def circLines (c : Circ Float) : List String :=
  c.map (fun g => (g.mapParams FBits.mk).toLine)

end Qclib
