import QclibModel.Model.SparseCore
/-
  C06 — model of `qclib/state_preparation/merge.py` (`MergeInitialize`).
  Key character `i` ↔ qubit `i`.  Every function mirrors the Python function named in its doc
  comment (same loop order, same tie-breaking, same list surgery).
-/
namespace Qclib.Sparse

/-! ### `_maximizing_difference_bit_search` -/

def split0 (strs : List Str) (bit : Nat) : List Str := strs.filter (fun x => bitAt x bit == false)
def split1 (strs : List Str) (bit : Nat) : List Str := strs.filter (fun x => bitAt x bit == true)

/-- accumulator `(bit_index, t_0, t_1, set_difference)` -/
abbrev MaxAcc := Nat × List Str × List Str × Int

/-- loop body over `bit_search_space` -/
def maxDiffStep (strs : List Str) (acc : MaxAcc) (bit : Nat) : MaxAcc :=
  let t0 := split0 strs bit
  let t1 := split1 strs bit
  if !t0.isEmpty && !t1.isEmpty then
    let d : Int := (Int.natAbs ((t0.length : Int) - (t1.length : Int)) : Nat)
    if d > acc.2.2.2 then (bit, t0, t1, d) else acc
  else acc

/-- `list(set(range(len(b_strings[0]))) - set(dif_qubits))`: for small non-negative integers
CPython iterates a set in increasing order. -/
def searchSpace (strs : List Str) (dq : List Nat) : List Nat :=
  (List.range (strs.headD []).length).filter (fun b => !dq.contains b)

def maxDiffAcc (strs : List Str) (dq : List Nat) : MaxAcc :=
  (searchSpace strs dq).foldl (maxDiffStep strs) (0, [], [], -1)

def maxDiffBitSearch (strs : List Str) (dq : List Nat) : Nat × List Str × List Str :=
  let r := maxDiffAcc strs dq
  (r.1, r.2.1, r.2.2.1)

/-! #### termination facts (core Lean): the two halves partition the list -/

theorem split_length (strs : List Str) (bit : Nat) :
    (split0 strs bit).length + (split1 strs bit).length = strs.length := by
  unfold split0 split1
  induction strs with
  | nil => rfl
  | cons a l ih =>
    rw [List.filter_cons, List.filter_cons]
    have e1 : (false == false) = true := rfl
    have e2 : (false == true) = false := rfl
    have e3 : (true == false) = false := rfl
    have e4 : (true == true) = true := rfl
    cases h : bitAt a bit
    · simp only [e1, e2, if_true, Bool.false_eq_true, if_false, List.length_cons]; omega
    · simp only [e3, e4, if_true, Bool.false_eq_true, if_false, List.length_cons]; omega

/-- What the accumulator can be: still the initial empty halves, or the two non-empty halves of
the bit it names. -/
def MaxAccOk (strs : List Str) (acc : MaxAcc) : Prop :=
  (acc.2.1 = [] ∧ acc.2.2.1 = []) ∨
  (acc.2.1 = split0 strs acc.1 ∧ acc.2.2.1 = split1 strs acc.1 ∧ acc.2.1 ≠ [] ∧ acc.2.2.1 ≠ [])

theorem maxDiffStep_ok (strs : List Str) (acc : MaxAcc) (bit : Nat) (h : MaxAccOk strs acc) :
    MaxAccOk strs (maxDiffStep strs acc bit) := by
  unfold maxDiffStep
  by_cases h0 : (split0 strs bit).isEmpty
  · simp [h0]; exact h
  · by_cases h1 : (split1 strs bit).isEmpty
    · simp [h1]; exact h
    · simp only [h0, h1, Bool.not_false, Bool.and_self, if_true]
      split
      · right
        refine ⟨rfl, rfl, ?_, ?_⟩
        · intro e; have e' : split0 strs bit = [] := e; simp [e'] at h0
        · intro e; have e' : split1 strs bit = [] := e; simp [e'] at h1
      · exact h

theorem foldl_maxDiff_ok (strs : List Str) (space : List Nat) (acc : MaxAcc)
    (h : MaxAccOk strs acc) : MaxAccOk strs (space.foldl (maxDiffStep strs) acc) := by
  induction space generalizing acc with
  | nil => exact h
  | cons b l ih => exact ih _ (maxDiffStep_ok strs acc b h)

theorem maxDiffAcc_ok (strs : List Str) (dq : List Nat) : MaxAccOk strs (maxDiffAcc strs dq) :=
  foldl_maxDiff_ok strs _ _ (Or.inl ⟨rfl, rfl⟩)

/-- **Termination measure of `_bit_string_search`**: whichever half the loop keeps, it is strictly
shorter than the list it came from (both halves non-empty ⇒ each misses the other's elements; no
splitting bit ⇒ the halves are empty). -/
theorem maxDiff_shrinks (strs : List Str) (dq : List Nat) (h : strs.length > 1) :
    (maxDiffBitSearch strs dq).2.1.length < strs.length ∧
    (maxDiffBitSearch strs dq).2.2.length < strs.length := by
  have ok := maxDiffAcc_ok strs dq
  unfold maxDiffBitSearch
  simp only
  rcases ok with ⟨e0, e1⟩ | ⟨e0, e1, n0, n1⟩
  · rw [e0, e1]; simp; omega
  · have hl := split_length strs (maxDiffAcc strs dq).1
    have p0 : (maxDiffAcc strs dq).2.1.length > 0 := List.length_pos_iff.mpr n0
    have p1 : (maxDiffAcc strs dq).2.2.1.length > 0 := List.length_pos_iff.mpr n1
    rw [← e0, ← e1] at hl
    omega

/-! ### `_bit_string_search` -/

/-- `while len(temp_strings) > 1: …` — well-founded on the length of `temp_strings`. -/
def bitStringSearch (temp : List Str) (dq : List Nat) (dv : List Bool) :
    List Str × List Nat × List Bool :=
  if _h : temp.length > 1 then
    let r := maxDiffBitSearch temp dq
    if r.2.1.length < r.2.2.length then bitStringSearch r.2.1 (dq ++ [r.1]) (dv ++ [false])
    else bitStringSearch r.2.2 (dq ++ [r.1]) (dv ++ [true])
  else (temp, dq, dv)
termination_by temp.length
decreasing_by
  · exact (maxDiff_shrinks temp dq _h).1
  · exact (maxDiff_shrinks temp dq _h).2

/-! ### `_build_bit_string_set`, `_select_strings` -/

def matchesOn (b : Str) (dq : List Nat) (dv : List Bool) : Bool := dq.map (bitAt b) == dv

def buildBitStringSet (strs : List Str) (dq : List Nat) (dv : List Bool) : List Str :=
  strs.filter (fun b => matchesOn b dq dv)

/-- returns `(bitstr1, bitstr2, dif_qubit, dif_qubits)`; `none` where Python raises
(`pop` from an empty list / index into an empty list). -/
def selectStrings (keys : List Str) : Option (Str × Str × Nat × List Nat) :=
  let r1 := bitStringSearch keys [] []
  match r1.2.1.getLast?, r1.1.head? with
  | some dif, some b1 =>
    let dq := r1.2.1.dropLast
    let dv := r1.2.2.dropLast
    let rest := keys.erase b1
    let cand := buildBitStringSet rest dq dv
    let r2 := bitStringSearch cand dq dv
    match r2.1.head? with
    | some b2 => some (b1, b2, dif, r2.2.1)
    | none => none
  | _, _ => none

/-! ### dictionary tracking and preprocessing -/

inductive MEv (α : Type) where
  | sel (b1 b2 : Str) (dif : Nat) (dq : List Nat)
  | updX (q : Nat) (d : Dict α)
  | updCx (c t : Nat) (d : Dict α)
  | updMerge (b1 b2 : Str) (d : Dict α)
  | ang (θ φ lam : α)

structure MSt (α : Type) where
  b1 : Str
  b2 : Str
  d : Dict α
  gates : List (SG α)
  evs : List (MEv α)

variable {α : Type}

/-- emit `x q` and relabel the two strings and every key with `_compute_op_x` -/
def applyX (st : MSt α) (q : Nat) : MSt α :=
  let d' := st.d.mapKeys (fun k => computeOpX k q)
  { b1 := computeOpX st.b1 q, b2 := computeOpX st.b2 q, d := d',
    gates := st.gates ++ [SG.x q], evs := st.evs ++ [MEv.updX q d'] }

/-- emit `cx c t` and relabel with `_compute_op_cx` -/
def applyCx (st : MSt α) (c t : Nat) : MSt α :=
  let d' := st.d.mapKeys (fun k => computeOpCx k c t)
  { b1 := computeOpCx st.b1 c t, b2 := computeOpCx st.b2 c t, d := d',
    gates := st.gates ++ [SG.cx c t true], evs := st.evs ++ [MEv.updCx c t d'] }

/-- `_equalize_bit_string_states` -/
def equalize (st : MSt α) (dif : Nat) : MSt α :=
  ((List.range st.b1.length).erase dif).foldl
    (fun st b => if bitAt st.b1 b != bitAt st.b2 b then applyCx st dif b else st) st

/-- `_apply_not_gates_to_qubit_index_list` -/
def applyNots (st : MSt α) (dq : List Nat) : MSt α :=
  dq.foldl (fun st b => if bitAt st.b2 b != true then applyX st b else st) st

/-- `_preprocess_states` -/
def preprocess (st : MSt α) (dif : Nat) (dq : List Nat) : MSt α :=
  let st := if bitAt st.b1 dif != true then applyX st dif else st
  applyNots (equalize st dif) dq

/-! ### merge angles (`_compute_angles`) and the `merge` dictionary update -/

section Num
variable [NumOps α]
open NumOps

local infixl:65 " +. " => NumOps.add
local infixl:65 " -. " => NumOps.sub
local infixl:70 " *. " => NumOps.mul
local infixl:70 " /. " => NumOps.div

/-- `abs` of the complex number `re + i·im` -/
def cabs (re im : α) : α := sqrt (re *. re +. im *. im)

/-- `np.linalg.norm([a1, a2])` -/
def normAmp (a1 a2 : Amp α) : α :=
  sqrt ((a1.re *. a1.re +. a1.im *. a1.im) +. (a2.re *. a2.re +. a2.im *. a2.im))

/-- `_compute_angles(amplitude_1, amplitude_2)` → `(theta, phi, lamb)` -/
def mergeAngles (a1 a2 : Amp α) : α × α × α :=
  let n := normAmp a1 a2
  if a1.cplx || a2.cplx then
    let θ := neg two *. asin (cabs (a2.re /. n) (a2.im /. n))
    let lam := atan2 (a2.im /. n) (a2.re /. n)
    let φ := atan2 (a1.im /. n) (a1.re /. n) -. lam
    (θ, φ, lam)
  else
    (neg two *. asin (a2.re /. n), zero, zero)

/-- `operation == "merge"`: `pop(bitstr2)`, `d[bitstr1] = norm` (a real scalar) -/
def mergeUpdate (d : Dict α) (b1 b2 : Str) (nrm : α) : Dict α :=
  (d.filter (fun kv => kv.1 != b2)).map
    (fun kv => if kv.1 == b1 then (kv.1, (⟨nrm, zero, false⟩ : Amp α)) else kv)

/-! ### `_define_initialize` -/

/-- the `while len(b_strings) > 1` loop; every pass removes one key, so `fuel = len(dict)` is
enough (`none` = Python raises, or would not terminate). -/
def mergeLoop : Nat → Dict α → List (SG α) → List (MEv α) →
    Option (Dict α × List (SG α) × List (MEv α))
  | 0, d, g, e => if d.length > 1 then none else some (d, g, e)
  | fuel + 1, d, g, e =>
    if d.length > 1 then
      match selectStrings d.keys with
      | none => none
      | some (b1, b2, dif, dq) =>
        let st := preprocess
          { b1 := b1, b2 := b2, d := d, gates := g, evs := e ++ [MEv.sel b1 b2 dif dq] } dif dq
        match st.d.lookup st.b1, st.d.lookup st.b2 with
        | some a1, some a2 =>
          let ang := mergeAngles a1 a2
          let gate : SG α :=
            if dq.isEmpty then SG.u ang.1 ang.2.1 ang.2.2 dif
            else SG.mcu "Ldmcu" dq ang.1 ang.2.1 ang.2.2 dif
          let d' := mergeUpdate st.d st.b1 st.b2 (normAmp a1 a2)
          mergeLoop fuel d' (st.gates ++ [gate])
            (st.evs ++ [MEv.ang ang.1 ang.2.1 ang.2.2, MEv.updMerge st.b1 st.b2 d'])
        | _, _ => none
    else some (d, g, e)

/-- indices of the `'1'` characters, ascending -/
def onesOf (s : Str) : List Nat := (List.range s.length).filter (fun i => bitAt s i)

/-- `MergeInitialize(d).definition`: gate list (after `reverse_ops`) and the trace. -/
def mergeInit (d : Dict α) : Option (List (SG α) × List (MEv α)) :=
  match mergeLoop d.length d [] [] with
  | none => none
  | some (d', g, e) =>
    match d'.keys.getLast? with
    | none => none
    | some b => some ((g ++ (onesOf b).map SG.x).reverse, e)

end Num
end Qclib.Sparse
