import QclibModel.Model.Gate
/-
  Model of `qclib/gates/toffoli.py` (`Toffoli`), `qclib/gates/mcx.py` (`McxVchainDirty`,
  `LinearMcx`) and `qclib/gates/util.py::apply_ctrl_state` (C05).  Core Lean only.

  Every generator emits the *flattened* gate list (qclib's own composite gates expanded, qiskit
  library gates `cx`, `ccx`, `C3XGate`, `C4XGate`, `mcx(mode='noancilla')` kept as primitives) in
  the order of `QuantumCircuit.data`.  Sub-circuits that the Python code builds on local wires
  `0..m-1` and then `append`s onto a wire list are modelled the same way: built on local wires and
  renamed with `G.mapWires`.
-/
namespace Qclib

/-- The three gate parameters the code uses: `theta = pi/4.`, `-theta`, and `0.`. -/
structure McxAngles (Θ : Type) where
  q : Θ
  nq : Θ
  z : Θ

/-- `Toffoli(cancel=…)`: `None`, `'left'`, `'right'`. -/
inductive Cancel | none | left | right
  deriving Repr, BEq, DecidableEq

/-- `toffoli_multi_target(num_targets, side=…)`: `'l'`, `'r'`, `None`. -/
inductive Side | l | r | both
  deriving Repr, BEq, DecidableEq

variable {Θ : Type}

/-- `Toffoli(cancel).definition` on wires `[c0, c1, t]` (toffoli.py `_define`). -/
def toffoli (o : McxAngles Θ) (cancel : Cancel) (c0 c1 t : Nat) : Circ Θ :=
  (if cancel != .left then [G.u o.nq o.z o.z t, G.cx c0 t, G.u o.nq o.z o.z t] else [])
  ++ [G.cx c1 t]
  ++ (if cancel != .right then [G.u o.q o.z o.z t, G.cx c0 t, G.u o.q o.z o.z t] else [])

/-- `McxVchainDirty.toffoli_multi_target(num_targets, side)` on its local wires `0 .. n+1`. -/
def toffoliMultiTarget (n : Nat) (side : Side) : Circ Θ :=
  let size := 2 + n
  let left : Circ Θ := (List.range (n - 1)).map (fun i => G.cx (size - i - 2) (size - i - 1))
  let right : Circ Θ := (List.range (n - 1)).map (fun i => G.cx (i + 2) (i + 3))
  match side with
  | .l => left ++ [G.ccx 0 1 2]
  | .r => [G.ccx 0 1 2] ++ right
  | .both => left ++ [G.ccx 0 1 2] ++ right

/-- Wire map of `append(sub, [x, y, *targets])`. -/
def tmtWires (x y : Nat) (t : Nat → Nat) : Nat → Nat :=
  fun i => if i = 0 then x else if i = 1 then y else t (i - 2)

/-- `definition.append(toffoli_multi_target(nt, side), [x, y, *targets])`. -/
def tmtOn (nt : Nat) (side : Side) (x y : Nat) (t : Nat → Nat) : Circ Θ :=
  (toffoliMultiTarget nt side).map (G.mapWires (tmtWires x y t))

/-- `_action_circuit(j, …, side)`: the descending ladder.  `c`, `a`, `t` give the wires of the
control, ancilla and target registers; `targets_aux = target[0:1] + ancilla[:k-2][::-1]`. -/
def actionCircuit (o : McxAngles Θ) (k nt : Nat) (c a t : Nat → Nat) (rp : Bool) (j : Nat)
    (side : Side) : Circ Θ :=
  let numAnc := k - 2
  let tAux : Nat → Nat := fun i => if i = 0 then t 0 else a (numAnc - i)
  -- `for i, _ in enumerate(control_qubits)` … `break` in the first iteration with `i ≥ k-2`
  (List.range (k - 1)).flatMap fun i =>
    if i < k - 2 then
      -- `targets_aux[i] not in target_qubits or relative_phase`  (only `targets_aux[0]` is a target)
      if i ≠ 0 ∨ rp = true then
        if rp = true ∧ i = 0 ∧ j = 1 then
          toffoli o .left (c (k - i - 1)) (a (numAnc - i - 1)) (tAux i)
        else
          toffoli o .right (c (k - i - 1)) (a (numAnc - i - 1)) (tAux i)
      else
        tmtOn nt side (c (k - i - 1)) (a (numAnc - i - 1)) t
    else
      toffoli o .none (c (k - i - 2)) (c (k - i - 1)) (tAux i)

/-- The "reset part": `for i, _ in enumerate(ancilla_qubits[1:])`. -/
def resetCircuit (o : McxAngles Θ) (k : Nat) (c a : Nat → Nat) : Circ Θ :=
  (List.range (k - 2 - 1)).flatMap fun i => toffoli o .left (c (2 + i)) (a i) (a (i + 1))

/-- One pass of the `for j in range(2)` loop of `_define`.  (`side = 'r'` is assigned right after
the action part, so the extra `action_only` gate always uses side `'r'`.) -/
def vchainRound (o : McxAngles Θ) (k nt : Nat) (c a t : Nat → Nat) (rp ao : Bool) (j : Nat)
    (side : Side) : Circ Θ :=
  actionCircuit o k nt c a t rp j side ++ resetCircuit o k c a
    ++ (if ao then tmtOn nt .r (c (k - 1)) (a (k - 2 - 1)) t else [])

/-- `McxVchainDirty._define` without the two `_apply_ctrl_state()` calls, `k ≥ 1` controls on wires
`c 0 … c (k-1)`, `k-2` ancillas on `a 0 …`, `nt ≥ 1` targets on `t 0 …`. -/
def vchainBody (o : McxAngles Θ) (k nt : Nat) (c a t : Nat → Nat) (rp ao : Bool) : Circ Θ :=
  if k = 2 then tmtOn nt .both (c 0) (c 1) t
  else if k = 1 then
    -- `mcx(control_qubits, target[k], mode='noancilla')` with one control is `cx`
    (List.range nt).map (fun j => G.cx (c 0) (t j))
  else if rp = false ∧ k = 3 ∧ nt < 2 then
    (List.range nt).map (fun j => G.mcx [c 0, c 1, c 2] (t j))
  else if ao then
    vchainRound o k nt c a t rp ao 0 .l          -- `break` after the first pass
  else
    vchainRound o k nt c a t rp ao 0 .l ++ vchainRound o k nt c a t rp ao 1 .r

/-- `ctrl_state` as the code reads it: character `!= '0'` ↦ `true`. -/
def parseCs (s : String) : List Bool := s.toList.map (fun ch => ch != '0')

/-- The bit required of control `i`: `ctrl_state[::-1][i] != '0'` (controls beyond the string, and
every control when `ctrl_state is None`, are required to be 1). -/
def csBit (cs : Option (List Bool)) (i : Nat) : Bool :=
  match cs with
  | none => true
  | some p => p.reverse.getD i true

/-- `apply_ctrl_state`: an `x` on `control_qubits[i]` for every `'0'` at position `i` of the reversed
string; `none` (IndexError in the code) when a `'0'` sits at a position `≥ k`. -/
def ctrlXs (k : Nat) (c : Nat → Nat) (cs : Option (List Bool)) : Option (Circ Θ) :=
  match cs with
  | none => some []
  | some p =>
    let r := p.reverse
    if (List.range r.length).all (fun i => r.getD i true || decide (i < k)) then
      some ((List.range r.length).flatMap (fun i => if r.getD i true then [] else [G.x (c i)]))
    else none

/-- `McxVchainDirty(k, nt, ctrl_state, relative_phase, action_only).definition` on arbitrary
wires.  `k = 0` and `nt = 0` are outside the model (rejected). -/
def vchainW (o : McxAngles Θ) (k nt : Nat) (c a t : Nat → Nat) (cs : Option (List Bool))
    (rp ao : Bool) : Option (Circ Θ) :=
  if k = 0 ∨ nt = 0 then none else
  match ctrlXs k c cs with
  | none => none
  | some xs => some (xs ++ vchainBody o k nt c a t rp ao ++ xs)

/-- The register layout of the definition: controls, then ancillas, then targets. -/
def vchain (o : McxAngles Θ) (k nt : Nat) (cs : Option (List Bool)) (rp ao : Bool) :
    Option (Circ Θ) :=
  vchainW o k nt (fun i => i) (fun i => k + i) (fun i => k + (k - 2) + i) cs rp ao

/-- qiskit's `mcx(mode='noancilla')` dispatch on the number of controls. -/
def mcxNoAnc (cs : List Nat) (t : Nat) : G Θ :=
  match cs with
  | [c] => G.cx c t
  | [c, d] => G.ccx c d t
  | _ => G.mcx cs t

/-- `LinearMcx._define` without the `_apply_ctrl_state()` calls (`k ≥ 1` controls `0..k-1`,
target `k`, ancilla `k+1`). -/
def linearBody (o : McxAngles Θ) (k : Nat) (ao : Bool) : Circ Θ :=
  let numQubits := k + 2
  let ctrl := List.range (numQubits - 2)
  let target := numQubits - 2
  let anc := numQubits - 1
  if numQubits < 5 then [mcxNoAnc ctrl target]
  else if numQubits = 5 then [G.mcx ctrl target]           -- C3XGate
  else if numQubits = 6 then [G.mcx ctrl target]           -- C4XGate
  else if numQubits = 7 then
    [G.mcx (ctrl.take 3) anc, G.mcx (ctrl.drop 3 ++ [anc]) target,
     G.mcx (ctrl.take 3) anc, G.mcx (ctrl.drop 3 ++ [anc]) target]
  else
    let numCtrl := ctrl.length
    let k2 := (numQubits + 1) / 2                -- int(np.ceil(num_qubits / 2.0))
    let k1 := numCtrl - k2 + 1
    let sub := fun (kk : Nat) (rp ao' : Bool) =>
      vchainBody o kk 1 (fun i => i) (fun i => kk + i) (fun i => kk + (kk - 2) + i) rp ao'
    let w1 := ctrl.take k1 ++ (ctrl.drop k1).take (k1 + k1 - 2 - k1) ++ [anc]
    let w2 := (ctrl.drop k1 ++ [anc]) ++ (ctrl.take k1).drop (k1 + 2 - k2) ++ [target]
    place (sub k1 true false) w1 ++ place (sub k2 false false) w2
      ++ place (sub k1 true false) w1 ++ place (sub k2 false ao) w2

/-- `LinearMcx(k, ctrl_state, action_only).definition`. -/
def linearMcx (o : McxAngles Θ) (k : Nat) (cs : Option (List Bool)) (ao : Bool) :
    Option (Circ Θ) :=
  if k = 0 then none else
  match ctrlXs k (fun i => i) cs with
  | none => none
  | some xs => some (xs ++ linearBody o k ao ++ xs)

end Qclib
