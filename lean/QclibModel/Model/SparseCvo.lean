import QclibModel.Model.SparseCore
/-
  C06 — model of `qclib/state_preparation/cvoqram.py` (`CvoqramInitialize`) and of
  `qclib/util.py::_compute_matrix_angles`.
  Wires: flag `u` = 0; with auxiliaries `anc j` = `1 + j` (`j < n − 1`) and `memory k` = `n + k`,
  without them `memory k` = `1 + k`.  Memory qubit `k` holds character `n − 1 − k` of the key
  (bit `k` of `int(key, 2)`).
-/
namespace Qclib.Sparse

variable {α : Type}

/-- `_select_controls(binary_string)`: positions of `'1'` in the reversed string, ascending -/
def selectControls (s : Str) : List Nat :=
  (List.range s.length).filter (fun k => bitAt s.reverse k)

section Num
variable [NumOps α]
open NumOps

local infixl:65 " +. " => NumOps.add
local infixl:65 " -. " => NumOps.sub
local infixl:70 " *. " => NumOps.mul
local infixl:70 " /. " => NumOps.div

/-- `verify_trigonometric_interval` -/
def clampTrig (v : α) : α :=
  let v := if lt one v then one else v
  if lt v (neg one) then neg one else v

/-- `np.abs(np.power(feature, 2))` for `feature = re + i·im` -/
def absSq (re im : α) : α :=
  let sr := re *. re -. im *. im
  let si := two *. (re *. im)
  sqrt (sr *. sr +. si *. si)

/-- `_compute_matrix_angles(feature, norm)` → `(alpha, beta, phi)`, used as `U(alpha, beta, phi)` -/
def cvoAngles (x : Amp α) (norm : α) : α × α × α :=
  if x.cplx then
    let phase := absSq x.re x.im
    let norm := if lt (norm -. phase) zero then phase else norm
    let cosv := clampTrig (sqrt ((norm -. phase) /. norm))
    let alpha := two *. acos cosv
    let beta0 := acos (neg x.re /. sqrt phase)
    let beta := if lt x.im zero then two *. pi -. beta0 else beta0
    (alpha, beta, neg beta)
  else
    let sinv := clampTrig (neg x.re /. sqrt norm)
    (two *. asin sinv, zero, zero)

/-- `self.norm - np.absolute(np.power(feature, 2))` -/
def normNext (x : Amp α) (norm : α) : α :=
  norm -. (if x.cplx then absSq x.re x.im else absSq x.re zero)

end Num

/-- wire of `memory[k]` -/
def memW (n : Nat) (aux : Bool) (k : Nat) : Nat := if aux then n + k else 1 + k
/-- wire of `anc[j]` -/
def ancW (j : Nat) : Nat := 1 + j

/-- `_flip_flop` -/
def flipFlop (n : Nat) (aux : Bool) (control : List Nat) : List (SG α) :=
  control.map (fun k => SG.cx 0 (memW n aux k) true)

/-- the descending `rccx` ladder of `_mcuvchain` over `lst_ctrl_reversed[2:]`, `i` starting at
`n − 1`: emits `rccx(anc[i-1], memory[ctrl], anc[i-2])` and returns the final `i` -/
def ladderDown (n : Nat) : List Nat → Nat → List (SG α) × Nat
  | [], i => ([], i)
  | c :: cs, i =>
    let r := ladderDown n cs (i - 1)
    (SG.rccx (ancW (i - 1)) (memW n true c) (ancW (i - 2)) :: r.1, r.2)

/-- `_mcuvchain(circuit, alpha, beta, phi)` (needs `len(control) ≥ 2`) -/
def mcuVchain (n : Nat) (control : List Nat) (θ φ lam : α) : List (SG α) :=
  let rev := control.reverse
  let first : SG α := .rccx (memW n true (rev.getD 0 0)) (memW n true (rev.getD 1 0)) (ancW (n - 2))
  let down := ladderDown (α := α) n (rev.drop 2) (n - 1)
  [first] ++ down.1 ++ [SG.cu θ φ lam (ancW (down.2 - 1)) 0] ++ down.1.reverse ++ [first]

/-- name under which the harness lists the opaque multi-controlled back-end -/
def cvoBackend (method : String) : String :=
  if method == "qiskit" then "ctrl" else if method == "barenco" then "LdMcSpecialUnitary" else "Mcg"

/-- `_load_superposition` (gate part) -/
def loadGates (n : Nat) (aux : Bool) (method : String) (control : List Nat) (θ φ lam : α) :
    List (SG α) :=
  match control with
  | [] => [SG.u θ φ lam 0]
  | [c] => [SG.cu θ φ lam (memW n aux c) 0]
  | _ =>
    if aux then mcuVchain n control θ φ lam
    else [SG.mcu (cvoBackend method) (control.map (memW n aux)) θ φ lam 0]

structure CLoad (α : Type) where
  norm : α
  θ : α
  φ : α
  lam : α

/-- the `for k, (binary_string, feature) in enumerate(self.params)` loop -/
def cvoLoop [NumOps α] (n : Nat) (aux : Bool) (method : String) :
    Dict α → α → List (SG α) × List (CLoad α)
  | [], _ => ([], [])
  | (s, x) :: rest, norm =>
    let control := selectControls s
    let ang := cvoAngles x norm
    let ff := flipFlop (α := α) n aux control
    let here := ff ++ loadGates n aux method control ang.1 ang.2.1 ang.2.2
    let r := cvoLoop n aux method rest (normNext x norm)
    (here ++ (if rest.isEmpty then [] else ff) ++ r.1, ⟨norm, ang.1, ang.2.1, ang.2.2⟩ :: r.2)

/-- `CvoqramInitialize(d, opt_params={'with_aux': aux, 'mcg_method': method}).definition` -/
def cvoInit [NumOps α] (n : Nat) (aux : Bool) (method : String) (d : Dict α) :
    List (SG α) × List (CLoad α) :=
  let r := cvoLoop n aux method d NumOps.one
  (SG.x 0 :: r.1, r.2)

end Qclib.Sparse
