import QclibModel.Model.SparseCore
/-
  C06 — model of `qclib/state_preparation/pivot.py` (`PivotInitialize`).
  Inside `_pivoting` key character `k` ↔ wire `k`; the assembled circuit is bit-reversed at the
  end, so that in the result wire `q` holds bit `q` of `int(key, 2)`.
  `n` = number of key characters, `t = ⌈log₂ m⌉` (`target_size`), the *low block* is the set of
  keys whose first `n − t` characters are `'0'`.
-/
namespace Qclib.Sparse

variable {α : Type}

/-- `int(np.ceil(np.log2(m)))` for `m ≥ 1`: least `t` with `2^t ≥ m` -/
def ceilLog2 (m : Nat) : Nat := (List.range (m + 1)).find? (fun t => 2 ^ t ≥ m) |>.getD 0

/-- `_get_index_nz(n − t, state)`: first key whose first `pre` characters are not all `'0'` -/
def getIndexNz (pre : Nat) (st : Dict α) : Option Str :=
  (st.keys.find? (fun k => k.take pre != List.replicate pre false))

/-- binary digits of `k`, most significant first (`""` for 0) -/
def binDigits : Nat → Nat → Str
  | 0, _ => []
  | fuel + 1, k => if k = 0 then [] else binDigits fuel (k / 2) ++ [k % 2 == 1]

/-- `f"{k:0{n}b}"` -/
def fmtBin (n k : Nat) : Str :=
  let ds := if k = 0 then [false] else binDigits (k + 1) k
  List.replicate (n - ds.length) false ++ ds

/-- `for k in range(bound)`: first `k` whose `n`-character form is not a key -/
def indexZeroGo (n : Nat) (keys : List Str) : Nat → Nat → Option Str
  | 0, _ => none
  | fuel + 1, k => if keys.contains (fmtBin n k) then indexZeroGo n keys fuel (k + 1)
                   else some (fmtBin n k)

/-- `_get_index_zero(non_zero, state)` (the Python bound is `2**non_zero`) -/
def getIndexZero (n m : Nat) (st : Dict α) : Option Str := indexZeroGo n st.keys (2 ^ m) 0

def flipAt (s : Str) (i : Nat) : Str := s.take i ++ [!(bitAt s i)] ++ s.drop (i + 1)

/-- `_next_state` on one key.  `d = index_differ`, `cv = ctrl_state`, `tcx = target_cx`,
`lo = remain[0] = n − t`. -/
def nextKey (d : Nat) (cv : Bool) (tcx : List Nat) (lo : Nat) (zero : Str) (index : Str) : Str :=
  let n1 : Str :=
    if bitAt index d == cv then
      (List.range index.length).map (fun k => if tcx.contains k then !(bitAt index k) else bitAt index k)
    else index
  if n1.drop lo == zero.drop lo then
    n1.take d ++ [!(bitAt index d)] ++ n1.drop (d + 1)
  else n1

def nextState (d : Nat) (cv : Bool) (tcx : List Nat) (lo : Nat) (zero : Str) (st : Dict α) : Dict α :=
  st.mapKeys (nextKey d cv tcx lo zero)

/-- Python slice `xs[:k-2]` for `k ≥ 1` (`k = 1` gives `xs[:-1]`) -/
def sliceKm2 (xs : List Nat) (k : Nat) : List Nat := if k ≥ 2 then xs.take (k - 2) else xs.dropLast

/-- `_mcxvchain(circuit, memory, anc, lst_ctrl, tgt)`; `anc j` is wire `n + j` -/
def mcxVchain (n : Nat) (ctrl : List Nat) (tgt : Nat) : List (SG α) :=
  let c := fun i => ctrl.getD i 0
  let a := fun j => n + j
  let first : SG α := .rccx (c 0) (c 1) (a 0)
  let ladder : List (SG α) := ((List.range ctrl.length).drop 2).map (fun j => .rccx (c j) (a (j - 2)) (a (j - 1)))
  [first] ++ ladder ++ [.cx (a (ctrl.length - 2)) tgt true] ++ ladder.reverse ++ [first]

/-- qiskit's `circuit.mcx(controls, target, ancilla_qubits=dirty, mode='v-chain-dirty')`
(opaque; one control is emitted as `cx`, two as `ccx` without borrowed wires) -/
def qiskitMcx (ctrl : List Nat) (tgt : Nat) (dirty : List Nat) : List (SG α) :=
  match ctrl with
  | [c] => [.cx c tgt true]
  | [_, _] => [.mcxd ctrl tgt []]
  | _ => [.mcxd ctrl tgt dirty]

/-- `Mcg(X, num_controls=k).definition` composed on `[*remain, differ]` -/
def mcgX (ctrl : List Nat) (tgt : Nat) : List (SG α) :=
  if ctrl.length == 1 then [.mcuX "ctrl" ctrl tgt] else [.mcuX "Ldmcu" ctrl tgt]

structure PStep (α : Type) where
  nz : Str
  zero : Str
  differ : Nat
  cv : Bool
  st : Dict α

/-- `_pivoting(index_nonzero, target_size, index_zero, next_state)` -/
def pivoting (n t : Nat) (aux : Bool) (nz zero : Str) (st : Dict α) : List (SG α) × PStep α :=
  let target := List.range (n - t)
  let remain := (List.range n).drop (n - t)
  let differ := (target.find? (fun k => bitAt nz k != bitAt zero k)).getD 0
  let cv := bitAt nz differ
  let tcx := target.filter (fun k => differ != k && bitAt nz k != bitAt zero k)
              ++ remain.filter (fun k => bitAt nz k != bitAt zero k)
  let xs : List (SG α) := (remain.filter (fun k => bitAt zero k == false)).map SG.x
  let mc : List (SG α) :=
    if aux then mcxVchain n remain differ
    else if n ≥ 5 && t ≤ (n + 1) / 2 then
      qiskitMcx remain differ (sliceKm2 (target.erase differ) t)
    else mcgX remain differ
  let st' := nextState differ cv tcx (n - t) zero st
  (tcx.map (fun k => SG.cx differ k cv) ++ xs ++ mc ++ xs, ⟨nz, zero, differ, cv, st'⟩)

/-- the `while index_nonzero is not None` loop (`fuel`: every pass moves one more key into the
low block, so `len(params)` passes suffice; `none` = Python raises or would not stop) -/
def pivotLoop (n t m : Nat) (aux : Bool) : Nat → Dict α → List (SG α) → List (PStep α) →
    Option (Dict α × List (SG α) × List (PStep α))
  | fuel, st, g, e =>
    match getIndexNz (n - t) st with
    | none => some (st, g, e)
    | some nz =>
      match fuel with
      | 0 => none
      | fuel + 1 =>
        match getIndexZero n m st with
        | none => none
        | some zero =>
          let r := pivoting n t aux nz zero st
          pivotLoop n t m aux fuel r.2.st (g ++ r.1) (e ++ [r.2])

/-- `int(key, 2)` -/
def strToNat (s : Str) : Nat := s.foldl (fun acc b => 2 * acc + (if b then 1 else 0)) 0

/-- `dense_state[int(key, 2)] = value` over a zero vector of length `2^t`
(`none` = IndexError) -/
def denseVec [NumOps α] (t : Nat) (st : Dict α) : Option (List (Amp α)) :=
  st.foldl (fun acc kv => match acc with
      | none => none
      | some v => if strToNat kv.1 < v.length then some (v.set (strToNat kv.1) kv.2) else none)
    (some (List.replicate (2 ^ t) ⟨NumOps.zero, NumOps.zero, true⟩))

structure PivotOut (α : Type) where
  t : Nat
  steps : List (PStep α)
  dense : List (Amp α)
  gates : List (SG α)

/-- `PivotInitialize(d, opt_params={'aux': aux}).definition` -/
def pivotInit [NumOps α] (n : Nat) (aux : Bool) (d : Dict α) : Option (PivotOut α) :=
  let m := d.length
  if m < 2 then none            -- log2(1) = 0 qubits: the dense initializer rejects a length-1 vector
  else if aux && m < 3 then none -- `_mcxvchain` indexes lst_ctrl[1]
  else
  let t := ceilLog2 m
  match pivotLoop n t m aux m d [] [] with
  | none => none
  | some (st, g, e) =>
    match denseVec t st with
    | none => none
    | some v =>
      let width := if aux then n + t - 1 else n
      let off := if aux then t - 1 else 0
      let init : SG α := .dense ((List.range t).map (· + off)) v
      some ⟨t, e, v, init :: (g.map (SG.mapWires (fun q => width - 1 - q))).reverse⟩

end Qclib.Sparse
