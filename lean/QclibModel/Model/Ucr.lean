import QclibModel.Model.Gate
/-
  Model of `qclib/gates/ucr.py::ucr` (C13).  Target is wire 0, the control of recursion level
  `k` is wire `k`; angles are a function `Nat → Θ` (entry `j` ↔ controls reading `j`, wire `i+1`
  holding bit `i` of `j`).
-/
namespace Qclib

/-- What the generator needs from the angle type (passed explicitly so that theorems can supply
the operations of an abelian group without instance diamonds). -/
structure AOps (Θ : Type) where
  add : Θ → Θ → Θ
  sub : Θ → Θ → Θ
  half : Θ → Θ
  /-- the `abs(angle) > 1e-8` test of the leaf (negated) -/
  negl : Θ → Bool

inductive Axis | Y | Z deriving Repr, BEq, DecidableEq
inductive Ent | CX | CZ deriving Repr, BEq, DecidableEq

def rotG {Θ} (ax : Axis) (θ : Θ) (q : Nat) : G Θ :=
  match ax with | .Y => .ry θ q | .Z => .rz θ q

def entG {Θ} (e : Ent) (c t : Nat) : G Θ :=
  match e with | .CX => .cx c t | .CZ => .cz c t

/-- `ucr(r_gate, angles, c_gate, last_control)` for `len(angles) = 2^k`. -/
def ucr {Θ} (o : AOps Θ) (ax : Axis) (e : Ent) : (k : Nat) → (Nat → Θ) → Bool → Circ Θ
  | 0, a, _ => if o.negl (a 0) then [] else [rotG ax (a 0) 0]
  | k+1, a, last =>
    let α : Nat → Θ := fun j => o.half (o.add (a j) (a (j + 2^k)))
    let β : Nat → Θ := fun j => o.half (o.sub (a j) (a (j + 2^k)))
    ucr o ax e k α false ++ [entG e (k+1) 0] ++ (ucr o ax e k β false).reverse
      ++ (if last then [entG e (k+1) 0] else [])

end Qclib
