import QclibModel.Model.Gate
import QclibModel.Model.Ucr
/-
  C02 — shape-level model of `qclib/unitary.py`.  Core Lean only.

  * QR part: `_row_and_col_qubits`, `_apply_mcxs`, `_undo_mcxs`, `_append_mcmt_gate` and the
    per-rotation body of `_build_qr_circuit`, as functions on bit lists emitting `x`/`mcx`/`mcmt`
    gate lists (`QG`).
  * QSD/CSD part: `build_unitary`, `_unitary`, `_qsd`, `_csd` as a recursion that emits the list of
    library objects in circuit order (`UG`).  The numerical kernels are *parameters*: the recursion
    reads a tape with, in call order, the `theta` vector of every `scipy.linalg.cossin` call and the
    `np.angle(list_d)` vector of every `_compute_gates` call.  What the model decides is everything
    else: which blocks are recursed on, wires, `2·theta` into `ucr(RY, ·, CZ, last_control=False)` on
    `[n-1] + range(n-1)`, `-2·angle(d)` into `UCRZ` on `[n-1] + range(n-1)`, `_csd`'s target/control
    wiring, isometry mode.
-/
namespace Qclib.Uni

/-! ### QR: `_row_and_col_qubits`, `_apply_mcxs`, `_undo_mcxs`, `_append_mcmt_gate` -/

/-- gates of the QR circuit.  `mcmt cs t` is `MCMT(UnitaryGate(2×2), n-1, 1)` on `cs ++ [t]` (the
bare `UnitaryGate` when `cs = []`). -/
inductive QG where
  | x (q : Nat)
  | mcx (cs : List Nat) (t : Nat)
  | mcmt (cs : List Nat) (t : Nat)
  deriving Repr, DecidableEq

private def ws (l : List Nat) : String := " ".intercalate (l.map toString)

def QG.toLine : QG → String
  | .x q => s!"x {q} ;"
  | .mcx cs t => s!"mcx {ws (cs ++ [t])} ;"
  | .mcmt cs t => s!"mcmt {ws (cs ++ [t])} ;"

/-- `_row_and_col_qubits`: entry `m` is bit `m` of `x` (`x & 2**m != 0`), `m = 0 … n-1`. -/
def bitsLE (n x : Nat) : List Bool := (List.range n).map (fun m => x.testBit m)

/-- `n_diff` of `_row_and_col_qubits`. -/
def nDiff (row col : List Bool) : Nat :=
  ((List.range row.length).filter (fun m => row.getD m false != col.getD m false)).length

/-- the `for m in range(n_qubits)` search of `_apply_mcxs`: first position where they differ. -/
def firstDiff (n : Nat) (row col : List Bool) : Option Nat :=
  (List.range n).find? (fun m => row.getD m false != col.getD m false)

/-- `circuit.x(q)` for every `q ≠ m` with `pat[q] == 0`, ascending (both the loop before the MCX and
`_apply_cx` after it). -/
def xsFor (n m : Nat) (pat : List Bool) : List QG :=
  ((List.range n).filter (fun q => q != m && !pat.getD q false)).map QG.x

/-- all qubits but `m`, ascending: the controls of the `MCXGate(n-1)`. -/
def others (n m : Nat) : List Nat := (List.range n).filter (fun q => q != m)

/-- `memory`: `2` at the target, else the pattern bit. -/
def memOf (n m : Nat) (pat : List Bool) : List Nat :=
  (List.range n).map (fun q => if q = m then 2 else if pat.getD q false then 1 else 0)

structure WalkStep where
  gates : List QG
  mem : List Nat
  row : List Bool
  col : List Bool
  deriving Repr

/-- One call of `_apply_mcxs(n, row, col)`.  `none` = no differing position (Python:
`UnboundLocalError` on `memory`; unreachable while `n_diff > 1`). -/
def applyMcxs (n : Nat) (row col : List Bool) : Option WalkStep :=
  match firstDiff n row col with
  | none => none
  | some m =>
    if row.getD m false = false then
      -- row[m] == 0 and col[m] == 1: controls read the pattern of `row`
      let row' := row.set m true
      some ⟨xsFor n m row ++ [QG.mcx (others n m) m] ++ xsFor n m row', memOf n m row, row', col⟩
    else
      -- row[m] == 1 and col[m] == 0: controls read the pattern of `col`
      let col' := col.set m true
      some ⟨xsFor n m col ++ [QG.mcx (others n m) m] ++ xsFor n m col', memOf n m col, row, col'⟩

structure Walk where
  gates : List QG
  mems : List (List Nat)
  row : List Bool
  col : List Bool
  deriving Repr

/-- the `while n_diff > 1` loop of `_build_qr_circuit` (`d` = number of iterations = `n_diff - 1`). -/
def walk (n : Nat) : Nat → List Bool → List Bool → Option Walk
  | 0, row, col => some ⟨[], [], row, col⟩
  | d + 1, row, col =>
    match applyMcxs n row col with
    | none => none
    | some s =>
      match walk n d s.row s.col with
      | none => none
      | some w => some ⟨s.gates ++ w.gates, s.mem :: w.mems, w.row, w.col⟩

/-- one iteration of `_undo_mcxs` for a saved `memory`. -/
def undoOne (n : Nat) (mem : List Nat) : List QG :=
  let zeros := (List.range n).filter (fun q => mem.getD q 1 == 0)
  let ctrls := (List.range n).filter (fun q => mem.getD q 1 == 0 || mem.getD q 1 == 1)
  let tgt := (((List.range n).filter (fun q => mem.getD q 1 == 2)).getLast?).getD 0
  zeros.map QG.x ++ [QG.mcx ctrls tgt] ++ zeros.map QG.x

/-- `_undo_mcxs`: the saved steps, last first. -/
def undoMcxs (n : Nat) (mems : List (List Nat)) : List QG :=
  mems.reverse.flatMap (undoOne n)

/-- X sandwich of `_append_mcmt_gate` and of the loop after it: qubits where row and column agree
and read `0`. -/
def mcmtXs (n : Nat) (row col : List Bool) : List QG :=
  ((List.range n).filter (fun q => row.getD q false == col.getD q false && !row.getD q false)).map QG.x

/-- controls of the MCMT: qubits where row and column agree, ascending. -/
def mcmtCtrls (n : Nat) (row col : List Bool) : List Nat :=
  (List.range n).filter (fun q => row.getD q false == col.getD q false)

/-- `diffqubit`: the LAST position where they differ. -/
def diffQubit (n : Nat) (row col : List Bool) : Option Nat :=
  ((List.range n).filter (fun q => row.getD q false != col.getD q false)).getLast?

/-- The body of the `for matrix_rotation in gate_sequence` loop of `_build_qr_circuit` for the
two-level rotation between basis states `row` and `col`.  `none` where the Python raises
(`row = col`: `diffqubit` unbound). -/
def qrRotation (n row col : Nat) : Option (List QG) :=
  let r := bitsLE n row
  let c := bitsLE n col
  match walk n (nDiff r c - 1) r c with
  | none => none
  | some w =>
    match diffQubit n w.row w.col with
    | none => none
    | some t =>
      some (w.gates ++ mcmtXs n w.row w.col ++ [QG.mcmt (mcmtCtrls n w.row w.col) t]
        ++ mcmtXs n w.row w.col ++ undoMcxs n w.mems)

/-- `_build_qr_circuit` for a list of `(row, col)` pairs (one per element of `gate_sequence`). -/
def qrCircuit (n : Nat) (pairs : List (Nat × Nat)) : Option (List QG) :=
  pairs.foldl (fun acc p => match acc, qrRotation n p.1 p.2 with
    | some l, some g => some (l ++ g)
    | _, _ => none) (some [])

/-! ### QSD / CSD recursion shape -/

inductive Dec | qsd | csd | qr
  deriving Repr, DecidableEq

/-- angle operations the shape needs (explicit, like `AOps`). -/
structure UOps (Θ : Type) where
  a : AOps Θ
  neg : Θ → Θ
  zero : Θ

def UOps.dbl {Θ} (o : UOps Θ) (x : Θ) : Θ := o.a.add x x
def UOps.negDbl {Θ} (o : UOps Θ) (x : Θ) : Θ := o.neg (o.a.add x x)

/-- library objects of the synthesised circuit, in circuit order. -/
inductive UG (Θ : Type) where
  | g (g : G Θ)                                   -- `ry` / `cz` of the CZ multiplexer
  | unitary (ws : List Nat)                       -- `UnitaryGate` leaf (≤ 2 qubits)
  | ucrz (angles : List Θ) (ws : List Nat)        -- qiskit `UCRZGate(angles)` on `[target] + controls`
  | ucry (angles : List Θ) (ws : List Nat)        -- qiskit `UCRYGate(angles)`
  | ucg (nb : Nat) (ws : List Nat)                -- qiskit `UCGate` of `nb` 2×2 blocks
  deriving Repr

abbrev Tape (Θ : Type) := List (List Θ)

def pop {Θ} (t : Tape Θ) : List Θ × Tape Θ :=
  match t with
  | [] => ([], [])
  | x :: r => (x, r)

def popN {Θ} : Nat → Tape Θ → List (List Θ) × Tape Θ
  | 0, t => ([], t)
  | k + 1, t => let (x, r) := pop t; let (xs, r') := popN k r; (x :: xs, r')

/-- `[n-1] + list(range(n-1))`. -/
def topFirst (n : Nat) : List Nat := (n - 1) :: List.range (n - 1)

/-- Middle circuit of `build_unitary`: `ucr(RYGate, list(2*theta), CZGate, False)` appended on
`[n-1] + range(n-1)`; `theta` has `2^(n-1)` entries. -/
def middle {Θ} (o : UOps Θ) (n : Nat) (theta : List Θ) : List (UG Θ) :=
  (place (ucr o.a Axis.Y Ent.CZ (n - 1) (fun j => o.dbl (theta.getD j o.zero)) false) (topFirst n)).map UG.g

/-- `build_unitary(gate, "qsd", iso)` on `n` qubits (wires `0 … n-1`), with `_qsd` inlined:
`_compute_gates` (tape: `angle(list_d)`), `build_unitary(gate_w)` on `qubits[0:-1]`,
`UCRZ(-2·angle)` on `[n-1] + range(n-1)`, `build_unitary(gate_v)` on `qubits[0:-1]`. -/
def buildQsd {Θ} (o : UOps Θ) : Nat → Nat → Tape Θ → List (UG Θ) × Tape Θ
  | n + 3, iso, tape =>
    let qsdPair : Tape Θ → List (UG Θ) × Tape Θ := fun t =>
      let (d, t) := pop t
      let (w, t) := buildQsd o (n + 2) 0 t
      let (v, t) := buildQsd o (n + 2) 0 t
      (w ++ [UG.ucrz (d.map o.negDbl) (topFirst (n + 3))] ++ v, t)
    let (theta, t) := pop tape
    let (l, t) := if iso ≠ 0 then buildQsd o (n + 2) (iso - 1) t else qsdPair t
    let (r, t) := qsdPair t
    (l ++ middle o (n + 3) theta ++ r, t)
  | n, _, tape => ([UG.unitary (List.range n)], tape)

/-- `_unitary(gate_list, n, "csd")` for a list of `2^(n-s)` blocks of `s` qubits each.
`s = 1`: `UCGate(gate_list)` on all qubits.  Otherwise `_csd`: one `cossin` per block (tape), left
list, `UCRYGate(2·theta …)` on `[target] + control` with `target = n - log2(len(left)) = s - 1`,
right list. -/
def csdList {Θ} (o : UOps Θ) (n : Nat) : Nat → Tape Θ → List (UG Θ) × Tape Θ
  | 0, tape => ([], tape)
  | 1, tape => ([UG.ucg (2 ^ (n - 1)) (List.range n)], tape)
  | s + 2, tape =>
    let (thetas, t) := popN (2 ^ (n - (s + 2))) tape
    let (l, t) := csdList o n (s + 1) t
    let target := s + 1
    let control := List.range target ++ (List.range (n - target - 1)).map (fun q => q + target + 1)
    let (r, t) := csdList o n (s + 1) t
    (l ++ [UG.ucry ((thetas.flatMap id).map o.dbl) (target :: control)] ++ r, t)

/-- `build_unitary(gate, "csd", iso)` on `n` qubits. -/
def buildCsd {Θ} (o : UOps Θ) : Nat → Nat → Tape Θ → List (UG Θ) × Tape Θ
  | n + 3, iso, tape =>
    let (theta, t) := pop tape
    let (l, t) := if iso ≠ 0 then buildCsd o (n + 2) (iso - 1) t else csdList o (n + 3) (n + 2) t
    let (r, t) := csdList o (n + 3) (n + 2) t
    (l ++ middle o (n + 3) theta ++ r, t)
  | n, _, tape => ([UG.unitary (List.range n)], tape)

/-- `build_unitary(gate, dec, iso)` for `dec ∈ {qsd, csd}`; also returns the unread tape (empty
iff the code made exactly the kernel calls the model expects). -/
def buildUnitary {Θ} (o : UOps Θ) (dec : Dec) (n iso : Nat) (tape : Tape Θ) : List (UG Θ) × Tape Θ :=
  match dec with
  | .csd => buildCsd o n iso tape
  | _ => buildQsd o n iso tape

/-- `unitary(gate, dec, iso, apply_a2)`: is qiskit's `_apply_a2` attempted? -/
def a2Attempted (dec : Dec) (a2 : Bool) : Bool := dec == Dec.qsd && a2

/-! ### optimisation A.1: the sign flip of the right half of the columns -/

/-- `m[:, h:] = -m[:, h:]` for a matrix given as a list of rows. -/
def negRightHalf {α} (neg : α → α) (h : Nat) (rows : List (List α)) : List (List α) :=
  rows.map (fun r => r.mapIdx (fun j x => if j < h then x else neg x))

end Qclib.Uni
