/-
  Model of `qclib/state_preparation/blackbox.py::BlackBoxInitialize._define_initialize` (C19).
  Core Lean only, executable.

  Wires: the circuit has `n + 1` qubits; wire 0 is the flag (target of the multiplexed rotations,
  wire of `I_t`), wires `1..n` hold the index `k` (wire `i+1` = bit `i` of `k`).

      theta = 2 * np.arccos(np.clip(np.abs(params), 0.0, 1.0));  phi = -2 * np.angle(params)
      U     = h(q[1:]) ; UCRYGate(theta) on q ; UCRZGate(phi) on q
      I_t   = UnitaryGate([[-1,0],[0,1]]) on q[0]
      I_s   = I_t.control(n, ctrl_state=0) on q        (controls q[0..n-1], target q[n])
      r     = int((np.pi/4) * (np.sqrt(N) / np.linalg.norm(params)))
      r × (U ; I_t ; U.inverse() ; I_s) ; U ;  global_phase = π  iff  r odd
-/
namespace Qclib

/-- The numeric operations the code applies to the amplitudes (instances: `Float` in the driver
— the tie —, `ℝ` in the proofs). -/
structure TrigOps (F : Type) where
  ofNat : Nat → F
  add : F → F → F
  mul : F → F → F
  div : F → F → F
  neg : F → F
  sqrt : F → F
  acos : F → F
  /-- `np.clip(x, 0.0, 1.0)` -/
  clip01 : F → F
  /-- `atan2 y x` = `np.angle(x + iy)` -/
  atan2 : F → F → F
  pi : F
  /-- Python's `int(x)` on a non-negative number -/
  toNat : F → Nat

/-- The gate alphabet of the black-box circuit (qiskit library gates kept opaque: K4). -/
inductive BG (Θ : Type) where
  | h (q : Nat)
  /-- `UCRYGate(a)` on target wire 0, controls `1..k` -/
  | ucry (k : Nat) (a : Nat → Θ)
  /-- `UCRZGate(a)` on target wire 0, controls `1..k` -/
  | ucrz (k : Nat) (a : Nat → Θ)
  /-- `UCRYGate(a).inverse()` (qiskit keeps the parameters `a`) -/
  | ucryDg (k : Nat) (a : Nat → Θ)
  | ucrzDg (k : Nat) (a : Nat → Θ)
  /-- `UnitaryGate([[-1,0],[0,1]])` on wire `q` -/
  | it (q : Nat)
  /-- `I_t.control(n, ctrl_state=0)`: controls wires `0..n-1` all required to be 0, target `n` -/
  | is (n : Nat)
  /-- `global_phase = π` -/
  | gphasePi

namespace BlackBox
variable {F Θ : Type}

/-! ### Numeric part (`theta`, `phi`, `repetitions`) -/

/-- `np.abs(re + i·im)` -/
def absC (o : TrigOps F) (re im : F) : F := o.sqrt (o.add (o.mul re re) (o.mul im im))

/-- `theta[k] = 2 * arccos(clip(|a_k|, 0, 1))` -/
def theta (o : TrigOps F) (re im : Nat → F) (k : Nat) : F :=
  o.mul (o.ofNat 2) (o.acos (o.clip01 (absC o (re k) (im k))))

/-- `phi[k] = -2 * angle(a_k)` -/
def phi (o : TrigOps F) (re im : Nat → F) (k : Nat) : F :=
  o.mul (o.neg (o.ofNat 2)) (o.atan2 (im k) (re k))

/-- `np.linalg.norm(params)` for a vector of length `N` -/
def normV (o : TrigOps F) (N : Nat) (re im : Nat → F) : F :=
  o.sqrt ((List.range N).foldl
    (fun s k => o.add s (o.add (o.mul (re k) (re k)) (o.mul (im k) (im k)))) (o.ofNat 0))

/-- `int((np.pi / 4) * (np.sqrt(N) / nrm))` -/
def repsOfNorm (o : TrigOps F) (N : Nat) (nrm : F) : Nat :=
  o.toNat (o.mul (o.div o.pi (o.ofNat 4)) (o.div (o.sqrt (o.ofNat N)) nrm))

/-- `int((np.pi / 4) * (np.sqrt(N) / np.linalg.norm(params)))` -/
def reps (o : TrigOps F) (N : Nat) (re im : Nat → F) : Nat :=
  repsOfNorm o N (normV o N re im)

/-! ### Gate list -/

/-- `gate_u.h(gate_u.qubits[1:])`: `h 1, h 2, …, h n`. -/
def hLayer : Nat → List (BG Θ)
  | 0 => []
  | n+1 => hLayer n ++ [.h (n+1)]

/-- `h n, …, h 1` (the reversed layer inside `U.inverse()`). -/
def hLayerRev : Nat → List (BG Θ)
  | 0 => []
  | n+1 => .h (n+1) :: hLayerRev n

def gateU (n : Nat) (θ φ : Nat → Θ) : List (BG Θ) :=
  hLayer n ++ [.ucry n θ, .ucrz n φ]

def gateUdg (n : Nat) (θ φ : Nat → Θ) : List (BG Θ) :=
  [.ucrzDg n φ, .ucryDg n θ] ++ hLayerRev n

/-- One pass of the `for _ in range(repetitions)` loop. -/
def round (n : Nat) (θ φ : Nat → Θ) : List (BG Θ) :=
  gateU n θ φ ++ [.it 0] ++ gateUdg n θ φ ++ [.is n]

def rounds (n : Nat) (θ φ : Nat → Θ) : Nat → List (BG Θ)
  | 0 => []
  | r+1 => round n θ φ ++ rounds n θ φ r

/-- The circuit without its `global_phase` attribute. -/
def core (n r : Nat) (θ φ : Nat → Θ) : List (BG Θ) :=
  rounds n θ φ r ++ gateU n θ φ

/-- The whole definition; the global phase (a circuit attribute, position immaterial) is listed
last. -/
def circuit (n r : Nat) (θ φ : Nat → Θ) : List (BG Θ) :=
  core n r θ φ ++ (if r % 2 = 1 then [.gphasePi] else [])

/-- `_define_initialize` for a vector of `2^n` amplitudes given by real and imaginary parts. -/
def define (o : TrigOps F) (n : Nat) (re im : Nat → F) : List (BG F) :=
  circuit n (reps o (2^n) re im) (theta o re im) (phi o re im)

end BlackBox
end Qclib
