import QclibModel.Gen.PyPrelude
/-
  GENERATED on every run by tools/py2lean.py from:
    qclib/entanglement.py :: _effective_rank, low_rank_approximation (the statements that compute rank)
  Do not edit: the property theorems are statements about these definitions.
-/
set_option linter.unusedVariables false
open Qclib.Py

namespace Qclib.Gen.SchmidtRank

/-- `_effective_rank` of qclib/entanglement.py -/
def effective_rank (singular_values : List Rat) : Int :=
  (pySum (singular_values.map (fun (j : Rat) => pyB2I (decide (j > (mkRat 944473296573929 9444732965739290427392 : Rat))))))

/-- block of `low_rank_approximation`, qclib/entanglement.py (sliced) -/
def low_rank_rank (low_rank : Int) (singular_values : List Rat) : Int :=
  let effective_rank : Int := (effective_rank singular_values)
  let effective_rank : Int :=
    if ((0 < low_rank) ∧ (low_rank < effective_rank)) then
      let effective_rank : Int := low_rank
      effective_rank
    else
      effective_rank
  let rank : Int := (pyPow 2 (pyLog2Ceil effective_rank))
  rank

end Qclib.Gen.SchmidtRank
