/- GENERATED on every run by tools/props/c20.py from qclib/entanglement.py (`_get_iota`).
   Python `int` is modelled by `Nat`: valid while no subtraction underflows and no shift count is
   negative, i.e. for `qubit_idx <= qubits`.  Do not edit. -/
namespace Qclib.Gen
def get_iota (qubit_idx qubits selector_bit basis_state : Nat) : Option (Bool × Nat) :=
  if selector_bit = 0 ∨ selector_bit = 1 then
  let full_mask := ((2 ^ qubits) - 1)
  let mask_j := (1 <<< qubit_idx)
  let value := ((mask_j &&& basis_state) >>> qubit_idx)
  let low_mask := (full_mask >>> (qubits - qubit_idx))
  let high_mask := (full_mask &&& (full_mask <<< (qubit_idx + 1)))
  let new_basis_state := (((basis_state &&& high_mask) >>> 1) + (basis_state &&& low_mask))
  some ((value == selector_bit), new_basis_state)
  else none
end Qclib.Gen
