import QclibModel.Gen.PyPrelude
/-
  GENERATED on every run by tools/py2lean.py from:
    qclib/state_preparation/cvoqram.py :: width argument of super().__init__ in __init__
    qclib/state_preparation/fnpoints.py :: width argument of super().__init__ in __init__
    qclib/state_preparation/pivot.py :: width argument of super().__init__ in __init__
    qclib/gates/mcx.py :: width argument of super().__init__ in __init__
    qclib/gates/multitargetmcsu2.py :: width argument of super().__init__ in __init__
  Do not edit: the property theorems are statements about these definitions.
-/
set_option linter.unusedVariables false
open Qclib.Py

namespace Qclib.Gen.Widths

/-- block of `CvoqramInitialize.__init__`, qclib/state_preparation/cvoqram.py (sliced) -/
def cvoqram_width (self_num_qubits : Int) (opt_none : Bool) (opt_with_aux : Option Bool) : Int :=
  let self_num_data_qubits : Int := self_num_qubits
  let default_with_aux : Bool := true
  let self_with_aux : Bool :=
    if (opt_none = true) then
      let self_with_aux : Bool := default_with_aux
      self_with_aux
    else
      let self_with_aux : Bool :=
        if (opt_with_aux = none) then
          let self_with_aux : Bool := default_with_aux
          self_with_aux
        else
          let self_with_aux : Bool := (Option.getD opt_with_aux false)
          self_with_aux
      self_with_aux
  let width : Int := (self_num_data_qubits + 1)
  let width : Int :=
    if (self_with_aux = true) then
      let width : Int := (width + (self_num_data_qubits - 1))
      width
    else
      width
  width

end Qclib.Gen.Widths

namespace Qclib.Gen.Widths

/-- block of `FnPointsInitialize.__init__`, qclib/state_preparation/fnpoints.py (sliced) -/
def fnpoints_width (self_num_qubits : Int) : Int :=
  let self_num_data_qubits : Int := self_num_qubits
  let width : Int := ((2 * self_num_data_qubits) + 1)
  width

end Qclib.Gen.Widths

namespace Qclib.Gen.Widths

/-- block of `PivotInitialize.__init__`, qclib/state_preparation/pivot.py (sliced) -/
def pivot_width (self_num_qubits : Int) (len_params : Int) (opt_none : Bool) (opt_aux : Option Bool) : Int :=
  let self_num_data_qubits : Int := self_num_qubits
  let default_aux : Bool := false
  let self_aux : Bool :=
    if (opt_none = true) then
      let self_aux : Bool := default_aux
      self_aux
    else
      let self_aux : Bool :=
        if (opt_aux = none) then
          let self_aux : Bool := default_aux
          self_aux
        else
          let self_aux : Bool := (Option.getD opt_aux false)
          self_aux
      self_aux
  let self_non_zero : Int := len_params
  let width : Int := self_num_data_qubits
  let width : Int :=
    if (self_aux = true) then
      let width : Int := (width + (max ((pyLog2Ceil self_non_zero) - 1) 0))
      width
    else
      width
  width

end Qclib.Gen.Widths

namespace Qclib.Gen.Widths

/-- block of `McxVchainDirty.__init__`, qclib/gates/mcx.py (sliced) -/
def mcx_vchain_dirty_width (num_controls : Int) (num_target_qubit : Int) : Int :=
  let num_ancilla : Int := 0
  let num_ancilla : Int :=
    if ((num_controls - 2) > 0) then
      let num_ancilla : Int := (num_controls - 2)
      num_ancilla
    else
      num_ancilla
  ((num_controls + num_ancilla) + num_target_qubit)

end Qclib.Gen.Widths

namespace Qclib.Gen.Widths

/-- block of `LinearMcx.__init__`, qclib/gates/mcx.py (sliced) -/
def linear_mcx_width (num_controls : Int) : Int :=
  (num_controls + 2)

end Qclib.Gen.Widths

namespace Qclib.Gen.Widths

/-- block of `MultiTargetMCSU2.__init__`, qclib/gates/multitargetmcsu2.py (sliced) -/
def multi_target_mcsu2_width (num_controls : Int) (num_target : Int) : Int :=
  (num_controls + num_target)

end Qclib.Gen.Widths
