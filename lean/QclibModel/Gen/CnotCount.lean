import QclibModel.Gen.PyPrelude
/-
  GENERATED on every run by tools/py2lean.py from:
    qclib/unitary.py
    qclib/isometry.py
    qclib/state_preparation/lowrank.py
    qclib/entanglement.py
  Do not edit: the property theorems are statements about these definitions.
-/
set_option linter.unusedVariables false
open Qclib.Py

namespace Qclib.Gen.CnotCount.unitary

mutual
/-- `_cnot_count_iso` of qclib/unitary.py -/
def cnot_count_iso (n_qubits : Int) (iso : Int) (apply_a2 : Bool) : Int :=
  if _h1 : (n_qubits > 2) then
    let gate_left : Int :=
      if (iso ≠ 0) then
        let iso_cnot : Int := (if ((n_qubits - 1) = 2) then 1 else 0)
        let gate_left : Int := ((cnot_count_iso (n_qubits - 1) (iso - 1) apply_a2) + iso_cnot)
        gate_left
      else
        let gate_left : Int := (cnot_count_iso_qsd n_qubits apply_a2)
        gate_left
    let ucry : Int := ((pyPow 2 (n_qubits - 1)) - 1)
    let gate_right : Int := (cnot_count_iso_qsd n_qubits apply_a2)
    ((gate_left + ucry) + gate_right)
  else
    if _h2 : (apply_a2 = true) then
      2
    else
      3
termination_by 2 * (n_qubits - 2).toNat
decreasing_by all_goals (simp_wf; omega)

/-- `_cnot_count_iso_qsd` of qclib/unitary.py -/
def cnot_count_iso_qsd (n_qubits : Int) (apply_a2 : Bool) : Int :=
  let left_gate : Int := (cnot_count_iso (n_qubits - 1) 0 apply_a2)
  let middle_gate : Int := (pyPow 2 (n_qubits - 1))
  let right_gate : Int := (cnot_count_iso (n_qubits - 1) 0 apply_a2)
  ((left_gate + middle_gate) + right_gate)
termination_by 2 * (n_qubits - 3).toNat + 1
decreasing_by all_goals (simp_wf; omega)

end

/-- `_cnot_count_estimate` of qclib/unitary.py -/
def cnot_count_estimate (gate_rows : Int) (decomposition : String) (iso : Int) (apply_a2 : Bool) : Int :=
  let n_qubits : Int := (pyLog2Floor gate_rows)
  if _h1 : (n_qubits = 1) then
    0
  else
    if _h2 : (n_qubits = 2) then
      3
    else
      if _h3 : (decomposition = "csd") then
        (((pyPow 4 n_qubits) - (2 * (pyPow 2 n_qubits))) - 1)
      else
        if _h4 : (iso ≠ 0) then
          let last_2q_gate_cnot : Int := (if (apply_a2 = true) then 1 else 0)
          ((cnot_count_iso n_qubits iso apply_a2) + last_2q_gate_cnot)
        else
          if _h5 : (apply_a2 = true) then
            (pyCeilDiv (((23 * (pyPow 2 (2 * n_qubits))) - (24 * (3 * (pyPow 2 n_qubits)))) + 64) 48)
          else
            (((pyPow 4 (n_qubits - 2)) - 1) + (pyCeilDiv (((23 * (pyPow 2 (2 * n_qubits))) - (24 * (3 * (pyPow 2 n_qubits)))) + 64) 48))

end Qclib.Gen.CnotCount.unitary

namespace Qclib.Gen.CnotCount.isometry

/-- `_a` of qclib/isometry.py -/
def a (col_index : Int) (bit_index : Int) : Int :=
  (Int.fdiv col_index (pyPow 2 bit_index))

/-- `_b` of qclib/isometry.py -/
def b (col_index : Int) (bit_index : Int) : Int :=
  (col_index - ((a col_index bit_index) * (pyPow 2 bit_index)))

/-- `_k_s` of qclib/isometry.py -/
def k_s (col_index : Int) (bit_index : Int) : Int :=
  (Int.fdiv (pyAnd col_index (pyPow 2 bit_index)) (pyPow 2 bit_index))

/-- `_cnot_count_estimate_ccd` of qclib/isometry.py -/
def cnot_count_estimate_ccd (log_lines : Int) (log_cols : Int) : Int :=
  let cnots : Int := 0
  let cnots : Int := List.foldl (fun (cnots : Int) (k : Int) =>
      let k_bin : List Bool := (pyBin k log_lines)
      let cnots : Int := List.foldl (fun (cnots : Int) (i : Int) =>
          let target : Int := ((log_lines - i) - 1)
          let control : List Int := (pyRange 0 target)
          let ancilla : List Int := (pyRange (target + 1) log_lines)
          let cnots : Int :=
            if (((k_s k i) = 0) ∧ ((b k (i + 1)) ≠ 0)) then
              let n_qubits : Int := ((pySum ((control ++ ancilla).map (fun (q : Int) => pyB2I (pyBit k_bin q)))) + 1)
              let cnots : Int := (cnots + ((pyPow 2 (n_qubits - 1)) - 1))
              cnots
            else
              cnots
          let n_qubits : Int := ((pyLen control) + 1)
          let cnots : Int := (cnots + ((pyPow 2 (n_qubits - 1)) - 1))
          cnots
        ) cnots (pyRange 0 log_lines)
      cnots
    ) cnots (pyRange 0 (pyPow 2 log_cols))
  let cnots : Int :=
    if (log_cols > 0) then
      let cnots : Int := (cnots + ((pyPow 2 log_cols) - 2))
      cnots
    else
      cnots
  cnots

end Qclib.Gen.CnotCount.isometry

namespace Qclib.Gen.CnotCount.lowrank

/-- `_default_partition` of qclib/state_preparation/lowrank.py -/
def default_partition (n_qubits : Int) : List Int :=
  let odd : Int := (n_qubits % 2)
  (pyRange 0 ((n_qubits / 2) + odd))

end Qclib.Gen.CnotCount.lowrank

namespace Qclib.Gen.CnotCount.entanglement

/-- `_to_qubits` of qclib/entanglement.py -/
def to_qubits (n_state_vector : Int) : Int :=
  (if (n_state_vector > 0) then (pyLog2Ceil n_state_vector) else 0)

end Qclib.Gen.CnotCount.entanglement
