import QclibModel.Gen.PyPrelude
/-
  GENERATED on every run by tools/py2lean.py from:
    qclib/gates/majority.py :: operate (the statements before the emission loop: n_min, n_controls)
  Do not edit: the property theorems are statements about these definitions.
-/
set_option linter.unusedVariables false
open Qclib.Py

namespace Qclib.Gen.Majority

/-- block of `operate`, qclib/gates/majority.py (sliced) -/
def operate_sizes (len_controls : Int) : Int × List Int :=
  let size_controls : Int := len_controls
  let n_min : Int := (pyCeilDiv size_controls 2)
  let n_controls : List Int := ((pyRange n_min (size_controls + 1)).filter (fun (k : Int) => decide (((pyComb (k - 1) (n_min - 1)) % 2) = 1)))
  (n_min, n_controls)

end Qclib.Gen.Majority
