import QclibModel.Gen.PyPrelude
/-
  GENERATED on every run by tools/py2lean.py from:
    qclib/gates/initialize_mixed.py
    qclib/state_preparation/mixed.py
  Do not edit: the property theorems are statements about these definitions.
-/
set_option linter.unusedVariables false
open Qclib.Py

namespace Qclib.Gen.MixedWidth

/-- block of `InitializeMixed._get_num_qubits`, qclib/gates/initialize_mixed.py (sliced) -/
def mixed_num_qubits (len_params_0 : Int) (len_params : Int) : Int :=
  let self_num_qubits : Int := ((pyLog2Ceil len_params_0) + (pyLog2Ceil len_params))
  self_num_qubits

end Qclib.Gen.MixedWidth

namespace Qclib.Gen.MixedWidth

/-- block of `MixedInitialize.__init__`, qclib/state_preparation/mixed.py (sliced) -/
def mixed_num_ctrl (len_params : Int) : Int :=
  let self__num_ctrl_qubits : Int := (pyLog2Ceil len_params)
  self__num_ctrl_qubits

end Qclib.Gen.MixedWidth
