import QclibModel.Gen.PyPrelude
/-
  GENERATED on every run by tools/py2lean.py from:
    qclib/state_preparation/fnpoints.py :: FnPointsInitialize.__init__ (default_n_output_values .. self.n_output_values)
  Do not edit: the property theorems are statements about these definitions.
-/
set_option linter.unusedVariables false
open Qclib.Py

namespace Qclib.Gen.FnNPrime

/-- block of `FnPointsInitialize.__init__`, qclib/state_preparation/fnpoints.py (sliced) -/
def fn_n_prime (max_value : Int) (opt_none : Bool) (opt_n : Option Int) : Int :=
  let default_n_output_values : Int := (max_value - 1)
  let self_n_output_values : Int :=
    if (opt_none = true) then
      let self_n_output_values : Int := default_n_output_values
      self_n_output_values
    else
      let self_n_output_values : Int :=
        if (opt_n = none) then
          let self_n_output_values : Int := default_n_output_values
          self_n_output_values
        else
          let self_n_output_values : Int := (Option.getD opt_n 0)
          let self_n_output_values : Int := (max self_n_output_values default_n_output_values)
          self_n_output_values
      self_n_output_values
  self_n_output_values

end Qclib.Gen.FnNPrime
