import QclibModel.Gen.PyPrelude
/-
  GENERATED on every run by tools/py2lean.py from:
    qclib/state_preparation/bdsp.py
    qclib/state_preparation/dcsp.py
  Do not edit: the property theorems are statements about these definitions.
-/
set_option linter.unusedVariables false
open Qclib.Py

namespace Qclib.Gen.TreeWidth

/-- block of `BdspInitialize.__init__`, qclib/state_preparation/bdsp.py (sliced) -/
def bdsp_split (len_params : Int) (opt_none : Bool) (opt_split : Option Int) : Int :=
  let self_split : Int :=
    if (opt_none = true) then
      let self_split : Int := (pyCeilDiv (pyLog2Ceil len_params) 2)
      self_split
    else
      let self_split : Int :=
        if (opt_split = none) then
          let self_split : Int := (pyCeilDiv (pyLog2Ceil len_params) 2)
          self_split
        else
          let self_split : Int := (Option.getD opt_split 0)
          self_split
      self_split
  self_split

end Qclib.Gen.TreeWidth

namespace Qclib.Gen.TreeWidth

/-- block of `BdspInitialize._get_num_qubits`, qclib/state_preparation/bdsp.py (sliced) -/
def bdsp_num_qubits (self_split : Int) (len_params : Int) : Int :=
  let n_qubits : Int := len_params
  let n_qubits : Int := (pyLog2Floor n_qubits)
  let self_num_qubits : Int := (((self_split + 1) * (pyPow 2 (n_qubits - self_split))) - 1)
  self_num_qubits

end Qclib.Gen.TreeWidth

namespace Qclib.Gen.TreeWidth

/-- block of `DcspInitialize._get_num_qubits`, qclib/state_preparation/dcsp.py (sliced) -/
def dcsp_num_qubits (len_params : Int) : Int :=
  let self_num_qubits : Int := (len_params - 1)
  self_num_qubits

end Qclib.Gen.TreeWidth
