import QclibModel.Model.SparseCore
import QclibModel.Sem.Denote
/-
  C06 — amplitude-function semantics of the gate alphabet `SG` of the three sparse generators
  (Model/SparseCore.lean), used by the whole-circuit theorems `C06_*_total`.

  * `x`, `cx` (with `ctrl_state`), `u`, `cu` (γ = 0) are the library gates.
  * The opaque multi-controlled gates (`mcu`, `mcuX`, `mcxd`) denote the **ideal** multi-controlled
    gate `applyMcu`: "apply the 2×2 iff all controls are 1" (their decompositions are properties
    C04/C05; borrowed wires of `mcxd` are left untouched).
  * `rccx a b t` is qiskit's `RCCXGate` matrix (checked numerically against
    `Operator(RCCXGate())`, and derived from its `h/t/cx/tdg` definition in
    Proofs/SparseCvoTotalRccx.lean): `Y` on `t` when `a = b = 1`, `Z` on `t` when `a = 1, b = 0`,
    identity when `a = 0`.  `iu` is the imaginary unit of `R`.
  * `dense ws v` (the `LowRankInitialize` hand-off, property C01) is a parameter `dn`.
  Core Lean only.
-/
namespace Qclib.Sparse
open Qclib RotSem

section
variable {Θ R : Type} [Add R] [Mul R] [Neg R] [Zero R] [One R] [RotSem Θ R]

/-- qiskit `RCCXGate` on controls `a`, `b` and target `t`:
`|a b⟩⟨a b| ⊗ M_{ab}` with `M₁₁ = Y = [[0,-i],[i,0]]`, `M₁₀ = Z`, `M₀ₓ = I`. -/
def applyRccx (iu : R) (a b t : Nat) (ψ : State R) : State R := fun w =>
  if w a then
    if w b then (if w t then iu * ψ (setBit w t false) else -iu * ψ (setBit w t true))
    else (if w t then -ψ w else ψ w)
  else ψ w

/-- Denotation of one generator gate.  `iu`: imaginary unit; `dn`: the dense initializer. -/
def denoteSG (iu : R) (dn : List Nat → List (Amp Θ) → State R → State R) :
    SG Θ → State R → State R
  | .x q => applyMcu [] Mat2.X q
  | .cx c t cv => applyMcu [(c, cv)] Mat2.X t
  | .rccx a b t => applyRccx iu a b t
  | .u θ φ l q => applyMcu [] (matU θ φ l) q
  | .cu θ φ l c t => applyMcu [(c, true)] (matU θ φ l) t
  | .mcu _ cs θ φ l t => applyMcu (cs.map (fun c => (c, true))) (matU θ φ l) t
  | .mcuX _ cs t => applyMcu (cs.map (fun c => (c, true))) Mat2.X t
  | .mcxd cs t _ => applyMcu (cs.map (fun c => (c, true))) Mat2.X t
  | .dense ws v => dn ws v

/-- Gates are applied in list order (head first), like `QuantumCircuit.data`. -/
def semSG (iu : R) (dn : List Nat → List (Amp Θ) → State R → State R) (c : List (SG Θ))
    (ψ : State R) : State R :=
  c.foldl (fun s g => denoteSG iu dn g s) ψ

end
end Qclib.Sparse
