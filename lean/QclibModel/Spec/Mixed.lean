import QclibModel.Sem.Basic
import QclibModel.Model.Mixed
/-
  Ideal objects of C14 in the amplitude-function semantics (`State R = Bits → R`, wire `j` of a
  label is qiskit's qubit `j`, little-endian).  Core Lean only.
-/
namespace Qclib.Mixed

/-- The natural number a register of `len` wires starting at wire `lo` reads (little-endian:
wire `lo + j` holds bit `j`).  `readReg 0 (a+n)` is qiskit's `Statevector` index. -/
def readReg (lo : Nat) : Nat → Bits → Nat
  | 0, _ => 0
  | len + 1, b => readReg lo len b + (if b (lo + len) then 2 ^ len else 0)

/-- Put the register `lo .. lo+len-1` to `0…0`, leave every other wire as it is. -/
def clearReg (lo len : Nat) (b : Bits) : Bits :=
  fun j => if lo ≤ j ∧ j < lo + len then false else b j

/-- Specification of one *controlled sub-initializer* of the in-circuit variant
(`initializer(state).definition.control(a, ctrl_state)` composed onto controls-first wires):
on every state whose data register (wires `a..a+n-1`) is `|0…0⟩` in the branch selected by the
control literals, it writes `target` into the data register of exactly that branch — amplitude
`φ(b with data cleared) · target[data index of b]` — and leaves every other branch unchanged.
This is "C01 for the sub-initializer" (`U|0⟩ = |target⟩`) together with qiskit's semantics of
`.control(ctrl_state)`; it is a hypothesis of `C14_incircuit`, validated numerically by the oracle. -/
def IsCtrlPrep {R : Type} [Zero R] [Mul R] (a n : Nat) (lits : List (Nat × Bool)) (target : Nat → R)
    (V : State R → State R) : Prop :=
  ∀ φ : State R, (∀ b, ctrlOk lits b = true → readReg a n b ≠ 0 → φ b = 0) →
    ∀ b, V φ b = if ctrlOk lits b then φ (clearReg a n b) * target (readReg a n b) else φ b

/-- Run the plan of the in-circuit variant: step `st` applies the transformer `V st.index`. -/
def runSteps {R : Type} (V : Nat → State R → State R) (steps : List CtrlStep) (φ : State R) : State R :=
  steps.foldl (fun φ st => V st.index φ) φ

end Qclib.Mixed
