import QclibModel.Sem.Basic
import QclibModel.Model.Unitary
/-
  C02 — reversible (basis-label) semantics of the classical part of the QR circuit of
  `qclib/unitary.py`: `x` and `mcx` gates permute computational-basis labels.  Core Lean only.

  The `mcmt` gate (the controlled 2×2 block) is not a permutation of labels; it never occurs in the
  gate lists the QR theorems evaluate (`Walk.gates`, `undoMcxs`, `mcmtXs`, `xsFor`, `undoOne`), so
  `qgStep` leaves the label alone there.
-/
namespace Qclib.Uni

/-- action of one classical QR gate on a basis label: `x q` flips wire `q`; `mcx cs t` flips wire
`t` iff every control wire in `cs` reads `1`. -/
def qgStep : QG → Bits → Bits
  | .x q, b => flipBit b q
  | .mcx cs t, b => if cs.all (fun c => b c) then flipBit b t else b
  | .mcmt _ _, b => b

/-- a gate list acts left to right (circuit order). -/
def qgEval (l : List QG) (b : Bits) : Bits := l.foldl (fun s g => qgStep g s) b

/-- the label `b` reads the bit list `l` on wires `0 … l.length-1`. -/
def Reads (l : List Bool) (b : Bits) : Prop := ∀ q, q < l.length → b q = l.getD q false

/-- "every wire `q < n` other than `m` reads bit `q` of `pat`": the control pattern an X–MCX–X
sandwich with target `m` is meant to select (Boolean form). -/
def patMatch (n m : Nat) (pat : List Bool) (b : Bits) : Bool :=
  (others n m).all (fun q => b q == pat.getD q false)

/-- the label map an X–MCX–X sandwich is meant to implement: flip wire `m` iff all the other wires
`< n` read `pat`. -/
def patFlip (n m : Nat) (pat : List Bool) (b : Bits) : Bits :=
  if patMatch n m pat b then flipBit b m else b

end Qclib.Uni
