import QclibModel.Model.Baa
import Mathlib.Algebra.Order.Ring.Defs
/-
  C08 — the ideal objects the property speaks of: exact loss arithmetic in an ordered ring, the
  accounted loss of a chain of approximations, the three-key order of `_search_best`, the CNOT
  estimate of a plan.
-/
namespace Qclib.Baa

/-- Exact arithmetic: the instance of `LossOps` the theorems are about. -/
def orderedOps (K : Type) [CommRing K] [LinearOrder K] : LossOps K :=
  ⟨0, 1, (· - ·), (· * ·), fun a b => decide (a ≤ b), fun a b => decide (a < b)⟩

/-- `1 − ∏ (1 − l_i)`: the fidelity loss accounted for a chain of approximations with individual
losses `l_i`. -/
def chainLoss {K : Type} [CommRing K] (ls : List K) : K := 1 - (ls.map (fun l => 1 - l)).prod

/-- `x` is no better than `b` for `_search_best`: fewer CNOTs saved, or as many and a larger
largest block, or equal on both and no smaller loss. -/
def NoBetter {K : Type} [LT K] [LE K] (x b : Node K) : Prop :=
  x.totalSaved < b.totalSaved ∨
  (x.totalSaved = b.totalSaved ∧
    (maxSubsystem b < maxSubsystem x ∨ (maxSubsystem x = maxSubsystem b ∧ b.totalLoss ≤ x.totalLoss)))

/-- The CNOT estimate the search attributes to one factor of a plan: `cnot_count(vector,
partition=…, low_rank=rank)`; a one-qubit factor is costed with `low_rank = 0` (the real
`cnot_count` returns 0 for every one-qubit vector whatever the rank). -/
def entryCost {α : Type} (O : Oracle α) (e : Entry) : Int :=
  (O.cnots e.vec e.partition (if e.qubits.length = 1 then 0 else e.rank) : Int)

def planCost {α : Type} (O : Oracle α) (entries : List Entry) : Int :=
  (entries.map (entryCost O)).sum

end Qclib.Baa
