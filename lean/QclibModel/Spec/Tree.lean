import QclibModel.Sem.Denote
import QclibModel.Model.Tree
/-
  Specification-side definitions for C11 (core Lean only): complete trees, the wires of an
  allocated tree, the spines the controlled-swap network walks, the label permutation it denotes,
  the closed-form amplitude of the bottom-up circuit and the root-to-leaf path product.
-/
namespace Qclib

/-- `complete n t`: `t` is the complete binary tree with `n` levels (`n = 0` ↔ `nil`). -/
def complete {α : Type} : Nat → BT α → Prop
  | 0, .nil => True
  | n+1, .node _ l r => complete n l ∧ complete n r
  | _, _ => False

section
variable {F : Type}

/-- Wires of all nodes, pre-order (`wire` of a node without qubit is the default 0 — the theorems
using `treeWires` assume or prove that every node has one). -/
def treeWires (t : BT (QV F)) : List Nat := t.preorder.map fun v => wire v.q

/-- Wires actually assigned by `add_register`, pre-order. -/
def allocWires (t : BT (QV F)) : List Nat := t.preorder.filterMap fun v => v.q

/-- Wires down the `left` spine: `t, t.left, t.left.left, …`. -/
def leftSpine : BT (QV F) → List Nat
  | .nil => []
  | .node v l _ => wire v.q :: leftSpine l

/-- Nodes down the `leftmost` descent: `t, leftmost t, leftmost (leftmost t), …`
(fuel = number of nodes, never exhausted). -/
def lmSpineAux : Nat → BT (QV F) → List Nat
  | 0, _ => []
  | _, .nil => []
  | f+1, .node v l r => wire v.q :: lmSpineAux f (BT.leftmost (.node v l r))

def lmSpine (t : BT (QV F)) : List Nat := lmSpineAux t.size t

/-- Every node of the tree has a qubit. -/
def allQ : BT (QV F) → Bool
  | .nil => true
  | .node v l r => v.q.isSome && allQ l && allQ r

end

/-! ### Labels -/

/-- Clear the wires in `ws`. -/
def clr (ws : List Nat) (b : Bits) : Bits := fun i => if i ∈ ws then false else b i

/-- Swap the wires of every pair, the *last* pair first (this is the relabelling denoted by the
gate list `pairs.map swap` under `sem`, which applies the head gate first). -/
def swapPairs : List (Nat × Nat) → Bits → Bits
  | [], b => b
  | (x, y) :: ps, b => swapBits x y (swapPairs ps b)

section
variable {F : Type}

/-- The wire pairs `_apply_cswaps` swaps: `(left, right), (left.left, leftmost right), …`. -/
def chainPairs : BT (QV F) → BT (QV F) → List (Nat × Nat)
  | .node vl ll _, .node vr rl rr =>
    (wire vl.q, wire vr.q) :: chainPairs ll (BT.leftmost (.node vr rl rr))
  | _, _ => []

variable (o : TOps F)

/-- Relabelling denoted by `_apply_cswaps(node)`: if the angle is non-zero and the node's qubit
reads 1, swap the two spines; otherwise nothing. -/
def cswapPerm : BT (QV F) → Bits → Bits
  | .nil, b => b
  | .node v l r, b =>
    if o.neZero v.y && b (wire v.q) then swapPairs (chainPairs l r) b else b

end

/-! ### Closed form of the bottom-up circuit -/

section
variable {Θ R : Type} [Mul R] [One R] [RotSem Θ R]
open RotSem

/-- Amplitude contributed by a node's `RY; RZ` on its qubit starting from `|0⟩`:
`cos(y/2)·e^{-iz/2}` on `|0⟩`, `sin(y/2)·e^{iz/2}` on `|1⟩`. -/
def nodeAmp (v : QV Θ) (b : Bits) : R :=
  if b (wire v.q) then sn v.y * ex v.z else cs v.y * exb v.z

/-- Amplitude of the state prepared by `bottom_up` on a whole tree (every level processed):
the node's own factor times the children's amplitudes read *after* the node's controlled-swap
relabelling. -/
def treeAmp (o : TOps Θ) : BT (QV Θ) → Bits → R
  | .nil, _ => 1
  | .node v l r, b =>
    nodeAmp v b * (treeAmp o l (cswapPerm o (.node v l r) b)
      * treeAmp o r (cswapPerm o (.node v l r) b))

end

/-! ### Root-to-leaf path product (angle algebra) -/

section
variable {F : Type} [Mul F] [One F]

/-- Product along the path to leaf `k` (most significant bit first) of `c2 angle_y` when going
left and `s2 angle_y` when going right, in an angle tree with `n` levels. -/
def pathProb (c2 s2 : F → F) : Nat → BT (AV F) → Nat → F
  | n+1, .node v l r, k =>
    if k < 2^n then c2 v.y * pathProb c2 s2 n l k else s2 v.y * pathProb c2 s2 n r (k - 2^n)
  | _, _, _ => 1

end

end Qclib
