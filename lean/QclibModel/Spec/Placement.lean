import QclibModel.Sem.Basic
import QclibModel.Model.Gate
/-
  C15 — specification vocabulary for placement and inverse (core Lean only; used by the driver).

  * `G.inv` — the inverse of a gate as qiskit's `Gate.inverse()` computes it (self-inverse gates
    unchanged, rotation / phase parameters negated, `u`/`cu` with `φ` and `λ` swapped);
    `Circ.inv c = c.reverse.map G.inv` is `QuantumCircuit.inverse()`.
  * `G.wires`, `G.wf` — the wires of a gate; well-formed = the target of a controlled gate is not
    one of its controls (qiskit rejects duplicate qubit arguments, so every gate of a real circuit
    is well-formed).
  * `mergeBits σ τ b' b` — the global label that is `b'` on the wires `σ 0, σ 1, …` and `b` on all
    other wires (`τ` is a left inverse of `σ`).
-/
namespace Qclib

namespace G
variable {Θ : Type}

/-- qiskit's `inverse()` of each gate of the alphabet. -/
def inv [Neg Θ] : G Θ → G Θ
  | x q => x q
  | h q => h q
  | cx c t => cx c t
  | cz c t => cz c t
  | ccx a b t => ccx a b t
  | mcx cs t => mcx cs t
  | ry θ q => ry (-θ) q
  | rz θ q => rz (-θ) q
  | p θ q => p (-θ) q
  | cp θ c t => cp (-θ) c t
  | u θ φ l q => u (-θ) (-l) (-φ) q
  | cu θ φ l g c t => cu (-θ) (-l) (-φ) (-g) c t
  | swap a b => swap a b
  | cswap c a b => cswap c a b
  | gphase θ => gphase (-θ)

/-- All wires a gate mentions. -/
def wires : G Θ → List Nat
  | x q | h q | ry _ q | rz _ q | p _ q | u _ _ _ q => [q]
  | cx c t | cz c t | cp _ c t | cu _ _ _ _ c t => [c, t]
  | ccx a b t => [a, b, t]
  | mcx cs t => cs ++ [t]
  | swap a b => [a, b]
  | cswap c a b => [c, a, b]
  | gphase _ => []

/-- The target is not among the controls (for `cswap`: the control is not one of the swapped wires). -/
def wf : G Θ → Bool
  | x _ | h _ | ry _ _ | rz _ _ | p _ _ | u _ _ _ _ | gphase _ | swap _ _ => true
  | cx c t | cz c t | cp _ c t | cu _ _ _ _ c t => c != t
  | ccx a b t => a != t && b != t
  | mcx cs t => !cs.contains t
  | cswap c a b => c != a && c != b

end G

/-- `QuantumCircuit.inverse()`: reverse the list and invert every gate. -/
def Circ.inv {Θ : Type} [Neg Θ] (c : Circ Θ) : Circ Θ := c.reverse.map G.inv

/-- Rename the wires of a circuit. -/
def Circ.rename {Θ : Type} (σ : Nat → Nat) (c : Circ Θ) : Circ Θ := c.map (G.mapWires σ)

/-- Overwrite the wires in the image of `σ` by the local label `b'` (wire `σ i` gets `b' i`), keep `b`
elsewhere.  `τ` is a left inverse of `σ`; `w` is in the image iff `σ (τ w) = w`. -/
def mergeBits (σ τ : Nat → Nat) (b' b : Bits) : Bits :=
  fun w => if σ (τ w) = w then b' (τ w) else b w

/-- The local label seen by a circuit placed through `σ`. -/
def pullBits (σ : Nat → Nat) (b : Bits) : Bits := fun i => b (σ i)

/-- The wire map of `place c ws` made injective outside the list: wire `i < ws.length` goes to
`ws[i]`, wire `i ≥ ws.length` to a fresh wire above every element of `ws`. -/
def placeMap (ws : List Nat) (i : Nat) : Nat :=
  if i < ws.length then ws.getD i 0 else ws.foldl max 0 + 1 + i

end Qclib
