import QclibModel.Sem.Basic
import QclibModel.Model.Mcu2
/-
  Ideal objects of C04, part B (core Lean only).
-/
namespace Qclib.Mcu2

/-- The recursion of `Qdmcu._define` with ideal multi-controlled X gates, as an operator on
amplitude functions.  `lits` lists the control literals `(wire, required bit)` in the order in
which the code peels them: the head is `(controls[-1], ctrl_state[0])`, then
`(controls[-2], ctrl_state[1])`, … (`qdLits`).  `V d` is the matrix used at depth `d`
(`U^(1/2^d)`), `W d` its inverse.  Time order of one level, as in the code:
`C_c(V) ; MCX(rest → c) ; C_c(V⁻¹) ; MCX(rest → c) ; recursive call on rest`. -/
def qdIdeal {R : Type} [Add R] [Mul R] [Zero R] [One R] (V W : Nat → Mat2 R) (t : Nat) :
    Nat → List (Nat × Bool) → State R → State R
  | _, [], ψ => ψ
  | d, [l], ψ => applyMcu [l] (V d) t ψ
  | d, l :: l' :: rest, ψ =>
    qdIdeal V W t (d + 1) (l' :: rest)
      (applyMcu (l' :: rest) Mat2.X l.1 (applyMcu [l] (W (d + 1)) t
        (applyMcu (l' :: rest) Mat2.X l.1 (applyMcu [l] (V (d + 1)) t ψ))))

/-- Pattern bookkeeping of `Qdmcu`: control `controls[k-1-j]` goes with character `ctrl_state[j]`. -/
def qdLits (ctrls : List Nat) (pat : List Bool) : List (Nat × Bool) := ctrls.reverse.zip pat

/-- The controlled-root gates of `qdIdeal`, as skeleton gates. -/
def qdCroots {Θ : Type} (t : Nat) : Nat → List (Nat × Bool) → List (LG Θ)
  | _, [] => []
  | d, [l] => [LG.croot l.1 t l.2 (2 ^ d) 1]
  | d, l :: l' :: rest =>
    [LG.croot l.1 t l.2 (2 ^ (d + 1)) 1, LG.croot l.1 t l.2 (2 ^ (d + 1)) (-1)]
      ++ qdCroots t (d + 1) (l' :: rest)

/-- The decision table of `Mcg._define`. -/
inductive McgCallee
  | plain            -- `definition.unitary(U, target)`
  | controlled       -- `UnitaryGate(U).control(1, ctrl_state)`
  | ldmcsu           -- `Ldmcsu.ldmcsu(definition, U, controls, target, ctrl_state)`
  | ldmcu            -- `Ldmcu.ldmcu(definition, U, controls, target, ctrl_state)`
  | mcgSu2           -- `up_to_diagonal` on a non-SU(2) matrix: nested `Mcg` with `U / det(U)^(1/2)`
  deriving Repr, DecidableEq

def mcgCallee (k : Nat) (su2 utd : Bool) : McgCallee :=
  if k = 0 then .plain else if k = 1 then .controlled else if su2 then .ldmcsu
  else if utd then .mcgSu2 else .ldmcu

end Qclib.Mcu2
