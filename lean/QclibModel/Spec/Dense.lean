import QclibModel.Sem.Denote
import QclibModel.Model.TopDown
import QclibModel.Spec.Ucr
/-
  Specification-side definitions for C01 (core Lean only): the root-to-leaf path amplitude of an
  angle tree, the node reached by an index, the index read on the top wires.
-/
namespace Qclib.Dense
open RotSem

section
variable {Θ R : Type} [Mul R] [One R] [RotSem Θ R]

/-- Amplitude factor contributed by an angle-tree node to its left (`c = false`) / right
(`c = true`) child: `RZ(z)·RY(y)` applied to `|0⟩` gives `cos(y/2)·e^{-iz/2}` on `|0⟩` and
`sin(y/2)·e^{iz/2}` on `|1⟩`. -/
def stepAmp (v : AV Θ) (c : Bool) : R :=
  if c then sn v.y * ex v.z else cs v.y * exb v.z

/-- Product of the factors along the first `d` levels of the path to index `j` (`d` bits, most
significant = the decision at the root). -/
def pathAmp : Nat → BT (AV Θ) → Nat → R
  | d+1, .node v l r, j =>
    if j < 2^d then stepAmp v false * pathAmp d l j else stepAmp v true * pathAmp d r (j - 2^d)
  | _, _, _ => 1

end

/-- The node `d` levels below `t` reached by the `d` bits of `j` (most significant first). -/
def BT.descend {α : Type} : Nat → Nat → BT α → BT α
  | 0, _, t => t
  | d+1, j, t => if j < 2^d then BT.descend d j t.left else BT.descend d (j - 2^d) t.right

/-- The number read on the `d` wires `s+1 … s+d` (wire `s+1+i` = bit `i`). -/
def topIdx (s d : Nat) (b : Bits) : Nat := ctrlIdx d (fun i => b (i + s))

end Qclib.Dense
