import QclibModel.Model.Ucg
import Mathlib.Algebra.Star.Basic
import Mathlib.Algebra.Field.Basic
/-
  Ideal objects and specifications used by the C12 theorems.
  States are amplitude vectors indexed by naturals (`i < 2^n`, wire `q` = bit `q` of `i`).
-/
namespace Qclib.Ucg

/-- The scalar operations of a field with conjugation; the pair norm `nrm` (`numpy.linalg.norm`
of two amplitudes) and the zero test are parameters with the specifications below. -/
def ringOps (K : Type) [Field K] [StarRing K] (nrm : K → K → K) (isZero : K → Bool) : COps K where
  zero := 0
  one := 1
  add := (· + ·)
  mul := (· * ·)
  neg := (- ·)
  conj := star
  div := (· / ·)
  nrm := nrm
  isZero := isZero

/-- What the theorems assume of `la.norm([a, b])`: it is real, its square is `|a|² + |b|²`, it
vanishes only for the zero pair, and it is `1` (not `-1`) on unit pairs.  (In `ℂ` all four hold
for `√(|a|² + |b|²)`.) -/
structure NrmSpec {K : Type} [Field K] [StarRing K] (nrm : K → K → K) : Prop where
  real : ∀ a b, star (nrm a b) = nrm a b
  sq : ∀ a b, nrm a b * nrm a b = a * star a + b * star b
  zero : ∀ a b, nrm a b = 0 → a = 0 ∧ b = 0
  one : ∀ a b, a * star a + b * star b = 1 → nrm a b = 1

/-- the `!= 0` tests are exact. -/
def ZeroSpec {K : Type} [Zero K] (isZero : K → Bool) : Prop := ∀ x, isZero x = true ↔ x = 0

/-- amplitude vector over `n` wires. -/
abbrev Vec (K : Type) := Nat → K

/-- basis state `|t⟩`. -/
def delta {K : Type} [Zero K] [One K] (t : Nat) : Vec K := fun i => if i = t then 1 else 0

/-- Uniformly controlled one-qubit gate on target wire `q`, entry `mux (i / 2^(q+1))` selected by
the wires above the target (control wire `q+1+j` = bit `j` of the entry index). -/
def muxApply {K : Type} [Add K] [Mul K] (mux : Nat → Mat2 K) (q : Nat) (ψ : Vec K) : Vec K :=
  fun i =>
    let lo := i % 2 ^ q
    let hi := i / 2 ^ q / 2
    let m := mux hi
    let x0 := ψ (lo + 2 ^ q * (2 * hi))
    let x1 := ψ (lo + 2 ^ q * (2 * hi + 1))
    if i / 2 ^ q % 2 = 1 then m.c * x0 + m.d * x1 else m.a * x0 + m.b * x1

/-- the label `i` agrees with `t` on every wire except the target `q` (what the fully controlled
gate of `_preserve_previous` tests). -/
def agreesOff (q t i : Nat) : Prop := i % 2 ^ q = t % 2 ^ q ∧ i / 2 ^ q / 2 = t / 2 ^ q / 2

instance (q t i : Nat) : Decidable (agreesOff q t i) := by unfold agreesOff; infer_instance

/-- one-qubit gate `m` on wire `q`, controlled on all other wires carrying the bits of `t`. -/
def ctrlApply {K : Type} [Add K] [Mul K] (m : Mat2 K) (q t : Nat) (ψ : Vec K) : Vec K :=
  fun i => if agreesOff q t i then muxApply (fun _ => m) q ψ i else ψ i

/-- multiplication by the (conjugated) residual diagonal of a level: entry `i / 2^q`. -/
def diagApply {K : Type} [Mul K] (d : Nat → K) (q : Nat) (ψ : Vec K) : Vec K :=
  fun i => d (i / 2 ^ q) * ψ i

end Qclib.Ucg
