import QclibModel.Sem.Denote
import QclibModel.Model.FnPoints
/-  Specification side of C18 (core Lean only): label predicates and the amplitude recursion. -/
namespace Qclib
open RotSem

/-- The `2n+1` wires of the circuit are pairwise distinct. -/
structure FnWires (n : Nat) (L : FnLayout) : Prop where
  x_inj : ∀ i j, i < n → j < n → L.xw i = L.xw j → i = j
  g_inj : ∀ i j, i < n - 1 → j < n - 1 → L.gw i = L.gw j → i = j
  x_g : ∀ i j, i < n → j < n - 1 → L.xw i ≠ L.gw j
  x_c0 : ∀ i, i < n → L.xw i ≠ L.c0
  x_c1 : ∀ i, i < n → L.xw i ≠ L.c1
  g_c0 : ∀ k, k < n - 1 → L.gw k ≠ L.c0
  g_c1 : ∀ k, k < n - 1 → L.gw k ≠ L.c1
  c0_c1 : L.c0 ≠ L.c1

/-- Content of the x register in label `b`, as a bit function (`false` beyond `n`). -/
def fnXbits (L : FnLayout) (n : Nat) (b : Bits) : Nat → Bool := fun j => decide (j < n) && b (L.xw j)

/-- Two bit functions agree on `0 … n-1`. -/
def fnMatch (n : Nat) (zf z : Nat → Bool) : Bool := (List.range n).all (fun j => zf j == z j)

/-- The x register of `b` holds the pattern `z`. -/
def fnXMatch (L : FnLayout) (n : Nat) (z : Nat → Bool) (b : Bits) : Bool := fnMatch n (fnXbits L n b) z

/-- All work qubits `g` are `0` in `b`. -/
def fnGClr (L : FnLayout) (n : Nat) (b : Bits) : Bool := (List.range (n - 1)).all (fun k => !b (L.gw k))

def fnIsWire (L : FnLayout) (n : Nat) (w : Nat) : Bool :=
  (List.range n).any (fun j => w == L.xw j) || (List.range (n - 1)).any (fun k => w == L.gw k)
    || w == L.c0 || w == L.c1

/-- `b` with every wire of the circuit reset to `0` (spectator wires untouched). -/
def fnClr (L : FnLayout) (n : Nat) (b : Bits) : Bits := fun w => if fnIsWire L n w then false else b w

/-- Every wire of the circuit is `0` in `b`. -/
def fnZero (L : FnLayout) (n : Nat) (b : Bits) : Bool :=
  fnXMatch L n (fun _ => false) b && fnGClr L n b && !b L.c0 && !b L.c1

/-- Amplitude picked up by the x-pattern `zf` when the loop runs over the (already reversed) list
with generator amplitude `gen`: the first listed point that matches gets
`e^{iφ}·sin(θ/2)·gen` (the `|1⟩` entry of the first column of `U(θ,φ,λ)`), the generator keeps
`cos(θ/2)·gen` for the points still to come. -/
def fnCoef {Θ R : Type} [Mul R] [Zero R] [RotSem Θ R] (A : FnAngles Θ) (n : Nat) :
    R → List FnPoint → (Nat → Bool) → R
  | _, [], _ => 0
  | gen, pt :: rest, zf =>
    if fnMatch n zf pt.z then ex (A.phi pt.s) * ex (A.phi pt.s) * sn (A.theta rest.length) * gen
    else fnCoef A n (cs (A.theta rest.length) * gen) rest zf

end Qclib
