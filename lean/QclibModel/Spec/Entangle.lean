import Mathlib.Data.Complex.Basic
import Mathlib.Algebra.BigOperators.Group.Finset.Basic
/-
  C20 — the ideal objects the property speaks of: deleting / inserting one bit of a basis-state
  label, one-qubit reduced purities written with explicit finite sums, product states.
-/
namespace Qclib.Ent
open Finset

/-! ### bit deletion / insertion on basis-state labels -/

/-- `b` with bit `j` squeezed out: the bits above `j` move down by one. -/
def delBit (j b : Nat) : Nat := b / 2 ^ (j + 1) * 2 ^ j + b % 2 ^ j

/-- Insert bit value `c` at position `j` of `r` (bits `≥ j` of `r` move up by one). -/
def insBit (j : Nat) (c : Bool) (r : Nat) : Nat :=
  r / 2 ^ j * 2 ^ (j + 1) + (if c then 2 ^ j else 0) + r % 2 ^ j

/-! ### vectors as amplitude functions `ℕ → ℂ` with explicit finite sums -/

/-- `‖u‖² = Σ_{i<m} |u_i|²`. -/
noncomputable def nrm2 (m : Nat) (u : Nat → ℂ) : ℝ := ∑ i ∈ range m, Complex.normSq (u i)

/-- `⟨u,v⟩ = Σ_{i<m} conj(u_i)·v_i`. -/
noncomputable def inner (m : Nat) (u v : Nat → ℂ) : ℂ := ∑ i ∈ range m, (starRingEnd ℂ) (u i) * v i

/-- The slice `ι_j^c ψ`: amplitudes whose label has bit `j` equal to `c`, indexed by the label
with bit `j` removed. -/
def slice (ψ : Nat → ℂ) (j : Nat) (c : Bool) : Nat → ℂ := fun r => ψ (insBit j c r)

/-- `Tr ρ_k²` for the reduced state of qubit `k` of an `n`-qubit vector `ψ`:
`ρ_k = [[⟨u,u⟩, ⟨v,u⟩],[⟨u,v⟩, ⟨v,v⟩]]` with `u, v` the two slices, so
`Tr ρ_k² = ‖u‖⁴ + ‖v‖⁴ + 2|⟨u,v⟩|²`. -/
noncomputable def purity (n : Nat) (ψ : Nat → ℂ) (k : Nat) : ℝ :=
  let m := 2 ^ (n - 1)
  nrm2 m (slice ψ k false) ^ 2 + nrm2 m (slice ψ k true) ^ 2
    + 2 * Complex.normSq (inner m (slice ψ k false) (slice ψ k true))

/-- The generalized cross product / distance `D(u,v) = Σ_{i<j<m} |u_i v_j − u_j v_i|²`. -/
noncomputable def crossSum (m : Nat) (u v : Nat → ℂ) : ℝ :=
  ∑ j ∈ range m, ∑ i ∈ range j, Complex.normSq (u i * v j - u j * v i)

/-- The value the code computes, as a formula: `(Σ_k D(ι_k^0 ψ, ι_k^1 ψ))·(4/n)`. -/
noncomputable def mwValue (n : Nat) (ψ : Nat → ℂ) : ℝ :=
  (∑ k ∈ range n, crossSum (2 ^ (n - 1)) (slice ψ k false) (slice ψ k true)) * (4 / n)

/-- Product state of one-qubit vectors `f k : Bool → ℂ`, qubit `k` = bit `k` of the label. -/
def prodState (n : Nat) (f : Nat → Bool → ℂ) : Nat → ℂ :=
  fun b => ∏ k ∈ range n, f k (b.testBit k)

/-- Two vectors are proportional (the 2×m matrix with rows `u`, `v` has rank ≤ 1). -/
def Proportional (m : Nat) (u v : Nat → ℂ) : Prop :=
  ∃ a b : ℂ, (a ≠ 0 ∨ b ≠ 0) ∧ ∀ i, i < m → a * u i = b * v i

/-- The amplitude function of an array (0 outside). -/
def ampOf (vec : Array ℂ) : Nat → ℂ := fun b => vec.getD b 0

end Qclib.Ent

namespace Qclib.Ent

/-! ### list versions (geometric measure post-processing) -/

/-- `⟨u,v⟩ = Σ conj(u_i)·v_i` for lists (up to the shorter length). -/
noncomputable def dotL : List ℂ → List ℂ → ℂ
  | a :: u, b :: v => (starRingEnd ℂ) a * b + dotL u v
  | _, _ => 0

/-- `‖u‖²` for lists. -/
noncomputable def nrm2L : List ℂ → ℝ
  | [] => 0
  | a :: u => Complex.normSq a + nrm2L u

end Qclib.Ent

namespace Qclib.Ent

/-! ### one-qubit gates on amplitude functions -/

/-- The 2×2 matrix `U` (entry `U row col`) applied to qubit `q` (bit `q` of the label). -/
def apply1 (U : Bool → Bool → ℂ) (q : Nat) (ψ : Nat → ℂ) : Nat → ℂ := fun b =>
  U (b.testBit q) false * ψ (insBit q false (delBit q b))
    + U (b.testBit q) true * ψ (insBit q true (delBit q b))

/-- `U†U = 1` for a 2×2 matrix (orthonormal columns). -/
def IsUnitary2 (U : Bool → Bool → ℂ) : Prop :=
  Complex.normSq (U false false) + Complex.normSq (U true false) = 1
  ∧ Complex.normSq (U false true) + Complex.normSq (U true true) = 1
  ∧ (starRingEnd ℂ) (U false false) * U false true + (starRingEnd ℂ) (U true false) * U true true = 0

end Qclib.Ent
