import QclibModel.Sem.Basic
import QclibModel.Model.Mcsu
/-
  Specification side of C04 (part A): the ideal multi-controlled one-qubit gate and the
  denotation of the gate skeleton.  Core Lean only.
-/
namespace Qclib.Mcsu

/-- The ideal operator of the property: "apply `U` to the target iff the controls read the
pattern, identity otherwise" is `applyMcu lits U t` of `Sem/Basic.lean`, with `lits` the list of
`(control wire, required value)`. -/
abbrev idealMcu {R : Type} [Add R] [Mul R] (lits : List (Nat × Bool)) (U : Mat2 R) (t : Nat) :
    State R → State R := applyMcu lits U t

/-- Interpretation of the two MCX constructors of the skeleton (`mcxv`, `lmcx`): a parameter of
the denotation.  The circuit-level theorems assume it is the ideal MCX (`IdealMcx`), which is
what C05 (`C05_vchain`, `C05_linear`) proves about the expansion the driver prints. -/
structure McxSem (R : Type) where
  mv : Nat → Nat → List Nat → Option (List Bool) → Bool → Bool → State R → State R
  lm : Nat → List Nat → Bool → Bool → State R → State R

variable {K R : Type} [Add R] [Mul R] [Neg R] [Zero R] [One R]

/-- Denotation of one skeleton gate.  `ι` maps the model's complex matrices into the ring of
amplitudes, `rh` is `1/√2`. -/
def denoteSG (ι : CMat K → Mat2 R) (rh : R) (M : McxSem R) : SG K → State R → State R
  | .x q => applyMcu [] Mat2.X q
  | .h q => applyMcu [] ⟨rh, rh, rh, -rh⟩ q
  | .cx c t => applyMcu [(c, true)] Mat2.X t
  | .ccx a b t => applyMcu [(a, true), (b, true)] Mat2.X t
  | .un m q => applyMcu [] (ι m) q
  | .cun m c t v => applyMcu [(c, v)] (ι m) t
  | .mcxv k nt ws cs ao inv => M.mv k nt ws cs ao inv
  | .lmcx k ws ao inv => M.lm k ws ao inv

/-- Gates are applied in list order. -/
def semSG (ι : CMat K → Mat2 R) (rh : R) (M : McxSem R) (gs : List (SG K)) (ψ : State R) :
    State R :=
  gs.foldl (fun s g => denoteSG ι rh M g s) ψ

end Qclib.Mcsu
