import QclibModel.Sem.Denote
import QclibModel.Spec.Ucr
import QclibModel.Model.BlackBox
/-
  Specification side of C19 (core Lean only): denotation of the black-box gate alphabet in the
  amplitude-function semantics, and the ideal objects the theorems speak of.

  K4 primitives are denoted by their specifications: `UCRYGate/UCRZGate(a)` by the ideal
  multiplexer `muxIdeal` (target wire 0, control wires `1..k`, wire `i+1` = bit `i` of the angle
  index), their `.inverse()` by the multiplexer of the negated angles, `UnitaryGate(diag(-1,1))` by
  that matrix, `.control(n, ctrl_state=0)` by the multi-controlled gate with all control literals
  `(wire, false)`, `global_phase = π` by multiplication with `-1`.
-/
namespace Qclib
open RotSem

section
variable {Θ R : Type} [Add R] [Mul R] [Neg R] [Zero R] [One R] [Neg Θ] [RotSem Θ R]

/-- `[[-1, 0], [0, 1]]`, the matrix `it_matrix` of the code. -/
def matIt : Mat2 R := ⟨-1, 0, 0, 1⟩

/-- control literals of `I_s`: wires `0..n-1` must all read 0 -/
def isCtrls (n : Nat) : List (Nat × Bool) := (List.range n).map (fun i => (i, false))

def bdenote : BG Θ → State R → State R
  | .h q => applyMcu [] (matH Θ) q
  | .ucry k a => muxIdeal .Y k a
  | .ucrz k a => muxIdeal .Z k a
  | .ucryDg k a => muxIdeal .Y k (fun j => -(a j))
  | .ucrzDg k a => muxIdeal .Z k (fun j => -(a j))
  | .it q => applyMcu [] matIt q
  | .is n => applyMcu (isCtrls n) matIt n
  | .gphasePi => scale (-1)

/-- Gates are applied in list order. -/
def bsem (c : List (BG Θ)) (ψ : State R) : State R := c.foldl (fun s g => bdenote g s) ψ

end

/-- The label with every wire 0. -/
def zeroBits : Bits := fun _ => false

/-- `b` is zero on every wire except possibly those in `0..n` -/
def ZeroAbove (n : Nat) (b : Bits) : Prop := ∀ i, n < i → b i = false

end Qclib
