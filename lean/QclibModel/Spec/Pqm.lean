import QclibModel.Sem.Denote
import QclibModel.Model.Pqm
/-  Ideal behaviour for C17 (specification side; core Lean only). -/
namespace Qclib
open RotSem

/-- Hamming distance between the memory bits and the pattern, read off a basis label. -/
def pqmDist (n : Nat) (classical : Bool) (pattern : Nat → Bool) (mem pat : Nat → Nat)
    (b : Bits) : Nat :=
  ((List.range n).filter
    (fun k => b (mem k) != (if classical then pattern k else b (pat k)))).length

/-- Closed form of the retrieval circuit on an arbitrary state: with `zb = e^{iθm}`,
`w = e^{iθc}`, `d` the Hamming distance, the auxiliary ends in
`½[(zb^d + (zb·w)^d) ψ₀ + (zb^d − (zb·w)^d) ψ₁]` on `|0⟩` and the mirrored combination on `|1⟩`;
memory and pattern labels are untouched. -/
def pqmIdeal {Θ R} [Add R] [Mul R] [Neg R] [One R] [RotSem Θ R] [HPow R Nat R]
    (n : Nat) (classical : Bool) (pattern : Nat → Bool) (mem pat : Nat → Nat) (aux : Nat)
    (θm θc : Θ) (ψ : State R) : State R :=
  fun b =>
    let d := pqmDist n classical pattern mem pat b
    let z0 : R := (ex θm * ex θm) ^ d
    let z1 : R := ((ex θm * ex θm) * (ex θc * ex θc)) ^ d
    let ψ0 := ψ (setBit b aux false)
    let ψ1 := ψ (setBit b aux true)
    let hh : R := rh Θ * rh Θ
    if b aux then hh * ((z0 + -z1) * ψ0 + (z0 + z1) * ψ1)
    else hh * ((z0 + z1) * ψ0 + (z0 + -z1) * ψ1)

/-- Wires of the three registers are pairwise distinct. -/
structure PqmWires (n : Nat) (mem pat : Nat → Nat) (aux : Nat) : Prop where
  mem_inj : ∀ i j, i < n → j < n → mem i = mem j → i = j
  mem_aux : ∀ i, i < n → mem i ≠ aux
  pat_aux : ∀ i, i < n → pat i ≠ aux
  mem_pat : ∀ i j, i < n → j < n → mem i ≠ pat j

end Qclib
