import QclibModel.Sem.Denote
import QclibModel.Model.Ucr
/-  Ideal operator for C13 (specification side; core Lean only). -/
namespace Qclib
open RotSem

/-- The number read on the `k` control wires `1..k` (wire `i+1` is bit `i`). -/
def ctrlIdx : Nat → Bits → Nat
  | 0, _ => 0
  | k+1, b => ctrlIdx k b + (if b (k+1) then 2^k else 0)

def rotMat {Θ R} [Neg R] [Zero R] [RotSem Θ R] (ax : Axis) (θ : Θ) : Mat2 R :=
  match ax with | .Y => matRY θ | .Z => matRZ θ

/-- The ideal multiplexer: rotation by the `j`-th angle on wire 0 where the controls read `j`. -/
def muxIdeal {Θ R} [Add R] [Mul R] [Neg R] [Zero R] [RotSem Θ R] (ax : Axis) (k : Nat)
    (a : Nat → Θ) : State R → State R :=
  applyFam (fun b => rotMat ax (a (ctrlIdx k b))) 0

/-- The combinations the library uses: RY with CX or CZ, RZ with CX. -/
def validPair : Axis → Ent → Bool
  | .Z, .CZ => false
  | _, _ => true

end Qclib
