import QclibModel.Sem.Basic
import QclibModel.Model.Mcx
/-  Ideal operators for C05 (specification side; core Lean only). -/
namespace Qclib

/-- Flip every wire of the list. -/
def flipAll (ts : List Nat) (b : Bits) : Bits := ts.foldl flipBit b

/-- The classical permutation "flip the targets iff the control literals hold", as an operator on
amplitude functions (it is an involution, so the new amplitude at `b` is the old one at its
image). -/
def mcxIdeal {R : Type} (lits : List (Nat × Bool)) (ts : List Nat) (ψ : State R) : State R :=
  fun b => if ctrlOk lits b then ψ (flipAll ts b) else ψ b

/-- Control literals of a `ctrl_state`: control `i` (wire `c i`) must read `csBit cs i`. -/
def patLits (k : Nat) (c : Nat → Nat) (cs : Option (List Bool)) : List (Nat × Bool) :=
  (List.range k).map (fun i => (c i, csBit cs i))

/-- The diagonal of the relative-phase V-chain: `-1` where the first `k-1` controls match the
pattern, the last one does not, and the target reads `0`; `+1` elsewhere. -/
def relSign {R : Type} [One R] [Neg R] (k : Nat) (c : Nat → Nat) (cs : Option (List Bool))
    (t : Nat) (b : Bits) : R :=
  if ctrlOk (patLits (k - 1) c cs) b && (b (c (k - 1)) != csBit cs (k - 1)) && !(b t) then -1 else 1

/-- Pairwise-distinct wires: `k` controls, `k-2` borrowed qubits, `nt` targets. -/
structure VLayout (k nt : Nat) (c a t : Nat → Nat) : Prop where
  hcc : ∀ i j, i < k → j < k → c i = c j → i = j
  haa : ∀ i j, i < k - 2 → j < k - 2 → a i = a j → i = j
  htt : ∀ i j, i < nt → j < nt → t i = t j → i = j
  hca : ∀ i j, i < k → j < k - 2 → c i ≠ a j
  hct : ∀ i j, i < k → j < nt → c i ≠ t j
  hat : ∀ i j, i < k - 2 → j < nt → a i ≠ t j

end Qclib
