import QclibModel.Sem.Basic
import QclibModel.Model.Gate
import QclibModel.Sem.Denote
