import Lean.Data.Json
import QclibModel.Model.All
/-
  Line-protocol driver: one JSON object per input line, a block of output lines terminated by
  `END` per op.  Run with `lake env lean --run Main.lean < ops.jsonl`.
-/
open Lean Qclib

def jNat (j : Json) (k : String) : Nat := ((j.getObjValAs? Nat k).toOption).getD 0
def jStr (j : Json) (k : String) : String := ((j.getObjValAs? String k).toOption).getD ""
def jBool (j : Json) (k : String) : Bool := ((j.getObjValAs? Bool k).toOption).getD false
def jFloat (j : Json) (k : String) : Float :=
  match j.getObjVal? k with
  | .ok (.num n) => n.toFloat
  | _ => 0.0
def jFloats (j : Json) (k : String) : Array Float :=
  match j.getObjVal? k with
  | .ok (.arr xs) => xs.map (fun x => match x with | .num n => n.toFloat | _ => 0.0)
  | _ => #[]
def jNats (j : Json) (k : String) : Array Nat :=
  match j.getObjVal? k with
  | .ok (.arr xs) => xs.map (fun x => (x.getNat?.toOption).getD 0)
  | _ => #[]

def runOp (j : Json) : List String :=
  match jStr j "op" with
  | "ucr" =>
    let ax := if jStr j "axis" == "Z" then Axis.Z else Axis.Y
    let e := if jStr j "ent" == "CZ" then Ent.CZ else Ent.CX
    let angles := jFloats j "angles"
    circLines (ucr floatOps ax e (jNat j "k") (fun i => angles.getD i 0.0) (jBool j "last"))
  | "pqm" =>
    let n := jNat j "n"
    let pattern := jNats j "pattern"
    let mem := jNats j "mem"
    let pat := jNats j "pat"
    circLines (pqm n (jBool j "classical") (fun k => pattern.getD k 0 == 1)
      (fun k => mem.getD k 0) (fun k => pat.getD k 0) (jNat j "aux")
      (jFloat j "theta_m") (jFloat j "theta_c"))
  | other => ["UNKNOWN-OP " ++ other]

partial def loop (h : IO.FS.Stream) (out : IO.FS.Stream) : IO Unit := do
  let line ← h.getLine
  if line.isEmpty then return ()
  let t := line.trimAscii.toString
  if t.isEmpty then loop h out else
  match Json.parse t with
  | .ok j =>
    for l in runOp j do out.putStrLn l
    out.putStrLn "END"
    loop h out
  | .error e =>
    out.putStrLn ("PARSE-ERROR " ++ e)
    out.putStrLn "END"
    loop h out

def main : IO Unit := do
  loop (← IO.getStdin) (← IO.getStdout)
